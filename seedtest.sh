#!/bin/bash
# usage: seedtest.sh <patch> <prop>...   applies a seeded change to /repo, runs the checks, restores /repo
patch=$1; shift
cd /repo && git diff --quiet || { echo "/repo dirty"; exit 2; }
git apply "$patch" || { echo "patch does not apply"; exit 2; }
cd /verif
for c in "$@"; do
  out=$(./check $c 2>&1)
  echo "$c: $(echo "$out" | grep -c '^VIOLATION') violation(s): $(echo "$out" | grep '^  rule' | awk '{print $2}' | sort | uniq -c | tr '\n' ' ')"
  echo "$out" | grep -A2 '^  rule' | grep -v '^--' | head -${SHOW:-4} | cut -c1-330
done
git -C /repo checkout -- .
