// ---- ABI family (hand-enumerated, static part of the corpus): every supported argument kind, 0..3 arguments,
// ---- interface families at versions 0,1,2.  Only compiled under the analysis driver.
pub mod abi {
    #![allow(warnings)]
    use savefile::prelude::*;
    use savefile_derive::{savefile_abi_exportable, Savefile};
    use savefile_abi::{AbiConnection, AbiExportable};
    use std::future::Future;
    use std::pin::Pin;

    #[derive(Savefile, Clone)]
    #[repr(C)]
    pub struct PackedArg { pub a: u32, pub b: u32 }

    #[derive(Savefile, Clone)]
    pub struct PlainArg { pub a: u32, pub s: String }

    #[derive(Savefile, Clone)]
    pub struct VerArg {
        pub a: u32,
        #[savefile_versions = "1.."]
        pub b: u32,
        #[savefile_versions = "2.."]
        pub c: String,
    }

    #[savefile_abi_exportable(version = 0)]
    pub trait Callback {
        fn set(&mut self, x: u32);
        fn get(&self) -> u32;
    }

    #[savefile_abi_exportable(version = 0)]
    pub trait Kinds0 {
        fn no_args(&self);
        fn one_val(&self, a: u32) -> u32;
        fn two_val(&self, a: u32, b: String) -> String;
        fn three_val(&mut self, a: u64, b: PlainArg, c: Vec<u8>) -> Vec<u32>;
        fn by_ref_packed(&self, a: &PackedArg) -> u32;
        fn by_ref_plain(&self, a: &PlainArg) -> u32;
        fn by_ref_prim(&self, a: &u32, b: &String) -> usize;
        fn str_arg(&self, s: &str) -> usize;
        fn slice_arg(&self, s: &[u32], t: &[String]) -> Vec<u32>;
        fn result_ret(&self, a: u32) -> Result<u32, String>;
        fn result_fixed(&self, a: u32) -> Result<u32, (u32, u32)>;
        fn result_wide_err(&self, a: u8) -> Result<(), (u64, u64)>;
        fn option_ret(&self, a: Option<u32>) -> Option<String>;
        fn boxed_trait_arg(&self, cb: Box<dyn Callback>) -> u32;
        fn borrowed_trait_arg(&self, cb: &dyn Callback) -> u32;
        fn mut_trait_arg(&mut self, cb: &mut dyn Callback);
        fn fn_arg(&self, f: &dyn Fn(u32) -> u32) -> u32;
        fn fnmut_arg(&self, f: &mut dyn FnMut(u32, String)) ;
        fn boxed_fn_arg(&self, f: Box<dyn Fn(u32) -> u32>) -> u32;
        fn ret_boxed_trait(&self) -> Box<dyn Callback>;
        fn ret_boxed_fn(&self) -> Box<dyn Fn(u32) -> u32>;
        fn tuple_args(&self, a: (u32, u32), b: (u8,)) -> (u32, u32, u32);
        fn unit_arg(&self, z: ());
        fn static_str(&self) -> &'static str;
    }

    #[savefile_abi_exportable(version = 0)]
    pub trait FutIface {
        fn fut(&self, a: u32) -> Pin<Box<dyn Future<Output = u32>>>;
        fn fut_send(&self, a: String) -> Pin<Box<dyn Future<Output = String> + Send>>;
    }

    // interface family at versions 0, 1, 2 (documented evolution: versioned argument types, added methods)
    #[savefile_abi_exportable(version = 0)]
    pub trait Fam_v0 {
        fn f(&self, a: VerArg) -> VerArg;
        fn g(&self, a: &VerArg) -> u32;
    }
    #[savefile_abi_exportable(version = 1)]
    pub trait Fam_v1 {
        fn f(&self, a: VerArg) -> VerArg;
        fn g(&self, a: &VerArg) -> u32;
        fn h(&self, x: u32) -> Result<VerArg, String>;
        fn j(&self, x: u32) -> Pin<Box<dyn Future<Output = VerArg> + Send>>;
    }
    #[savefile_abi_exportable(version = 2)]
    pub trait Fam_v2 {
        fn f(&self, a: VerArg) -> VerArg;
        fn g(&self, a: &VerArg) -> u32;
        fn h(&self, x: u32) -> Result<VerArg, String>;
        fn i(&self, cb: &dyn Fn(VerArg) -> VerArg) -> VerArg;
        fn j(&self, x: u32) -> Pin<Box<dyn Future<Output = VerArg>>>;
        fn k(&self, f: Box<dyn Fn(u32) -> VerArg>) -> u32;
    }

    // marker supertraits, in both orders, and a closure argument with both marker bounds: the generated definitions must record them
    #[savefile_abi_exportable(version = 0)]
    pub trait BoundsSyncSend: Sync + Send {
        fn get(&self) -> u32;
    }
    #[savefile_abi_exportable(version = 0)]
    pub trait BoundsSendSync: Send + Sync {
        fn get(&self) -> u32;
    }
    #[savefile_abi_exportable(version = 0)]
    pub trait BoundsSendOnly: Send {
        fn get(&self) -> u32;
    }
    #[savefile_abi_exportable(version = 0)]
    pub trait BoundsSyncOnly: Sync {
        fn get(&self) -> u32;
    }
    #[savefile_abi_exportable(version = 0)]
    pub trait BoundsArgs {
        fn run(&self, f: Box<dyn Fn(u32) -> u32 + Send + Sync>) -> u32;
        fn run_send(&self, f: Box<dyn Fn(u32) -> u32 + Send>) -> u32;
    }
}
