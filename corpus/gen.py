#!/usr/bin/env python3
"""Generates the witness corpus crate `sfcorpus` (only ever *compiled* under the analysis driver, never run)
and `corpus_meta.json`, an independent model of what the documentation promises for every definition:
which fields exist at which version, with which wire type, which default, which conversion.

The model is computed here from the edit scripts, never from the derive macro's output."""
import argparse
import itertools
import json
import os
import random

# rust syntax -> canonical (def-path) type name as printed by the driver
CANON = {
    "u8": "u8", "i8": "i8", "u16": "u16", "i16": "i16", "u32": "u32", "i32": "i32", "u64": "u64", "i64": "i64",
    "u128": "u128", "i128": "i128", "f32": "f32", "f64": "f64", "bool": "bool", "char": "char", "usize": "usize",
    "isize": "isize", "String": "alloc::string::String", "()": "()",
}


# library-supported foreign types used as fields of the wrapper witnesses (family WRAP): rust syntax -> driver name
FOREIGN = {
    "std::cell::RefCell<u64>": "core::cell::RefCell<u64>",
    "std::rc::Rc<u64>": "alloc::rc::Rc<u64>",
    "std::sync::Arc<u64>": "alloc::sync::Arc<u64>",
    "std::sync::Mutex<u64>": "std::sync::poison::mutex::Mutex<u64>",
    "std::marker::PhantomData<u64>": "core::marker::PhantomData<u64>",
    "std::ops::Range<u64>": "core::ops::range::Range<u64>",
    "std::time::Duration": "core::time::Duration",
    "std::sync::atomic::AtomicU64": "core::sync::atomic::Atomic<u64>",
    "Result<u64, u64>": "core::result::Result<u64, u64>",
    "nalgebra::Point3<f64>": "nalgebra::geometry::point::OPoint<f64, nalgebra::base::dimension::Const<3>>",
    "nalgebra::Vector3<f64>": "nalgebra::base::matrix::Matrix<f64, nalgebra::base::dimension::Const<3>, nalgebra::base::dimension::Const<1>, "
                              "nalgebra::base::array_storage::ArrayStorage<f64, 3, 1>>",
    "nalgebra::Isometry3<f64>": "nalgebra::geometry::isometry::Isometry<f64, nalgebra::base::unit::Unit<nalgebra::geometry::quaternion::Quaternion<f64>>, 3>",
}


WRAP_NAMES = ["refcell", "rc", "arc", "mutex", "phantom", "range", "duration", "atomic", "result", "na_point3", "na_vector3", "na_isometry3"]


def canon(t):
    t = t.strip()
    if t in CANON:
        return CANON[t]
    if t.startswith("Vec<"):
        return "alloc::vec::Vec<" + canon(t[4:-1]) + ">"
    if t.startswith("Option<"):
        return "core::option::Option<" + canon(t[7:-1]) + ">"
    if t.startswith("Box<"):
        return "alloc::boxed::Box<" + canon(t[4:-1]) + ">"
    if t.startswith("Removed<"):
        return "savefile::Removed<" + canon(t[8:-1]) + ">"
    if t.startswith("AbiRemoved<"):
        inner = t[11:-1]
        parts = split_top(inner)
        if len(parts) == 1:
            return "savefile::AbiRemoved<" + canon(parts[0]) + ">"
        return "savefile::AbiRemoved<" + ", ".join(canon(p) for p in parts) + ">"
    if t.startswith("ArrayVec<"):
        a, n = split_top(t[9:-1])
        return f"arrayvec::arrayvec::ArrayVec<{canon(a)}, {n}>"
    if t.startswith("[") and ";" in t:
        a, n = t[1:-1].rsplit(";", 1)
        return f"[{canon(a)}; {n.strip()}]"
    if t.startswith("(") and t.endswith(")"):
        parts = split_top(t[1:-1])
        if len(parts) == 1:
            return "(" + canon(parts[0]) + ",)"
        return "(" + ", ".join(canon(p) for p in parts) + ")"
    if t.startswith("Cell<"):
        return "core::cell::Cell<" + canon(t[5:-1]) + ">"
    if t in FOREIGN:
        return FOREIGN[t]
    if "<" in t and t.endswith(">"):
        head, args = t.split("<", 1)
        return "sfcorpus::" + head + "<" + ", ".join(canon(a) for a in split_top(args[:-1])) + ">"
    return "sfcorpus::" + t  # a corpus type (module-qualified by the caller)


def split_top(s):
    out, depth, cur = [], 0, []
    for ch in s:
        if ch in "<([":
            depth += 1
        elif ch in ">)]":
            depth -= 1
        if ch == "," and depth == 0:
            out.append("".join(cur).strip())
            cur = []
        else:
            cur.append(ch)
    if "".join(cur).strip():
        out.append("".join(cur).strip())
    return out


class Field:
    def __init__(self, name, ty, frm=0, to=None, default=None, conv=None, ignore=False, removed=None, intro_ignore=False):
        self.name, self.ty, self.frm, self.to = name, ty, frm, to
        self.intro_ignore = intro_ignore   # not every supported type implements Introspect
        self.default = default      # None | ('val', literal) | ('fn', fname)
        self.conv = conv            # None | (a, b, old_ty, fn or None)
        self.ignore = ignore
        self.removed = removed      # None | 'Removed' | 'AbiRemoved'

    def attrs(self):
        out = []
        if self.intro_ignore:
            out.append("#[savefile_introspect_ignore]")
        if self.ignore:
            out.append("#[savefile_ignore]")
        if self.frm != 0 or self.to is not None:
            rng = (str(self.frm) if self.frm else ("0" if self.to is None else "")) + ".." + ("" if self.to is None else str(self.to))
            if self.frm == 0 and self.to is not None:
                rng = ".." + str(self.to)
            out.append(f'#[savefile_versions = "{rng}"]')
        if self.conv:
            a, b, old, fn = self.conv
            spec = f"{a}..{b}:" + (f"{fn}:" if fn else "") + old
            out.append(f'#[savefile_versions_as = "{spec}"]')
        if self.default:
            if self.default[0] == "val":
                out.append(f'#[savefile_default_val = "{self.default[1]}"]')
            else:
                out.append(f'#[savefile_default_fn = "{self.default[1]}"]')
        return out

    def wire_ty(self):
        t = self.ty
        if t.startswith("Removed<"):
            return t[8:-1]
        if t.startswith("AbiRemoved<"):
            return split_top(t[11:-1])[0]
        return t


class Corpus:
    def __init__(self):
        self.src = []
        self.meta = {"types": [], "histories": [], "traits": []}

    def module(self, name, body_lines):
        self.src.append(f"pub mod {name} {{")
        self.src.append("    #![allow(warnings)]")
        self.src.append("    use savefile::prelude::*;")
        self.src.append("    use savefile_derive::Savefile;")
        self.src.append("    use arrayvec::ArrayVec;")
        self.src.append("    use std::cell::Cell;")
        for l in body_lines:
            self.src.append("    " + l)
        self.src.append("}")

    def struct(self, mod, name, fields, repr=None, family=None, version=None, cur_version=0, tuple_struct=False, generics=None,
               extra_attrs=()):
        lines = ["#[derive(Savefile)]"]
        if repr:
            lines.append(f"#[repr({repr})]")
        lines.extend(extra_attrs)
        g = f"<{', '.join(generics)}>" if generics else ""
        if tuple_struct:
            lines.append(f"pub struct {name}{g}(" + ", ".join((" ".join(f.attrs()) + " pub " + f.ty).strip() for f in fields) + ");")
        elif not fields:
            lines.append(f"pub struct {name}{g};")
        else:
            lines.append(f"pub struct {name}{g} {{")
            for f in fields:
                for a in f.attrs():
                    lines.append("    " + a)
                lines.append(f"    pub {f.name}: {f.ty},")
            lines.append("}")
        self.meta["types"].append({
            "id": f"sfcorpus::{mod}::{name}", "kind": "struct", "repr": repr, "family": family, "version": version,
            "cur_version": cur_version, "tuple": tuple_struct, "generic": bool(generics),
            "fields": [{"name": (str(i) if tuple_struct else f.name), "ty": qualify(f.ty, mod), "wire_ty": qualify(f.wire_ty(), mod),
                        "from": f.frm, "to": f.to, "ignore": f.ignore, "removed": f.removed,
                        "default": list(f.default) if f.default else None,
                        "conv": ({"from": f.conv[0], "to": f.conv[1], "old_ty": qualify(f.conv[2], mod), "fn": f.conv[3]} if f.conv else None)}
                       for i, f in enumerate(fields)],
        })
        return lines

    def enum(self, mod, name, variants, repr=None, family=None, version=None, cur_version=0):
        """variants: list of (vname, [Field], explicit_discr or None, from_version)"""
        lines = ["#[derive(Savefile)]"]
        if repr:
            # "C; u16" = two separate #[repr] attributes (same meaning as #[repr(C, u16)])
            for part in repr.split(";"):
                lines.append(f"#[repr({part.strip()})]")
            repr = ", ".join(x.strip() for x in repr.split(";"))
        lines.append(f"pub enum {name} {{")
        # an explicit discriminant may be given as (source text, value): `b'A'`, `1 << 4`, a named constant
        variants = [(vn, fields, d, frm) for vn, fields, d, frm in variants]
        dval = {vn: (d[1] if isinstance(d, tuple) else d) for vn, _, d, _ in variants}
        variants = [(vn, fields, (d[0] if isinstance(d, tuple) else d), frm) for vn, fields, d, frm in variants]
        for vn, fields, discr, frm in variants:
            if frm:
                lines.append(f'    #[savefile_versions = "{frm}.."]')
            if not fields:
                lines.append(f"    {vn}" + (f" = {discr}" if discr is not None else "") + ",")
            elif all(f.name.isdigit() for f in fields):
                lines.append(f"    {vn}(" + ", ".join(" ".join(f.attrs()) + " " + f.ty for f in fields) + ")" + (f" = {discr}" if discr is not None else "") + ",")
            else:
                lines.append(f"    {vn} {{")
                for f in fields:
                    for a in f.attrs():
                        lines.append("        " + a)
                    lines.append(f"        {f.name}: {f.ty},")
                lines.append("    }" + (f" = {discr}" if discr is not None else "") + ",")
        lines.append("}")
        self.meta["types"].append({
            "id": f"sfcorpus::{mod}::{name}", "kind": "enum", "repr": repr, "family": family, "version": version,
            "cur_version": cur_version,
            "variants": [{"name": vn, "discr": dval[vn], "from": frm,
                          "fields": [{"name": f.name, "ty": qualify(f.ty, mod), "wire_ty": qualify(f.wire_ty(), mod), "from": f.frm,
                                      "to": f.to, "ignore": f.ignore, "removed": f.removed,
                                      "default": list(f.default) if f.default else None, "conv": None} for f in fields]}
                         for vn, fields, discr, frm in variants],
        })
        return lines


LOCAL_TYPES = set()


def qualify(t, mod):
    """canonical name of a field type written inside module `mod`"""
    t = t.strip()
    head = t.split("<")[0].split("[")[0]
    c = canon(t)
    # corpus-local type names get the module path
    import re as _re
    return _re.sub(r"sfcorpus::(?!\w+::)", f"sfcorpus::{mod}::", c)


# --------------------------------------------------------------------------------------------
# families

def fam_prim(c):
    mod = "prim"
    L = []
    F = Field
    cases = [
        ("P_u32_u16_u16_C", "C", [F("a", "u32"), F("b", "u16"), F("c", "u16")]),
        ("P_u8_u32_C", "C", [F("a", "u8"), F("b", "u32")]),
        ("P_u32_u8_C", "C", [F("a", "u32"), F("b", "u8")]),
        ("P_u64_u32_u32_C", "C", [F("a", "u64"), F("b", "u32"), F("c", "u32")]),
        ("P_u32_u16_u16_Rust", None, [F("a", "u32"), F("b", "u16"), F("c", "u16")]),
        ("P_u16_u32_u16_Rust", None, [F("a", "u16"), F("b", "u32"), F("c", "u16")]),
        ("P_u8x4_C", "C", [F("a", "u8"), F("b", "u8"), F("c", "u8"), F("d", "u8")]),
        ("P_u128_u64_u64_C", "C", [F("a", "u128"), F("b", "u64"), F("c", "u64")]),
        ("P_f32_f32_C", "C", [F("x", "f32"), F("y", "f32")]),
        ("P_f64_u32_C", "C", [F("x", "f64"), F("y", "u32")]),
        ("P_i8_i8_i16_C", "C", [F("a", "i8"), F("b", "i8"), F("c", "i16")]),
        ("P_bool_u8_C", "C", [F("a", "bool"), F("b", "u8")]),
        ("P_char_u32_C", "C", [F("a", "char"), F("b", "u32")]),
        ("P_arr_C", "C", [F("a", "[u8; 4]"), F("b", "u32")]),
        ("P_arr16_C", "C", [F("a", "[u16; 3]"), F("b", "u16")]),
        ("P_string_C", "C", [F("a", "u32"), F("s", "String")]),
        ("P_vec_C", "C", [F("a", "u64"), F("v", "Vec<u32>")]),
        ("P_opt_C", "C", [F("a", "u32"), F("o", "Option<u32>")]),
        ("P_box_C", "C", [F("a", "u64"), F("b", "Box<u64>")]),
        ("P_single_C", "C", [F("a", "u64")]),
        ("P_transparent", "transparent", [F("a", "u32")]),
        ("P_usize_C", "C", [F("a", "usize"), F("b", "isize")]),
        ("P_tuplefield_C", "C", [F("a", "(u32, u32)"), F("b", "u64")]),
        ("P_tup1_C", "C", [F("a", "(u32,)")]),
        ("P_tup3_tailpad_C", "C", [F("a", "(u32, u16, u8)")]),
        ("P_tup3_dense_C", "C", [F("a", "(u16, u16, u16)")]),
        ("P_tup3_reordered_C", "C", [F("a", "(u8, u32, u8)")]),
        ("P_tup2_pad_C", "C", [F("a", "(u8, u32)")]),
        ("P_arrayvec_C", "C", [F("a", "ArrayVec<u32, 4>")]),
        ("P_ignore_C", "C", [F("a", "u32"), F("skip", "u32", ignore=True), F("b", "u32")]),
        ("P_mixed_regions_C", "C", [F("a", "u32"), F("b", "u32"), F("s", "String"), F("c", "u16"), F("d", "u16")]),
        ("P_run3_reordered", None, [F("a", "[u32; 2]"), F("b", "[u32; 2]"), F("c", "u32"), F("y", "u64")]),
        ("P_run4_reordered", None, [F("a", "u16"), F("b", "[u16; 3]"), F("c", "u16"), F("d", "[u16; 2]"), F("y", "u32"), F("s", "String")]),
        # a tuple in the middle of a run of same-aligned fields: only the first and last field of a run are asked for their Packed
        # decision at run time, the middle ones are vouched for by the macro's compile-time size walk
        ("P_run_tuple_mid_C", "C", [F("a", "u16"), F("b", "(u16, [u16; 2], u16)"), F("c", "u16")]),
        ("P_run_tuple_mid_same_C", "C", [F("a", "u16"), F("b", "(u16, u16, u16)"), F("c", "u16")]),
        ("P_run_tuple_mid_char_C", "C", [F("a", "u32"), F("b", "(u32, char, u32)"), F("c", "u32")]),
        ("P_run_tuple_mid_bool_C", "C", [F("a", "u8"), F("b", "(u8, bool, u8)"), F("c", "u8")]),
        ("P_run5_C", "C", [F("a", "u8"), F("b", "u8"), F("c", "u8"), F("d", "u8"), F("e", "u8"), F("s", "String")]),
        ("P_run3_gap_C", "C", [F("a", "u8"), F("b", "u8"), F("w", "u32"), F("c", "u8"), F("d", "u8"), F("e", "u8"), F("s", "String")]),
    ]
    for name, repr_, fields in cases:
        L += c.struct(mod, name, fields, repr=repr_, family="PRIM")
    # wrapper witnesses: one field of every library-supported foreign type whose Packed impl could forward or claim a layout
    L += c.struct(mod, "P_w_cell_C", [F("a", "u64"), F("b", "Cell<u64>", intro_ignore=True)], repr="C", family="WRAP")
    for i, fty in enumerate(FOREIGN):
        L += c.struct(mod, f"P_w_{WRAP_NAMES[i]}_C", [F("a", "u64"), F("b", fty, intro_ignore=True)], repr="C", family="WRAP")
    L += c.struct(mod, "T_u32_u32", [F("0", "u32"), F("1", "u32")], repr="C", family="PRIM", tuple_struct=True)
    L += c.struct(mod, "T_newtype", [F("0", "u64")], family="PRIM", tuple_struct=True)
    # an ignored field in the middle of a tuple struct / of an enum variant (the recorded offsets are those of the declared positions)
    L += c.struct(mod, "T_ignore_mid_C", [F("0", "u32"), F("1", "u16", ignore=True), F("2", "u64")], repr="C", family="PRIM", tuple_struct=True)
    L += c.struct(mod, "T_ignore_first_C", [F("0", "u64", ignore=True), F("1", "u16"), F("2", "u32")], repr="C", family="PRIM", tuple_struct=True)
    # a field hidden from introspection that is not the last one: the children are numbered by the fields that remain
    L += c.struct(mod, "T_intro_ignore_mid", [F("0", "u32"), F("1", "u16", intro_ignore=True), F("2", "u8")], family="PRIM", tuple_struct=True)
    L += c.struct(mod, "S_intro_ignore_mid", [F("a", "u32"), F("b", "u16", intro_ignore=True), F("c", "u8")], family="PRIM")
    L += c.struct(mod, "T_intro_ignore_first", [F("0", "u32", intro_ignore=True), F("1", "u16"), F("2", "u8")], family="PRIM", tuple_struct=True)
    # a struct whose only field has been removed is zero-sized in memory but has content in files of the older version; an array of
    # it inside a padding-free struct must not make that struct bulk-copyable at the older version
    L += c.struct(mod, "Z_removed_only", [F("a", "Removed<u32>", to=0, removed="Removed")], family="PRIM", cur_version=1)
    L += c.struct(mod, "P_zst_array_C", [F("a", "u32"), F("z", "[Z_removed_only; 2]"), F("b", "u32")], repr="C", family="PRIM", cur_version=1)
    L += c.struct(mod, "Unit", [], family="PRIM")
    # nesting
    L += c.struct(mod, "N_packed_in_packed", [F("a", "P_u32_u16_u16_C"), F("b", "u64")], repr="C", family="NEST")
    L += c.struct(mod, "N_padded_in_packed", [F("a", "P_u8_u32_C"), F("b", "u64")], repr="C", family="NEST")
    L += c.struct(mod, "N_rust_in_C", [F("a", "P_u32_u16_u16_Rust"), F("b", "u64")], repr="C", family="NEST")
    L += c.struct(mod, "N_string_in_C", [F("a", "P_string_C"), F("b", "u64")], repr="C", family="NEST")
    L += c.struct(mod, "N_vec_of_packed", [F("v", "Vec<P_u32_u16_u16_C>"), F("w", "Vec<P_u8_u32_C>"), F("e", "Vec<E_u8_unit>"),
                                          F("x", "Vec<bool>"), F("y", "[P_u8x4_C; 3]"), F("z", "Box<P_single_C>")], family="NEST")
    L += c.struct(mod, "N_enum_in_C", [F("e", "E_u8_unit"), F("x", "u8")], repr="C", family="NEST")
    L += c.struct(mod, "N_enum_explicit_in_C", [F("e", "E_u8_explicit_ne"), F("x", "u8")], repr="C", family="NEST")
    # generic wrapper instantiated
    L += c.struct(mod, "G", [F("a", "T"), F("b", "T")], repr="C", family="NEST", generics=["T"])
    L += c.struct(mod, "N_generic_inst", [F("g", "G<u32>"), F("h", "G<String>")], repr="C", family="NEST")
    # enums
    F0 = lambda *tys: [Field(str(i), t) for i, t in enumerate(tys)]
    L += c.enum(mod, "E_plain_unit", [("A", [], None, 0), ("B", [], None, 0), ("C", [], None, 0)], family="ENUM")
    L += c.enum(mod, "E_u8_unit", [("A", [], None, 0), ("B", [], None, 0), ("C", [], None, 0)], repr="u8", family="ENUM")
    L += c.enum(mod, "E_u16_unit", [("A", [], None, 0), ("B", [], None, 0)], repr="u16", family="ENUM")
    L += c.enum(mod, "E_u32_unit", [("A", [], None, 0), ("B", [], None, 0)], repr="u32", family="ENUM")
    L += c.enum(mod, "E_u8_explicit_eq", [("A", [], 0, 0), ("B", [], 1, 0), ("C", [], 2, 0)], repr="u8", family="ENUM")
    L += c.enum(mod, "E_u8_explicit_ne", [("A", [], 5, 0), ("B", [], 7, 0)], repr="u8", family="ENUM")
    L += c.enum(mod, "E_u8_fields", [("A", F0("u8"), None, 0), ("B", F0("u8"), None, 0)], repr="u8", family="ENUM")
    L += c.enum(mod, "E_u8_fields_pad", [("A", F0("u32"), None, 0), ("B", F0("u8"), None, 0)], repr="u8", family="ENUM")
    L += c.enum(mod, "E_u8C_fields", [("A", F0("u8", "u16"), None, 0), ("B", F0("u8", "u16"), None, 0)], repr="u8, C", family="ENUM")
    L += c.enum(mod, "E_C_explicit_ne", [("A", [], 2, 0), ("B", [], 5, 0)], repr="C", family="ENUM")
    L += c.enum(mod, "E_u8C_explicit_fields_ne", [("A", F0("u32"), 2, 0), ("B", F0("u32"), 5, 0)], repr="u8, C", family="ENUM")
    L += c.enum(mod, "E_C_unit", [("A", [], None, 0), ("B", [], None, 0)], repr="C", family="ENUM")
    # a unit variant beside data variants that fill the enum exactly: the unit variant's memory image has padding after the tag
    L += c.enum(mod, "E_u8_unit_beside_data", [("Stop", [], None, 0), ("Set", F0("u8"), None, 0), ("Toggle", F0("bool"), None, 0)], repr="u8", family="ENUM")
    L += c.enum(mod, "E_u8C_unit_beside_data", [("Idle", [], None, 0), ("Move", F0("u16", "u16"), None, 0)], repr="u16, C", family="ENUM")
    # per-variant layout of a plain repr(u8) enum: no padding after the tag in the first variant, one byte in the second
    L += c.enum(mod, "E_u8_mixed_pad", [("Bytes", F0("u8", "u8", "u8"), None, 0), ("Word", F0("u16"), None, 0)], repr="u8", family="ENUM")
    # the integer repr hint given in a second #[repr] attribute
    L += c.enum(mod, "E_C_u16_split_repr", [("A", F0("u32"), None, 0), ("B", [], None, 0)], repr="C; u16", family="ENUM")
    # a versioned variant that is followed by an unversioned one
    L += c.enum(mod, "E_versioned_middle", [("A", [], None, 0), ("B", F0("u32"), None, 1), ("C", F0("u16"), None, 0)], family="ENUM", cur_version=1)
    # explicit discriminants that are not integer literals (byte literal, shift expression, named constant) and differ from the index
    L.append("pub const E_NONLIT_BASE: u8 = 0x20;")
    L += c.enum(mod, "E_u8_nonliteral", [("A", [], ("b'A'", 65), 0), ("B", [], ("1 << 4", 16), 0), ("C", [], ("E_NONLIT_BASE", 32), 0)],
                repr="u8", family="ENUM")
    L += c.enum(mod, "E_i8_negative", [("A", [], ("-1", -1), 0), ("B", [], ("0", 0), 0)], repr="i8", family="ENUM")
    L += c.enum(mod, "E_plain_mixed", [("A", [], None, 0), ("B", F0("u32", "String"), None, 0),
                                       ("C", [Field("x", "u8"), Field("y", "Vec<u8>")], None, 0)], family="ENUM")
    L += c.enum(mod, "E_u16_mixed", [("A", [], None, 0), ("B", F0("u64"), None, 0)], repr="u16", family="ENUM")
    L += c.enum(mod, "E_many", [(f"V{i}", [], None, 0) for i in range(300)], family="ENUM")
    L += c.enum(mod, "E_u8_versioned_packed", [("Move", [Field("0", "u8"), Field("1", "u8", frm=1)], None, 0),
                                               ("Turn", F0("u8", "u8"), None, 0)], repr="u8", family="ENUM", cur_version=1)
    L += c.enum(mod, "E_u8_removed_packed", [("Move", [Field("0", "u8"), Field("1", "Removed<u8>", to=0, removed="Removed")], None, 0),
                                             ("Turn", F0("u8"), None, 0)], repr="u8", family="ENUM", cur_version=1)
    L += c.enum(mod, "E_versioned_fields", [("A", [Field("x", "u32"), Field("y", "u32", frm=1)], None, 0),
                                            ("B", [], None, 0), ("C", F0("u16"), None, 1)], family="ENUM", cur_version=1)
    c.module(mod, L)


def conv_fn_lines():
    return ["pub fn conv_u8_to_string(x: u8) -> String { x.to_string() }",
            "pub fn conv_u16_to_u64(x: u16) -> u64 { x as u64 * 2 }",
            "pub fn mk_default_u32() -> u32 { 77 }",
            "pub fn mk_default_string() -> String { String::from(\"dflt\") }"]


class History:
    """an evolution history: a list of field lists, one per version"""

    def __init__(self, name, base, repr_):
        self.name = name
        self.repr = repr_
        # timeline: list of dict(name, ty, from, to, default, conv, removed_kind)
        self.tl = [dict(name=n, ty=t, frm=0, to=None, default=None, conv=None, removed=None) for n, t in base]
        self.n = 0
        self.script = []

    def add(self, pos, name, ty, default):
        self.n += 1
        self.tl.insert(pos, dict(name=name, ty=ty, frm=self.n, to=None, default=default, conv=None, removed=None))
        self.script.append(["add", pos, name, ty, default])

    def remove(self, idx, kind):
        """remove the idx-th currently live field"""
        self.n += 1
        live = [f for f in self.tl if f["to"] is None and f["conv"] is None]
        f = live[idx % len(live)]
        f["to"] = self.n - 1
        f["removed"] = kind
        self.script.append(["remove", f["name"], kind])

    def retype(self, idx, new_ty, fn):
        self.n += 1
        live = [f for f in self.tl if f["to"] is None and f["conv"] is None]
        f = live[idx % len(live)]
        f["conv"] = (f["frm"], self.n - 1, f["ty"], fn)
        f["ty"] = new_ty
        f["conv_at"] = self.n
        self.script.append(["retype", f["name"], new_ty, fn])

    def definition_at(self, k):
        """the field list a programmer has in the source at version k"""
        out = []
        for f in self.tl:
            if f["frm"] > k:
                continue
            ty = f["ty"]
            conv = f["conv"]
            frm_attr = f["frm"]
            if conv and f.get("conv_at", 0) > k:
                ty, conv = conv[2], None       # type not yet changed at version k
            removed = f["removed"] if (f["to"] is not None and f["to"] < k) else None
            to = f["to"] if removed else None
            if removed == "Removed":
                ty_src = f"Removed<{ty}>"
            elif removed == "AbiRemoved":
                ty_src = f"AbiRemoved<{ty}>"
            else:
                ty_src = ty
            default = f["default"] if frm_attr > 0 else None
            fld = Field(f["name"], ty_src, frm=frm_attr, to=to, default=default, conv=None, removed=removed)
            if conv:
                # savefile_versions_as covers [conv.from, conv.to]; the new type exists from conv_at on
                fld.conv = (conv[0], conv[1], conv[2], conv[3])
                fld.frm = f["conv_at"]
            out.append(fld)
        return out

    def wire_at(self, k):
        """the documented wire layout at version k: present fields, declaration order, historical type"""
        out = []
        for f in self.tl:
            if f["frm"] > k or (f["to"] is not None and f["to"] < k):
                continue
            ty = f["ty"]
            if f["conv"] and f.get("conv_at", 0) > k:
                ty = f["conv"][2]
            out.append((f["name"], ty))
        return out


def fam_evo(c, tier, rng):
    mod = "evo"
    L = list(conv_fn_lines())
    bases = [("Pk", [("a", "u32"), ("b", "u16"), ("c", "u16")], "C"),
             ("Np", [("a", "u32"), ("s", "String"), ("t", "u64")], None)]
    edits = []
    for pos in (0, 1, 99):
        edits.append(("add", pos, "u32", None))
    edits.append(("add", 1, "u32", ("val", "42")))
    edits.append(("add", 99, "u32", ("fn", "mk_default_u32")))
    edits.append(("add", 1, "String", None))
    edits.append(("add", 0, "String", ("fn", "mk_default_string")))
    for idx in (0, 1, 2):
        edits.append(("remove", idx, "Removed"))
    edits.append(("remove", 1, "AbiRemoved"))
    edits.append(("remove", 0, "AbiRemoved"))
    edits.append(("retype", 1, "u64", "conv_u16_to_u64"))   # only valid on u16 fields
    edits.append(("retype", 0, "u64", None))                # From<u32> for u64
    maxlen = 2 if tier == "quick" else 3
    scripts = []
    for n in range(1, maxlen + 1):
        for combo in itertools.product(range(len(edits)), repeat=n):
            scripts.append(combo)
    if tier == "quick":
        # all single edits + a deterministic sample of pairs
        singles = [s for s in scripts if len(s) == 1]
        pairs = [s for s in scripts if len(s) == 2]
        r = random.Random(12345)
        r.shuffle(pairs)
        scripts = singles + pairs[:40]
    else:
        singles = [s for s in scripts if len(s) == 1]
        pairs = [s for s in scripts if len(s) == 2]
        triples = [s for s in scripts if len(s) == 3]
        rng.shuffle(triples)
        scripts = singles + pairs + triples[:150]
    hid = 0
    for bname, base, repr_ in bases:
        for script in scripts:
            h = History(f"{bname}{hid}", base, repr_)
            ok = True
            cnt = 0
            for ei in script:
                e = edits[ei]
                cnt += 1
                if e[0] == "add":
                    pos = min(e[1], len(h.tl))
                    h.add(pos, f"n{cnt}", e[2], e[3])
                elif e[0] == "remove":
                    live = [f for f in h.tl if f["to"] is None]
                    if len(live) <= 1 or not [f for f in live if f["conv"] is None]:
                        ok = False
                        break
                    h.remove(e[1], e[2])
                else:
                    live = [f for f in h.tl if f["to"] is None and f["conv"] is None]
                    if not live:
                        ok = False
                        break
                    f = live[e[1] % len(live)]
                    if e[3] == "conv_u16_to_u64" and f["ty"] != "u16":
                        ok = False
                        break
                    if e[3] is None and f["ty"] != "u32":
                        ok = False
                        break
                    h.retype(e[1], e[2], e[3])
            if not ok:
                continue
            hid += 1
            names = []
            for k in range(h.n + 1):
                tname = f"{h.name}_v{k}"
                names.append(f"sfcorpus::{mod}::{tname}")
                L += c.struct(mod, tname, h.definition_at(k), repr=h.repr, family="EVO:" + h.name, version=k, cur_version=k)
            c.meta["histories"].append({
                "name": h.name, "module": mod, "types": names, "script": h.script, "versions": h.n + 1,
                "wire": [[{"name": n, "ty": qualify(t, mod)} for n, t in h.wire_at(k)] for k in range(h.n + 1)],
            })
    # enum evolution: appended variants
    ev = [("A", [], None, 0), ("B", [Field("0", "u32")], None, 0)]
    L += c.enum(mod, "EnumEvo_v0", ev, family="EVO:EnumEvo", version=0, cur_version=0)
    ev1 = ev + [("C", [Field("0", "String")], None, 1)]
    L += c.enum(mod, "EnumEvo_v1", ev1, family="EVO:EnumEvo", version=1, cur_version=1)
    ev2 = ev1 + [("D", [], None, 2)]
    L += c.enum(mod, "EnumEvo_v2", ev2, family="EVO:EnumEvo", version=2, cur_version=2)
    c.module(mod, L)


# positive examples for rule X5 (shared state on save / load paths): the library has no such state, so the rule proves on every run
# that it still recognises the two flawed patterns and accepts the two correct ones. Never executed.
SELFTEST_STATE = '''
pub mod selftest_state {
    #![allow(warnings)]
    use std::cell::{Cell, RefCell};
    use std::collections::HashMap;
    thread_local! {
        static MEMO_A: RefCell<HashMap<u32, u64>> = RefCell::new(HashMap::new());
        static MEMO_B: RefCell<HashMap<(u32, u32), u64>> = RefCell::new(HashMap::new());
        static DEPTH_A: Cell<usize> = Cell::new(0);
        static DEPTH_B: Cell<usize> = Cell::new(0);
    }
    fn expensive(id: u32, version: u32) -> u64 { (id as u64) << version }
    /// flawed on purpose: the key omits `version`
    pub fn memo_underkeyed(id: u32, version: u32) -> u64 {
        if let Some(v) = MEMO_A.with(|m| m.borrow().get(&id).cloned()) {
            return v;
        }
        let v = expensive(id, version);
        MEMO_A.with(|m| m.borrow_mut().insert(id, v));
        v
    }
    pub fn memo_fully_keyed(id: u32, version: u32) -> u64 {
        let key = (id, version);
        if let Some(v) = MEMO_B.with(|m| m.borrow().get(&key).cloned()) {
            return v;
        }
        let v = expensive(id, version);
        MEMO_B.with(|m| m.borrow_mut().insert(key, v));
        v
    }
    /// flawed on purpose: the counter stays raised when `?` leaves
    pub fn counter_leaks(x: Result<u32, ()>) -> Result<u32, ()> {
        DEPTH_A.with(|d| d.set(d.get() + 1));
        let v = x?;
        DEPTH_A.with(|d| d.set(d.get() - 1));
        Ok(v)
    }
    struct DepthGuard {}
    impl Drop for DepthGuard {
        fn drop(&mut self) {
            DEPTH_B.with(|d| d.set(d.get() - 1));
        }
    }
    pub fn counter_guarded(x: Result<u32, ()>) -> Result<u32, ()> {
        DEPTH_B.with(|d| d.set(d.get() + 1));
        let _guard = DepthGuard {};
        let v = x?;
        Ok(v)
    }
}
'''


# a field that kept its stored type over two adjacent versions while its meaning changed (two conversions), then changed type:
# each stored version must be read through ITS conversion (rule H3)
CONV2 = '''
pub mod conv2 {
    #![allow(warnings)]
    use savefile::prelude::*;
    use savefile_derive::Savefile;
    pub fn tenths_to_units(x: u16) -> u32 { (x as u32) / 10 }
    pub fn hundredths_to_units(x: u16) -> u32 { (x as u32) / 100 }
    #[derive(Savefile)]
    pub struct Conv2 {
        #[savefile_versions = "2.."]
        #[savefile_versions_as = "0..0:tenths_to_units:u16"]
        #[savefile_versions_as = "1..1:hundredths_to_units:u16"]
        pub length: u32,
        pub tail: u8,
    }
}
'''


# positive examples for rule L6 (a key matched against an atomic outside the lock that guards the cached value). Never executed.
SELFTEST_LOCKS = '''
pub mod selftest_locks {
    #![allow(warnings)]
    use std::sync::atomic::{AtomicUsize, Ordering};
    use std::sync::RwLock;
    static KEY_HINT: AtomicUsize = AtomicUsize::new(0);
    static CACHED: RwLock<Option<(usize, u64)>> = RwLock::new(None);
    /// flawed on purpose: the key is only compared with the atomic, outside the lock
    pub fn lookup_split_key(key: usize) -> Option<u64> {
        if KEY_HINT.load(Ordering::Acquire) == key {
            if let Ok(guard) = CACHED.read() {
                if let Some((_, value)) = &*guard {
                    return Some(*value);
                }
            }
        }
        None
    }
    pub fn lookup_rechecked(key: usize) -> Option<u64> {
        if KEY_HINT.load(Ordering::Acquire) == key {
            if let Ok(guard) = CACHED.read() {
                if let Some((cached_key, value)) = &*guard {
                    if *cached_key == key {
                        return Some(*value);
                    }
                }
            }
        }
        None
    }
}
'''


def main():
    ap = argparse.ArgumentParser()
    ap.add_argument("--tier", default="quick")
    ap.add_argument("--seed", type=int, default=0)
    ap.add_argument("--out", required=True)
    a = ap.parse_args()
    rng = random.Random(a.seed)
    c = Corpus()
    fam_prim(c)
    fam_evo(c, a.tier, rng)
    abi = os.path.join(os.path.dirname(os.path.abspath(__file__)), "abi_family.rs")
    src = "#![allow(warnings)]\n// GENERATED by /verif/corpus/gen.py -- compiled under the analysis driver only, never executed\n" + "\n".join(c.src) + "\n"
    src += SELFTEST_STATE + CONV2 + SELFTEST_LOCKS
    if os.path.exists(abi):
        src += open(abi).read()
        meta_abi = os.path.join(os.path.dirname(os.path.abspath(__file__)), "abi_family.json")
        if os.path.exists(meta_abi):
            c.meta["traits"] = json.load(open(meta_abi))
    os.makedirs(os.path.join(a.out, "sfcorpus", "src"), exist_ok=True)
    with open(os.path.join(a.out, "sfcorpus", "src", "lib.rs"), "w") as f:
        f.write(src)
    c.meta["tier"] = a.tier
    c.meta["seed"] = a.seed
    with open(os.path.join(a.out, "corpus_meta.json"), "w") as f:
        json.dump(c.meta, f, indent=0)
    print(f"corpus: {len(c.meta['types'])} types, {len(c.meta['histories'])} histories")


if __name__ == "__main__":
    main()
