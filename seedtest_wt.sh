#!/bin/bash
# usage: seedtest_wt.sh <worktree> <patch> <prop>...   applies a seeded change in a scratch worktree (never /repo), runs the checks
# against it (SFV_REPO), restores the worktree
wt=$1; patch=$2; shift 2
git -C $wt checkout -q -- . && git -C $wt apply "$patch" || { echo "patch does not apply"; exit 2; }
cd /verif
for c in "$@"; do
  out=$(SFV_REPO=$wt ./check $c 2>&1)
  echo "$c: $(echo "$out" | grep -c '^VIOLATION') violation(s): $(echo "$out" | grep '^  rule' | awk '{print $2}' | sort | uniq -c | tr '\n' ' ')"
  echo "$out" | grep -A2 '^  rule' | grep -v '^--' | head -${SHOW:-4} | cut -c1-330
done
git -C $wt checkout -q -- .
