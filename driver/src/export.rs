//! THIR / impl table / ADT / layout exporter.
use crate::json::J;
use rustc_abi::{FieldsShape, Primitive, Scalar, TagEncoding, Variants};
use rustc_hir::def::DefKind;
use rustc_hir::def_id::{DefId, LocalDefId, LOCAL_CRATE};
use rustc_middle::thir::{self, BlockId, ExprId, ExprKind, Pat, PatKind, StmtKind, Thir};
use rustc_middle::ty::print::{with_crate_prefix, with_no_trimmed_paths, with_no_visible_paths, PrintTraitRefExt};
use rustc_middle::ty::{self, GenericArgsRef, Ty, TyCtxt, TypeVisitableExt};
use rustc_span::Span;
use std::cell::RefCell;
use std::collections::{BTreeMap, HashMap, HashSet};

pub struct Cx<'tcx> {
    tcx: TyCtxt<'tcx>,
    types: RefCell<(HashMap<String, usize>, Vec<String>)>,
    want_layout: RefCell<(HashSet<String>, Vec<Ty<'tcx>>)>,
}

fn defkind_name(k: DefKind) -> String {
    format!("{:?}", k)
}

impl<'tcx> Cx<'tcx> {
    fn ty_s(&self, t: Ty<'tcx>) -> String {
        self.fix_crate(with_no_visible_paths!(with_crate_prefix!(with_no_trimmed_paths!(t.to_string()))))
    }
    /// `crate::X` (printed for local items) -> `<crate name>::X`
    fn fix_crate(&self, s: String) -> String {
        if !s.contains("crate::") {
            return s;
        }
        let krate = self.tcx.crate_name(LOCAL_CRATE).to_string();
        let b = s.as_bytes();
        let mut out = String::with_capacity(s.len() + 16);
        let mut i = 0;
        while i < b.len() {
            if s[i..].starts_with("crate::") && (i == 0 || !(b[i - 1].is_ascii_alphanumeric() || b[i - 1] == b'_')) {
                out.push_str(&krate);
                out.push_str("::");
                i += 7;
            } else {
                let ch = s[i..].chars().next().unwrap();
                out.push(ch);
                i += ch.len_utf8();
            }
        }
        out
    }
    fn ty(&self, t: Ty<'tcx>) -> J {
        let s = self.ty_s(t);
        if !t.has_param() && !t.has_infer() && !t.has_escaping_bound_vars() && !t.has_aliases() {
            // remember monomorphic types so that their layout can be exported
            self.note_layout(t);
        }
        let mut tt = self.types.borrow_mut();
        if let Some(i) = tt.0.get(&s) {
            return J::Int(*i as i128);
        }
        let i = tt.1.len();
        tt.0.insert(s.clone(), i);
        tt.1.push(s);
        J::Int(i as i128)
    }
    fn note_layout(&self, t: Ty<'tcx>) {
        let interesting = match t.kind() {
            ty::Adt(..) | ty::Array(..) | ty::Tuple(..) => true,
            ty::Bool | ty::Char | ty::Int(_) | ty::Uint(_) | ty::Float(_) => true,
            _ => false,
        };
        if !interesting {
            return;
        }
        let s = self.ty_s(t);
        let mut w = self.want_layout.borrow_mut();
        if w.0.insert(s) {
            w.1.push(t);
        }
    }

    /// A path that is stable across crates and does not contain impl numbering.
    pub fn spath(&self, did: DefId) -> String {
        let tcx = self.tcx;
        let kind = tcx.def_kind(did);
        match kind {
            DefKind::Closure | DefKind::InlineConst | DefKind::AnonConst | DefKind::SyntheticCoroutineBody => {
                let key = tcx.def_key(did);
                let parent = tcx.parent(did);
                return format!(
                    "{}::{{{}#{}}}",
                    self.spath(parent),
                    defkind_name(kind).to_lowercase(),
                    key.disambiguated_data.disambiguator
                );
            }
            DefKind::AssocFn | DefKind::AssocConst { .. } | DefKind::AssocTy => {
                let parent = tcx.parent(did);
                let name = tcx.item_name(did);
                match tcx.def_kind(parent) {
                    DefKind::Impl { of_trait } => {
                        let self_ty = tcx.type_of(parent).instantiate_identity().skip_norm_wip();
                        if of_trait {
                            let tr = tcx.impl_trait_ref(parent).instantiate_identity().skip_norm_wip();
                            let trs = self.fix_crate(with_no_visible_paths!(with_crate_prefix!(with_no_trimmed_paths!(tr.print_only_trait_path().to_string()))));
                            return format!("<{} as {}>::{}", self.ty_s(self_ty), trs, name);
                        } else {
                            return format!("{}::{}", self.self_ty_path(self_ty), name);
                        }
                    }
                    DefKind::Trait => {
                        return format!("{}::{}", self.spath(parent), name);
                    }
                    _ => {}
                }
            }
            DefKind::Ctor(..) => {
                let parent = tcx.parent(did);
                return self.spath(parent);
            }
            DefKind::Fn | DefKind::Const { .. } | DefKind::Static { .. } => {
                // items nested in function bodies (derive output lives in `const _: () = {..}`)
            }
            _ => {}
        }
        let krate = tcx.crate_name(did.krate);
        format!("{}{}", krate, tcx.def_path(did).to_string_no_crate_verbose())
    }
    /// def_path_str of a local item lacks the crate prefix; add it.
    fn crate_qualify(&self, did: DefId, s: String) -> String {
        if did.is_local() {
            let krate = self.tcx.crate_name(LOCAL_CRATE);
            if !s.starts_with(&format!("{}::", krate)) {
                return format!("{}::{}", krate, s);
            }
        }
        s
    }
    fn self_ty_path(&self, t: Ty<'tcx>) -> String {
        match t.kind() {
            ty::Adt(def, _) => {
                let s = self.ty_s(t);
                self.crate_qualify(def.did(), s)
            }
            _ => self.ty_s(t),
        }
    }
    fn targs(&self, args: GenericArgsRef<'tcx>) -> J {
        J::Arr(
            args.iter()
                .filter(|a| a.as_region().is_none())
                .map(|a| {
                    if let Some(t) = a.as_type() {
                        if !t.has_param() && !t.has_infer() && !t.has_aliases() && !t.has_escaping_bound_vars() {
                            self.note_layout(t);
                        }
                    }
                    J::s(self.fix_crate(with_no_visible_paths!(with_crate_prefix!(with_no_trimmed_paths!(a.to_string())))))
                })
                .collect(),
        )
    }
    fn line(&self, sp: Span) -> (String, usize) {
        let sp = sp.source_callsite();
        let sm = self.tcx.sess.source_map();
        let loc = sm.lookup_char_pos(sp.lo());
        (format!("{}", loc.file.name.prefer_local_unconditionally()), loc.line)
    }
    fn mac(&self, sp: Span) -> Option<String> {
        if !sp.from_expansion() {
            return None;
        }
        let ed = sp.ctxt().outer_expn_data();
        match ed.kind {
            rustc_span::ExpnKind::Macro(_, sym) => Some(sym.to_string()),
            rustc_span::ExpnKind::Desugaring(d) => Some(format!("desugar:{:?}", d)),
            _ => Some("?".into()),
        }
    }
    fn eval_const(&self, did: DefId, args: GenericArgsRef<'tcx>, ty: Ty<'tcx>) -> J {
        let tcx = self.tcx;
        if args.has_param() || args.has_infer() || args.has_aliases() {
            return J::Null;
        }
        match ty.kind() {
            ty::Bool | ty::Int(_) | ty::Uint(_) | ty::Char => {}
            _ => return J::Null,
        }
        let uv = rustc_middle::mir::UnevaluatedConst::new(did, args);
        match tcx.const_eval_resolve(ty::TypingEnv::fully_monomorphized(), uv, rustc_span::DUMMY_SP) {
            Ok(v) => match v.try_to_scalar_int() {
                Some(si) => {
                    let bits = si.to_bits(si.size());
                    let v = match ty.kind() {
                        ty::Int(_) => si.to_int(si.size()),
                        _ => bits as i128,
                    };
                    J::Int(v)
                }
                None => J::Null,
            },
            Err(_) => J::Null,
        }
    }
}

struct Bx<'a, 'tcx> {
    cx: &'a Cx<'tcx>,
    thir: &'a Thir<'tcx>,
    owner: LocalDefId,
}

fn scope_s(s: rustc_middle::middle::region::Scope) -> String {
    format!("{}:{:?}", s.local_id.as_u32(), s.data)
}

impl<'a, 'tcx> Bx<'a, 'tcx> {
    fn tcx(&self) -> TyCtxt<'tcx> {
        self.cx.tcx
    }
    fn var(&self, id: thir::LocalVarId) -> J {
        let name = self.tcx().hir_name(id.0);
        J::s(format!("{}#{}", name, id.0.local_id.as_u32()))
    }
    fn node(&self, k: &'static str, e: &thir::Expr<'tcx>) -> J {
        let mut o = J::obj();
        o.set("k", J::s(k));
        o.set("ty", self.cx.ty(e.ty));
        let (_, ln) = self.cx.line(e.span);
        o.set("ln", J::Int(ln as i128));
        if let Some(m) = self.cx.mac(e.span) {
            o.set("mac", J::s(m));
        }
        o
    }
    fn opt_expr(&self, e: Option<ExprId>) -> J {
        match e {
            Some(e) => self.expr(e, None),
            None => J::Null,
        }
    }
    fn field_name(&self, lhs_ty: Ty<'tcx>, variant: rustc_abi::VariantIdx, f: rustc_abi::FieldIdx) -> String {
        match lhs_ty.kind() {
            ty::Adt(def, _) => def.variant(variant).fields[f].name.to_string(),
            _ => format!("{}", f.as_usize()),
        }
    }
    fn block(&self, b: BlockId, outer_scope: Option<String>, ty: Ty<'tcx>) -> J {
        let blk = &self.thir[b];
        let mut o = J::obj();
        o.set("k", J::s("Block"));
        o.set("ty", self.cx.ty(ty));
        let (_, ln) = self.cx.line(blk.span);
        o.set("ln", J::Int(ln as i128));
        if let Some(m) = self.cx.mac(blk.span) {
            o.set("mac", J::s(m));
        }
        if let Some(s) = outer_scope {
            o.set("sc", J::s(s));
        }
        o.set("bsc", J::s(scope_s(blk.region_scope)));
        if blk.targeted_by_break {
            o.set("labelled", J::Bool(true));
        }
        match blk.safety_mode {
            thir::BlockSafety::ExplicitUnsafe(_) => o.set("unsafe", J::Bool(true)),
            _ => {}
        }
        let mut stmts = Vec::new();
        for s in blk.stmts.iter() {
            match &self.thir[*s].kind {
                StmtKind::Expr { expr, .. } => {
                    stmts.push(J::obj().with("k", J::s("ExprS")).with("e", self.expr(*expr, None)));
                }
                StmtKind::Let { pattern, initializer, else_block, span, .. } => {
                    let (_, ln) = self.cx.line(*span);
                    let mut l = J::obj().with("k", J::s("LetS")).with("ln", J::Int(ln as i128));
                    l.set("pat", self.pat(pattern));
                    l.set("init", self.opt_expr(*initializer));
                    if let Some(eb) = else_block {
                        l.set("else", self.block(*eb, None, self.tcx().types.never));
                    }
                    stmts.push(l);
                }
            }
        }
        o.set("stmts", J::Arr(stmts));
        o.set("e", self.opt_expr(blk.expr));
        o
    }
    fn call_info(&self, o: &mut J, fty: Ty<'tcx>) {
        let tcx = self.tcx();
        if let ty::FnDef(d, ga) = fty.kind() {
            o.set("fn", J::s(self.cx.spath(*d)));
            o.set("targs", self.cx.targs(ga));
            if let Some(tr) = tcx.trait_of_assoc(*d) {
                o.set("trait", J::s(self.cx.spath(tr)));
                o.set("self_ty", J::s(self.cx.ty_s(ga.type_at(0))));
            }
            // resolve through trait selection where possible
            let kind = tcx.def_kind(*d);
            if matches!(kind, DefKind::Fn | DefKind::AssocFn) && !ga.has_infer() {
                let env = ty::TypingEnv::post_analysis(tcx, self.owner.to_def_id());
                let ga2 = tcx.erase_and_anonymize_regions(*ga);
                if let Ok(Some(inst)) = std::panic::catch_unwind(std::panic::AssertUnwindSafe(|| {
                    ty::Instance::try_resolve(tcx, env, *d, ga2).ok().flatten()
                })) {
                    if let ty::InstanceKind::Item(rd) = inst.def {
                        if rd != *d || tcx.trait_of_assoc(*d).is_none() {
                            let mut r = J::obj();
                            r.set("fn", J::s(self.cx.spath(rd)));
                            r.set("targs", self.cx.targs(inst.args));
                            o.set("res", r);
                        }
                    }
                }
            }
        }
    }
    fn expr(&self, id: ExprId, scope: Option<String>) -> J {
        let e = &self.thir[id];
        match &e.kind {
            ExprKind::Scope { region_scope, value, .. } => self.expr(*value, Some(scope_s(*region_scope))),
            ExprKind::Use { source }
            | ExprKind::NeverToAny { source }
            | ExprKind::PlaceTypeAscription { source, .. }
            | ExprKind::ValueTypeAscription { source, .. } => self.expr(*source, scope),
            ExprKind::If { cond, then, else_opt, .. } => self
                .node("If", e)
                .with("c", self.expr(*cond, None))
                .with("t", self.expr(*then, None))
                .with("f", self.opt_expr(*else_opt)),
            ExprKind::Call { ty, fun, args, from_hir_call, .. } => {
                let mut o = self.node("Call", e);
                self.call_info(&mut o, *ty);
                if !matches!(ty.kind(), ty::FnDef(..)) {
                    o.set("fun", self.expr(*fun, None));
                }
                if !*from_hir_call {
                    o.set("op", J::Bool(true));
                }
                o.set("args", J::Arr(args.iter().map(|a| self.expr(*a, None)).collect()));
                o
            }
            ExprKind::Deref { arg } => self.node("Deref", e).with("e", self.expr(*arg, None)),
            ExprKind::Binary { op, lhs, rhs } => self
                .node("Bin", e)
                .with("op", J::s(format!("{:?}", op)))
                .with("l", self.expr(*lhs, None))
                .with("r", self.expr(*rhs, None)),
            ExprKind::LogicalOp { op, lhs, rhs } => self
                .node("Logic", e)
                .with("op", J::s(format!("{:?}", op)))
                .with("l", self.expr(*lhs, None))
                .with("r", self.expr(*rhs, None)),
            ExprKind::Unary { op, arg } => {
                self.node("Un", e).with("op", J::s(format!("{:?}", op))).with("e", self.expr(*arg, None))
            }
            ExprKind::Cast { source } => self.node("Cast", e).with("e", self.expr(*source, None)),
            ExprKind::PointerCoercion { cast, source, .. } => {
                self.node("Coerce", e).with("how", J::s(format!("{:?}", cast))).with("e", self.expr(*source, None))
            }
            ExprKind::Loop { body } => {
                let mut o = self.node("Loop", e);
                if let Some(s) = scope {
                    o.set("sc", J::s(s));
                }
                o.with("body", self.expr(*body, None))
            }
            ExprKind::Let { expr, pat } => self.node("Let", e).with("pat", self.pat(pat)).with("e", self.expr(*expr, None)),
            ExprKind::Match { scrutinee, arms, match_source } => {
                let mut o = self.node("Match", e);
                o.set("src", J::s(format!("{:?}", match_source).split('(').next().unwrap_or("").to_string()));
                o.set("e", self.expr(*scrutinee, None));
                let mut av = Vec::new();
                for a in arms.iter() {
                    let arm = &self.thir[*a];
                    let mut ao = J::obj();
                    ao.set("pat", self.pat(&arm.pattern));
                    ao.set("guard", self.opt_expr(arm.guard));
                    ao.set("body", self.expr(arm.body, None));
                    av.push(ao);
                }
                o.set("arms", J::Arr(av));
                o
            }
            ExprKind::Block { block } => self.block(*block, scope, e.ty),
            ExprKind::Assign { lhs, rhs } => {
                self.node("Assign", e).with("l", self.expr(*lhs, None)).with("r", self.expr(*rhs, None))
            }
            ExprKind::AssignOp { op, lhs, rhs } => self
                .node("AssignOp", e)
                .with("op", J::s(format!("{:?}", op)))
                .with("l", self.expr(*lhs, None))
                .with("r", self.expr(*rhs, None)),
            ExprKind::Field { lhs, variant_index, name } => {
                let lty = self.thir[*lhs].ty;
                self.node("Field", e)
                    .with("f", J::s(self.field_name(lty, *variant_index, *name)))
                    .with("e", self.expr(*lhs, None))
            }
            ExprKind::Index { lhs, index } => {
                self.node("Index", e).with("e", self.expr(*lhs, None)).with("i", self.expr(*index, None))
            }
            ExprKind::VarRef { id } => self.node("Var", e).with("v", self.var(*id)),
            ExprKind::UpvarRef { var_hir_id, .. } => {
                self.node("Var", e).with("v", self.var(*var_hir_id)).with("up", J::Bool(true))
            }
            ExprKind::Borrow { borrow_kind, arg } => {
                let m = matches!(borrow_kind, rustc_middle::mir::BorrowKind::Mut { .. });
                self.node("Ref", e).with("m", J::Bool(m)).with("e", self.expr(*arg, None))
            }
            ExprKind::RawBorrow { mutability, arg } => self
                .node("RawRef", e)
                .with("m", J::Bool(mutability.is_mut()))
                .with("e", self.expr(*arg, None)),
            ExprKind::Break { label, value } => {
                self.node("Break", e).with("label", J::s(scope_s(*label))).with("e", self.opt_expr(*value))
            }
            ExprKind::Continue { label } => self.node("Continue", e).with("label", J::s(scope_s(*label))),
            ExprKind::Return { value } => self.node("Return", e).with("e", self.opt_expr(*value)),
            ExprKind::Become { value } => self.node("Return", e).with("e", self.expr(*value, None)),
            ExprKind::ConstBlock { did, args } => self
                .node("ConstBlock", e)
                .with("id", J::s(self.cx.spath(*did)))
                .with("targs", self.cx.targs(args))
                .with("val", self.cx.eval_const(*did, args, e.ty)),
            ExprKind::Repeat { value, count } => {
                let n = count.try_to_target_usize(self.tcx());
                self.node("Repeat", e)
                    .with("e", self.expr(*value, None))
                    .with("n", n.map(|x| J::Int(x as i128)).unwrap_or(J::s(with_no_trimmed_paths!(count.to_string()))))
            }
            ExprKind::Array { fields } => {
                self.node("Array", e).with("es", J::Arr(fields.iter().map(|f| self.expr(*f, None)).collect()))
            }
            ExprKind::Tuple { fields } => {
                self.node("Tuple", e).with("es", J::Arr(fields.iter().map(|f| self.expr(*f, None)).collect()))
            }
            ExprKind::Adt(box adt) => {
                let mut o = self.node("Adt", e);
                o.set("adt", J::s(self.cx.spath(adt.adt_def.did())));
                let v = adt.adt_def.variant(adt.variant_index);
                o.set("variant", J::s(v.name.to_string()));
                o.set("vidx", J::Int(adt.variant_index.as_usize() as i128));
                let mut fs = Vec::new();
                for f in adt.fields.iter() {
                    fs.push(
                        J::obj()
                            .with("f", J::s(v.fields[f.name].name.to_string()))
                            .with("e", self.expr(f.expr, None)),
                    );
                }
                o.set("fields", J::Arr(fs));
                match &adt.base {
                    thir::AdtExprBase::Base(fru) => o.set("base", self.expr(fru.base, None)),
                    thir::AdtExprBase::DefaultFields(_) => o.set("base", J::s("default-fields")),
                    thir::AdtExprBase::None => {}
                }
                o
            }
            ExprKind::Closure(box c) => self
                .node("Closure", e)
                .with("id", J::s(self.cx.spath(c.closure_id.to_def_id())))
                .with("upvars", J::Arr(c.upvars.iter().map(|u| self.expr(*u, None)).collect())),
            ExprKind::Literal { lit, neg } => {
                use rustc_ast::LitKind;
                let mut o = self.node("Lit", e);
                match &lit.node {
                    LitKind::Str(s, _) => o.set("str", J::s(s.to_string())),
                    LitKind::ByteStr(b, _) | LitKind::CStr(b, _) => {
                        o.set("bytes", J::Arr(b.as_byte_str().iter().map(|x| J::Int(*x as i128)).collect()))
                    }
                    LitKind::Byte(b) => o.set("int", J::Int(*b as i128)),
                    LitKind::Char(c) => o.set("int", J::Int(*c as u32 as i128)),
                    LitKind::Int(v, _) => {
                        let v = v.get() as i128;
                        o.set("int", J::Int(if *neg { -v } else { v }))
                    }
                    LitKind::Float(s, _) => o.set("float", J::s(format!("{}{}", if *neg { "-" } else { "" }, s))),
                    LitKind::Bool(b) => o.set("int", J::Int(*b as i128)),
                    LitKind::Err(_) => {}
                }
                o
            }
            ExprKind::NonHirLiteral { lit, .. } => {
                self.node("Lit", e).with("int", J::Int(lit.to_bits(lit.size()) as i128))
            }
            ExprKind::ZstLiteral { .. } => {
                let mut o = self.node("Zst", e);
                if let ty::FnDef(..) = e.ty.kind() {
                    self.call_info(&mut o, e.ty);
                }
                o
            }
            ExprKind::NamedConst { def_id, args, .. } => self
                .node("Const", e)
                .with("id", J::s(self.cx.spath(*def_id)))
                .with("targs", self.cx.targs(args))
                .with("val", self.cx.eval_const(*def_id, args, e.ty)),
            ExprKind::ConstParam { param, .. } => self.node("ConstParam", e).with("name", J::s(param.name.to_string())),
            ExprKind::StaticRef { def_id, .. } => self.node("Static", e).with("id", J::s(self.cx.spath(*def_id))),
            ExprKind::Yield { value } => self.node("Yield", e).with("e", self.expr(*value, None)),
            ExprKind::ThreadLocalRef(d) => self.node("Static", e).with("id", J::s(self.cx.spath(*d))).with("tls", J::Bool(true)),
            other => {
                let name = format!("{:?}", other);
                let name = name.split(|c: char| !c.is_alphanumeric()).next().unwrap_or("?").to_string();
                self.node("Other", e).with("what", J::s(name))
            }
        }
    }
    fn pat(&self, p: &Pat<'tcx>) -> J {
        let mut o = J::obj();
        match &p.kind {
            PatKind::Wild | PatKind::Missing => o.set("k", J::s("Wild")),
            PatKind::Binding { name, mode, var, subpattern, .. } => {
                o.set("k", J::s("Bind"));
                o.set("v", J::s(format!("{}#{}", name, var.0.local_id.as_u32())));
                o.set("mode", J::s(format!("{:?}", mode)));
                if let Some(sp) = subpattern {
                    o.set("sub", self.pat(sp));
                }
            }
            PatKind::Variant { adt_def, variant_index, subpatterns, .. } => {
                o.set("k", J::s("Variant"));
                o.set("adt", J::s(self.cx.spath(adt_def.did())));
                let v = adt_def.variant(*variant_index);
                o.set("variant", J::s(v.name.to_string()));
                o.set("vidx", J::Int(variant_index.as_usize() as i128));
                o.set(
                    "subs",
                    J::Arr(
                        subpatterns
                            .iter()
                            .map(|fp| {
                                J::obj().with("f", J::s(v.fields[fp.field].name.to_string())).with("p", self.pat(&fp.pattern))
                            })
                            .collect(),
                    ),
                );
            }
            PatKind::Leaf { subpatterns } => {
                o.set("k", J::s("Leaf"));
                let names: Option<Vec<String>> = match p.ty.kind() {
                    ty::Adt(def, _) if def.is_struct() || def.is_union() => {
                        o.set("adt", J::s(self.cx.spath(def.did())));
                        Some(def.non_enum_variant().fields.iter().map(|f| f.name.to_string()).collect())
                    }
                    ty::Adt(def, _) if def.variants().len() == 1 => {
                        o.set("adt", J::s(self.cx.spath(def.did())));
                        let v = def.variants().iter().next().unwrap();
                        o.set("variant", J::s(v.name.to_string()));
                        Some(v.fields.iter().map(|f| f.name.to_string()).collect())
                    }
                    _ => None,
                };
                o.set(
                    "subs",
                    J::Arr(
                        subpatterns
                            .iter()
                            .map(|fp| {
                                let n = match &names {
                                    Some(n) => n[fp.field.as_usize()].clone(),
                                    None => format!("{}", fp.field.as_usize()),
                                };
                                J::obj().with("f", J::s(n)).with("p", self.pat(&fp.pattern))
                            })
                            .collect(),
                    ),
                );
            }
            PatKind::Deref { subpattern, .. } | PatKind::DerefPattern { subpattern, .. } => {
                return self.pat(subpattern);
            }
            PatKind::Constant { value } => {
                o.set("k", J::s("Const"));
                if let Some(si) = value.try_to_leaf() {
                    let v = match value.ty.kind() {
                        ty::Int(_) => si.to_int(si.size()),
                        _ => si.to_bits(si.size()) as i128,
                    };
                    o.set("int", J::Int(v));
                } else if let Some(b) = value.try_to_raw_bytes(self.tcx()) {
                    o.set("str", J::s(String::from_utf8_lossy(b).to_string()));
                }
            }
            PatKind::Range(r) => {
                o.set("k", J::s("Range"));
                let bound = |b: &thir::PatRangeBoundary<'tcx>| match b {
                    thir::PatRangeBoundary::Finite(v) => match v.try_to_leaf() {
                        Some(si) => J::Int(match r.ty.kind() {
                            ty::Int(_) => si.to_int(si.size()),
                            _ => si.to_bits(si.size()) as i128,
                        }),
                        None => J::Null,
                    },
                    _ => J::Null,
                };
                o.set("lo", bound(&r.lo));
                o.set("hi", bound(&r.hi));
                o.set("incl", J::Bool(matches!(r.end, rustc_hir::RangeEnd::Included)));
            }
            PatKind::Or { pats } => {
                o.set("k", J::s("Or"));
                o.set("pats", J::Arr(pats.iter().map(|p| self.pat(p)).collect()));
            }
            PatKind::Slice { prefix, slice, suffix } | PatKind::Array { prefix, slice, suffix } => {
                o.set("k", J::s("Slice"));
                o.set("prefix", J::Arr(prefix.iter().map(|p| self.pat(p)).collect()));
                o.set("slice", slice.as_ref().map(|p| self.pat(p)).unwrap_or(J::Null));
                o.set("suffix", J::Arr(suffix.iter().map(|p| self.pat(p)).collect()));
            }
            PatKind::Guard { subpattern, condition } => {
                o.set("k", J::s("Guard"));
                o.set("sub", self.pat(subpattern));
                o.set("cond", self.expr(*condition, None));
            }
            PatKind::Never | PatKind::Error(_) => o.set("k", J::s("Never")),
        }
        o.set("ty", self.cx.ty(p.ty));
        o
    }
}

fn generics_names<'tcx>(tcx: TyCtxt<'tcx>, did: DefId) -> J {
    let g = tcx.generics_of(did);
    let mut v = Vec::new();
    let mut stack = vec![g];
    let mut cur = g;
    while let Some(p) = cur.parent {
        cur = tcx.generics_of(p);
        stack.push(cur);
    }
    for g in stack.iter().rev() {
        for p in g.own_params.iter() {
            match p.kind {
                ty::GenericParamDefKind::Lifetime => {}
                _ => v.push(J::s(p.name.to_string())),
            }
        }
    }
    J::Arr(v)
}

fn export_fn<'tcx>(cx: &Cx<'tcx>, def: LocalDefId) -> Option<J> {
    let tcx = cx.tcx;
    let did = def.to_def_id();
    let kind = tcx.def_kind(did);
    let (thir, root) = match tcx.thir_body(def) {
        Ok(x) => x,
        Err(_) => return None,
    };
    let thir = thir.borrow();
    let bx = Bx { cx, thir: &thir, owner: def };
    let mut o = J::obj();
    o.set("id", J::s(cx.spath(did)));
    o.set("kind", J::s(defkind_name(kind)));
    let (file, line) = cx.line(tcx.def_span(did));
    o.set("file", J::s(file));
    o.set("line", J::Int(line as i128));
    if let Some(m) = cx.mac(tcx.def_span(did)) {
        o.set("mac", J::s(m));
    }
    o.set("generics", generics_names(tcx, did));
    if matches!(kind, DefKind::Fn | DefKind::AssocFn) {
        let sig = tcx.fn_sig(did).instantiate_identity().skip_norm_wip().skip_binder();
        o.set("unsafe", J::Bool(sig.safety().is_unsafe()));
        o.set("abi", J::s(format!("{:?}", sig.abi())));
        o.set("pub", J::Bool(tcx.visibility(did).is_public()));
        o.set("name", J::s(tcx.item_name(did).to_string()));
    }
    if matches!(kind, DefKind::AssocFn | DefKind::AssocConst { .. }) {
        let parent = tcx.parent(did);
        if let DefKind::Impl { of_trait } = tcx.def_kind(parent) {
            let self_ty = tcx.type_of(parent).instantiate_identity().skip_norm_wip();
            let mut im = J::obj();
            im.set("self_ty", J::s(cx.ty_s(self_ty)));
            if of_trait {
                let tr = tcx.impl_trait_ref(parent).instantiate_identity().skip_norm_wip();
                im.set("trait", J::s(cx.spath(tr.def_id)));
                im.set("trait_args", cx.targs(tr.args));
            }
            im.set("generics", generics_names(tcx, parent));
            o.set("impl", im);
        } else if let DefKind::Trait = tcx.def_kind(parent) {
            o.set("trait_default", J::s(cx.spath(parent)));
        }
    }
    if matches!(kind, DefKind::Closure | DefKind::InlineConst | DefKind::AnonConst) {
        o.set("parent", J::s(cx.spath(tcx.typeck_root_def_id(did))));
    }
    let mut params = Vec::new();
    for p in thir.params.iter() {
        let mut po = J::obj();
        po.set("ty", cx.ty(p.ty));
        match &p.pat {
            Some(pat) => po.set("pat", bx.pat(pat)),
            None => po.set("pat", J::Null),
        }
        if p.self_kind.is_some() {
            po.set("self", J::Bool(true));
        }
        params.push(po);
    }
    o.set("params", J::Arr(params));
    match &thir.body_type {
        thir::BodyTy::Fn(sig) => o.set("ret", cx.ty(sig.output())),
        thir::BodyTy::Const(t) | thir::BodyTy::GlobalAsm(t) => o.set("ret", cx.ty(*t)),
    }
    o.set("body", bx.expr(root, None));
    Some(o)
}

fn prim_name(p: Primitive) -> String {
    match p {
        Primitive::Int(i, signed) => format!("{}{}", if signed { "i" } else { "u" }, i.size().bits()),
        Primitive::Float(f) => format!("f{}", f.size().bits()),
        Primitive::Pointer(_) => "ptr".into(),
    }
}

fn scalar_j(s: Scalar) -> J {
    match s {
        Scalar::Initialized { value, valid_range } => J::obj()
            .with("prim", J::s(prim_name(value)))
            .with("lo", J::Int(valid_range.start as i128))
            .with("hi", J::Int(valid_range.end as i128)),
        Scalar::Union { value } => J::obj().with("prim", J::s(prim_name(value))).with("union", J::Bool(true)),
    }
}

fn export_layout<'tcx>(cx: &Cx<'tcx>, t: Ty<'tcx>) -> J {
    let tcx = cx.tcx;
    let env = ty::TypingEnv::fully_monomorphized();
    let mut o = J::obj();
    o.set("ty", J::s(cx.ty_s(t)));
    let lay = match std::panic::catch_unwind(std::panic::AssertUnwindSafe(|| tcx.layout_of(env.as_query_input(t)))) {
        Ok(Ok(l)) => l,
        _ => {
            o.set("error", J::Bool(true));
            return o;
        }
    };
    o.set("size", J::Int(lay.size.bytes() as i128));
    o.set("align", J::Int(lay.align.abi.bytes() as i128));
    let kind = match t.kind() {
        ty::Bool => "bool",
        ty::Char => "char",
        ty::Int(_) => "int",
        ty::Uint(_) => "uint",
        ty::Float(_) => "float",
        ty::Adt(d, _) if d.is_struct() => "struct",
        ty::Adt(d, _) if d.is_enum() => "enum",
        ty::Adt(d, _) if d.is_union() => "union",
        ty::Array(..) => "array",
        ty::Tuple(..) => "tuple",
        ty::RawPtr(..) => "rawptr",
        ty::Ref(..) => "ref",
        _ => "other",
    };
    o.set("kind", J::s(kind));
    let fields_of = |layout: &rustc_abi::LayoutData<rustc_abi::FieldIdx, rustc_abi::VariantIdx>,
                     names: Vec<(String, Ty<'tcx>)>|
     -> J {
        let mut v = Vec::new();
        if let FieldsShape::Arbitrary { offsets, .. } = &layout.fields {
            for (i, (n, fty)) in names.iter().enumerate() {
                let off = offsets[rustc_abi::FieldIdx::from_usize(i)].bytes();
                let fl = tcx.layout_of(env.as_query_input(*fty)).ok();
                cx.note_layout(*fty);
                v.push(
                    J::obj()
                        .with("name", J::s(n.clone()))
                        .with("ty", J::s(cx.ty_s(*fty)))
                        .with("offset", J::Int(off as i128))
                        .with("size", fl.map(|l| J::Int(l.size.bytes() as i128)).unwrap_or(J::Null)),
                );
            }
        }
        J::Arr(v)
    };
    match t.kind() {
        ty::Array(et, n) => {
            cx.note_layout(*et);
            o.set("elem", J::s(cx.ty_s(*et)));
            o.set("count", n.try_to_target_usize(tcx).map(|x| J::Int(x as i128)).unwrap_or(J::Null));
        }
        ty::Tuple(ts) => {
            let names: Vec<(String, Ty<'tcx>)> = ts.iter().enumerate().map(|(i, t)| (format!("{}", i), t)).collect();
            o.set("fields", fields_of(&lay.layout.0, names));
        }
        ty::Adt(def, args) => {
            o.set("adt", J::s(cx.spath(def.did())));
            o.set("repr", J::s(format!("{:?}", def.repr())));
            let r = def.repr();
            o.set("repr_c", J::Bool(r.c()));
            o.set("repr_transparent", J::Bool(r.transparent()));
            o.set("repr_packed", J::Bool(r.packed()));
            o.set("repr_int", r.int.map(|i| J::s(format!("{:?}", i))).unwrap_or(J::Null));
            if def.is_struct() {
                let names: Vec<(String, Ty<'tcx>)> = def
                    .non_enum_variant()
                    .fields
                    .iter()
                    .map(|f| (f.name.to_string(), tcx.normalize_erasing_regions(env, ty::Unnormalized::new_wip(f.ty(tcx, args)))))
                    .collect();
                o.set("fields", fields_of(&lay.layout.0, names));
            } else if def.is_enum() {
                let mut vs = Vec::new();
                let discrs: BTreeMap<usize, i128> = def
                    .discriminants(tcx)
                    .map(|(vi, d)| {
                        let v = match d.ty.kind() {
                            ty::Int(it) => {
                                let bits = it.bit_width().unwrap_or(64) as u32;
                                let sh = 128 - bits;
                                ((d.val << sh) as i128) >> sh
                            }
                            _ => d.val as i128,
                        };
                        (vi.as_usize(), v)
                    })
                    .collect();
                match &lay.variants {
                    Variants::Multiple { tag, tag_encoding, tag_field, variants } => {
                        o.set("tag", scalar_j(*tag));
                        o.set("tag_direct", J::Bool(matches!(tag_encoding, TagEncoding::Direct)));
                        if let FieldsShape::Arbitrary { offsets, .. } = &lay.fields {
                            o.set("tag_offset", J::Int(offsets[*tag_field].bytes() as i128));
                        }
                        for (vi, vl) in variants.iter_enumerated() {
                            let vd = def.variant(vi);
                            let names: Vec<(String, Ty<'tcx>)> = vd
                                .fields
                                .iter()
                                .map(|f| (f.name.to_string(), tcx.normalize_erasing_regions(env, ty::Unnormalized::new_wip(f.ty(tcx, args)))))
                                .collect();
                            vs.push(
                                J::obj()
                                    .with("name", J::s(vd.name.to_string()))
                                    .with("discr", J::Int(*discrs.get(&vi.as_usize()).unwrap_or(&-1)))
                                    .with("size", J::Int(vl.size.bytes() as i128))
                                    .with("fields", fields_of(vl, names)),
                            );
                        }
                    }
                    Variants::Single { index } => {
                        o.set("single_variant", J::Int(index.as_usize() as i128));
                        for (vi, vd) in def.variants().iter_enumerated() {
                            let names: Vec<(String, Ty<'tcx>)> = vd
                                .fields
                                .iter()
                                .map(|f| (f.name.to_string(), tcx.normalize_erasing_regions(env, ty::Unnormalized::new_wip(f.ty(tcx, args)))))
                                .collect();
                            let mut vo = J::obj()
                                .with("name", J::s(vd.name.to_string()))
                                .with("discr", J::Int(*discrs.get(&vi.as_usize()).unwrap_or(&-1)));
                            if vi == *index {
                                vo.set("fields", fields_of(&lay.layout.0, names));
                            }
                            vs.push(vo);
                        }
                    }
                    Variants::Empty => {}
                }
                o.set("variants", J::Arr(vs));
            }
        }
        _ => {}
    }
    if let Some(n) = &lay.largest_niche {
        o.set("niche", J::obj().with("prim", J::s(prim_name(n.value))).with("lo", J::Int(n.valid_range.start as i128)).with("hi", J::Int(n.valid_range.end as i128)).with("offset", J::Int(n.offset.bytes() as i128)));
    }
    o
}

fn export_adt<'tcx>(cx: &Cx<'tcx>, did: DefId) -> J {
    let tcx = cx.tcx;
    let def = tcx.adt_def(did);
    let mut o = J::obj();
    o.set("id", J::s(cx.spath(did)));
    o.set("kind", J::s(if def.is_struct() { "struct" } else if def.is_enum() { "enum" } else { "union" }));
    o.set("generics", generics_names(tcx, did));
    let r = def.repr();
    o.set("repr_c", J::Bool(r.c()));
    o.set("repr_transparent", J::Bool(r.transparent()));
    o.set("repr_int", r.int.map(|i| J::s(format!("{:?}", i))).unwrap_or(J::Null));
    let (file, line) = cx.line(tcx.def_span(did));
    o.set("file", J::s(file));
    o.set("line", J::Int(line as i128));
    let mut vs = Vec::new();
    for v in def.variants().iter() {
        let mut fs = Vec::new();
        for f in v.fields.iter() {
            let fty = tcx.type_of(f.did).instantiate_identity().skip_norm_wip();
            fs.push(
                J::obj()
                    .with("name", J::s(f.name.to_string()))
                    .with("ty", J::s(cx.ty_s(fty)))
                    .with("pub", J::Bool(f.vis.is_public())),
            );
        }
        let mut vo = J::obj().with("name", J::s(v.name.to_string())).with("fields", J::Arr(fs));
        if let ty::VariantDiscr::Explicit(_) = v.discr {
            vo.set("explicit_discr", J::Bool(true));
        }
        vs.push(vo);
    }
    if def.is_enum() {
        let ds: Vec<J> = def.discriminants(tcx).map(|(_, d)| J::Int(d.val as i128)).collect();
        o.set("discrs", J::Arr(ds));
    }
    o.set("variants", J::Arr(vs));
    o
}

pub fn export_crate<'tcx>(tcx: TyCtxt<'tcx>, out_dir: &str) {
    let krate = tcx.crate_name(LOCAL_CRATE).to_string();
    let cx = Cx {
        tcx,
        types: RefCell::new((HashMap::new(), Vec::new())),
        want_layout: RefCell::new((HashSet::new(), Vec::new())),
    };
    let mut fns = Vec::new();
    let mut failed = 0;
    let mut seen: HashMap<String, usize> = HashMap::new();
    for def in tcx.hir_body_owners() {
        match export_fn(&cx, def) {
            Some(mut j) => {
                // two versions of one dependency (bit-vec 0.6 / 0.8) print identically: number them
                if let J::Obj(o) = &mut j {
                    if let Some((_, J::Str(id))) = o.iter_mut().find(|(k, _)| *k == "id") {
                        let n = seen.entry(id.clone()).or_insert(0);
                        *n += 1;
                        if *n > 1 {
                            *id = format!("{}~{}", id, n);
                        }
                    }
                }
                fns.push(j)
            }
            None => failed += 1,
        }
    }
    // ADTs, statics, impls
    let mut adts = Vec::new();
    let mut statics = Vec::new();
    let mut impls = Vec::new();
    let mut traits = Vec::new();
    for id in tcx.hir_crate_items(()).definitions() {
        let did = id.to_def_id();
        match tcx.def_kind(did) {
            DefKind::Struct | DefKind::Enum | DefKind::Union => {
                adts.push(export_adt(&cx, did));
                let g = tcx.generics_of(did);
                if g.count() == 0 || g.own_params.iter().all(|p| matches!(p.kind, ty::GenericParamDefKind::Lifetime)) && g.parent.is_none() {
                    let t = tcx.type_of(did).instantiate_identity().skip_norm_wip();
                    if !t.has_param() {
                        let t = tcx.erase_and_anonymize_regions(t);
                        cx.note_layout(t);
                    }
                }
            }
            DefKind::Static { mutability, .. } => {
                let t = tcx.type_of(did).instantiate_identity().skip_norm_wip();
                let (file, line) = cx.line(tcx.def_span(did));
                statics.push(
                    J::obj()
                        .with("id", J::s(cx.spath(did)))
                        .with("ty", J::s(cx.ty_s(t)))
                        .with("mut", J::Bool(mutability.is_mut()))
                        .with("file", J::s(file))
                        .with("line", J::Int(line as i128)),
                );
            }
            DefKind::Impl { of_trait } => {
                let self_ty = tcx.type_of(did).instantiate_identity().skip_norm_wip();
                let mut im = J::obj();
                im.set("self_ty", J::s(cx.ty_s(self_ty)));
                if let ty::Adt(d, _) = self_ty.kind() {
                    im.set("self_adt", J::s(cx.spath(d.did())));
                }
                if of_trait {
                    let tr = tcx.impl_trait_ref(did).instantiate_identity().skip_norm_wip();
                    im.set("trait", J::s(cx.spath(tr.def_id)));
                    im.set("trait_args", cx.targs(tr.args));
                    im.set("unsafe", J::Bool(tcx.impl_trait_header(did).safety.is_unsafe()));
                    im.set("negative", J::Bool(matches!(tcx.impl_polarity(did), ty::ImplPolarity::Negative)));
                }
                im.set("generics", generics_names(tcx, did));
                let preds = tcx.predicates_of(did).instantiate_identity(tcx);
                let ps: Vec<J> = preds
                    .predicates
                    .iter()
                    .map(|p| J::s(cx.fix_crate(with_no_visible_paths!(with_crate_prefix!(with_no_trimmed_paths!(p.skip_norm_wip().to_string()))))))
                    .collect();
                im.set("where", J::Arr(ps));
                let (file, line) = cx.line(tcx.def_span(did));
                im.set("file", J::s(file));
                im.set("line", J::Int(line as i128));
                if let Some(m) = cx.mac(tcx.def_span(did)) {
                    im.set("mac", J::s(m));
                }
                let mut items = Vec::new();
                for it in tcx.associated_items(did).in_definition_order() {
                    items.push(
                        J::obj()
                            .with("name", J::s(it.name().to_string()))
                            .with("kind", J::s(format!("{:?}", it.tag())))
                            .with("id", J::s(cx.spath(it.def_id))),
                    );
                }
                im.set("items", J::Arr(items));
                impls.push(im);
            }
            DefKind::Trait => {
                let mut tr = J::obj();
                tr.set("id", J::s(cx.spath(did)));
                tr.set("unsafe", J::Bool(tcx.trait_def(did).safety.is_unsafe()));
                let mut items = Vec::new();
                for it in tcx.associated_items(did).in_definition_order() {
                    items.push(
                        J::obj()
                            .with("name", J::s(it.name().to_string()))
                            .with("kind", J::s(format!("{:?}", it.tag())))
                            .with("has_default", J::Bool(it.defaultness(tcx).has_value())),
                    );
                }
                tr.set("items", J::Arr(items));
                traits.push(tr);
            }
            _ => {}
        }
    }
    // layouts (worklist: exporting one may request more)
    let mut layouts = Vec::new();
    let mut i = 0;
    loop {
        let t = {
            let w = cx.want_layout.borrow();
            if i >= w.1.len() {
                break;
            }
            w.1[i]
        };
        i += 1;
        if i > 20000 {
            break;
        }
        layouts.push(export_layout(&cx, t));
    }
    let mut root = J::obj();
    root.set("crate", J::s(krate.clone()));
    root.set("thir_failed", J::Int(failed));
    root.set("types", J::Arr(cx.types.borrow().1.iter().map(|s| J::s(s.clone())).collect()));
    root.set("fns", J::Arr(fns));
    root.set("adts", J::Arr(adts));
    root.set("statics", J::Arr(statics));
    root.set("impls", J::Arr(impls));
    root.set("traits", J::Arr(traits));
    root.set("layouts", J::Arr(layouts));
    let mut s = String::new();
    root.write(&mut s);
    let suffix = std::env::var("SFA_SUFFIX").unwrap_or_default();
    let path = format!("{}/{}{}.json", out_dir, krate, suffix);
    let tmp = format!("{}.tmp{}", path, std::process::id());
    std::fs::write(&tmp, s).expect("cannot write fact file");
    std::fs::rename(&tmp, &path).expect("cannot rename fact file");
}
