//! Minimal JSON value + writer (the driver has no dependencies).
use std::fmt::Write;

#[derive(Clone, Debug)]
pub enum J {
    Null,
    Bool(bool),
    Int(i128),
    Str(String),
    Arr(Vec<J>),
    Obj(Vec<(&'static str, J)>),
}

impl J {
    pub fn s<S: Into<String>>(s: S) -> J {
        J::Str(s.into())
    }
    pub fn obj() -> J {
        J::Obj(Vec::new())
    }
    pub fn set(&mut self, k: &'static str, v: J) {
        if let J::Obj(o) = self {
            o.push((k, v));
        }
    }
    pub fn with(mut self, k: &'static str, v: J) -> J {
        self.set(k, v);
        self
    }
    pub fn opt(v: Option<J>) -> J {
        v.unwrap_or(J::Null)
    }
    pub fn write(&self, out: &mut String) {
        match self {
            J::Null => out.push_str("null"),
            J::Bool(b) => out.push_str(if *b { "true" } else { "false" }),
            J::Int(i) => {
                // JSON numbers beyond 2^63 are emitted as strings prefixed with '#'
                if *i > i64::MAX as i128 || *i < i64::MIN as i128 {
                    let _ = write!(out, "\"#{}\"", i);
                } else {
                    let _ = write!(out, "{}", i);
                }
            }
            J::Str(s) => write_str(s, out),
            J::Arr(a) => {
                out.push('[');
                for (i, x) in a.iter().enumerate() {
                    if i > 0 {
                        out.push(',');
                    }
                    x.write(out);
                }
                out.push(']');
            }
            J::Obj(o) => {
                out.push('{');
                for (i, (k, v)) in o.iter().enumerate() {
                    if i > 0 {
                        out.push(',');
                    }
                    write_str(k, out);
                    out.push(':');
                    v.write(out);
                }
                out.push('}');
            }
        }
    }
}

fn write_str(s: &str, out: &mut String) {
    out.push('"');
    for c in s.chars() {
        match c {
            '"' => out.push_str("\\\""),
            '\\' => out.push_str("\\\\"),
            '\n' => out.push_str("\\n"),
            '\r' => out.push_str("\\r"),
            '\t' => out.push_str("\\t"),
            c if (c as u32) < 0x20 => {
                let _ = write!(out, "\\u{:04x}", c as u32);
            }
            c => out.push(c),
        }
    }
    out.push('"');
}
