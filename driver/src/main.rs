//! sfa — the analysis driver for /verif (static analysis of avl/savefile).
//!
//! It is injected as RUSTC_WRAPPER.  For the crates named in SFA_CRATES it runs
//! the normal rustc front end and, after analysis, exports a *resolved, typed,
//! structured* representation of every function body (THIR), the trait-impl
//! table, the ADT definitions and the compiler's layout tables as one JSON fact
//! file per crate into SFA_OUT.  All rules are evaluated over these facts by
//! the python package `sfv`; nothing of the analysed program is executed.
#![feature(rustc_private)]
#![feature(box_patterns)]
#![allow(clippy::all)]

extern crate rustc_abi;
extern crate rustc_ast;
extern crate rustc_driver;
extern crate rustc_hir;
extern crate rustc_interface;
extern crate rustc_middle;
extern crate rustc_span;

mod export;
mod json;

use rustc_driver::Compilation;
use rustc_middle::ty::TyCtxt;

struct Cb {
    out_dir: String,
}

impl rustc_driver::Callbacks for Cb {
    fn after_analysis<'tcx>(
        &mut self,
        _c: &rustc_interface::interface::Compiler,
        tcx: TyCtxt<'tcx>,
    ) -> Compilation {
        export::export_crate(tcx, &self.out_dir);
        Compilation::Continue
    }
}

fn main() {
    let mut args: Vec<String> = std::env::args().collect();
    // RUSTC_WRAPPER protocol: argv[1] is the path of the real rustc.
    let real_rustc = args.remove(1);
    let targets = std::env::var("SFA_CRATES").unwrap_or_else(|_| "savefile,savefile_abi,sfcorpus".into());
    let targets: Vec<&str> = targets.split(',').collect();
    let crate_name = args
        .windows(2)
        .find(|w| w[0] == "--crate-name")
        .map(|w| w[1].clone())
        .unwrap_or_default();
    let is_target = targets.iter().any(|t| *t == crate_name) && !args.iter().any(|a| a.starts_with("--print"));
    if !is_target {
        let st = std::process::Command::new(&real_rustc)
            .args(&args[1..])
            .status()
            .expect("cannot run real rustc");
        std::process::exit(st.code().unwrap_or(1));
    }
    // Analyse the program the stable test-suite builds: drop the cfg that
    // savefile/build.rs injects under a nightly compiler.
    if std::env::var("SFA_KEEP_NIGHTLY").is_err() {
        let mut i = 0;
        while i + 1 < args.len() {
            if args[i] == "--cfg" && args[i + 1] == "feature=\"nightly\"" {
                args.drain(i..i + 2);
            } else {
                i += 1;
            }
        }
    }
    args.push("-Zno-steal-thir".to_string());
    args.push("--cap-lints=allow".to_string());
    let out_dir = std::env::var("SFA_OUT").expect("SFA_OUT not set");
    let mut cb = Cb { out_dir };
    rustc_driver::run_compiler(&args, &mut cb);
}
