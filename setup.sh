#!/bin/sh
# Builds the analysis driver (nightly + rustc-dev, no dependencies) and pre-builds the
# third-party dependencies of the harness workspace, offline.
set -e
cd "$(dirname "$0")"
export CARGO_NET_OFFLINE=true
(cd driver && cargo build --release --offline)
python3 -c "
import sys; sys.path.insert(0,'.')
from sfv import analysis
print(analysis.facts_dir('quick',0))
"
