#![allow(warnings)]
// corpus failed to build; see corpus_build_error.txt
