#![allow(warnings)]
use savefile::prelude::*;
use savefile_derive::Savefile;

#[derive(Savefile)]
#[repr(C)]
pub struct P1 { pub a: u32, pub b: u16, pub c: u16 }

#[derive(Savefile)]
pub struct V1 {
    pub a: u32,
    #[savefile_versions = "1.."]
    pub b: String,
    #[savefile_versions = "..0"]
    pub c: Removed<u8>,
    pub d: Vec<u8>,
}

#[derive(Savefile)]
pub enum E2 { A, B(u32, String), C { x: u8 } }
