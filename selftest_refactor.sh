#!/bin/bash
# behaviour-preserving edits of /repo must leave every check silent (run manually; restores /repo afterwards)
set -u
cd /repo || exit 1
git diff --quiet || { echo "/repo has local changes"; exit 1; }
python3 - <<'PY'
import re
p='savefile/src/lib.rs'; s=open(p).read()
# 1. rename a private helper
s=s.replace('regular_serialize_vec','serialize_vec_items_renamed')
# 2. change an error message
s=s.replace('"File is not in new savefile-format."','"This is not a savefile (bad magic)."')
# 3. inline a helper call (write_usize) at one site
s=s.replace('''        let asb = v.as_bytes();
        self.write_usize(asb.len())?;''','''        let asb = v.as_bytes();
        self.writer.write_u64::<LittleEndian>(asb.len() as u64)?;''')
# 4. `>= 1`-style rewrite of a version gate and reorder two independent checks in diff_enum
s=s.replace('''    if a.variants.len() != b.variants.len() {''','''    if b.variants.len() != a.variants.len() {''')
# 5. rename a local variable
s=s.replace('let mut compressed_writer = bzip2::write::BzEncoder::new','let mut bzw = bzip2::write::BzEncoder::new').replace('&mut compressed_writer,','&mut bzw,').replace('writer: &mut compressed_writer,','writer: &mut bzw,').replace('let writer = compressed_writer.finish()?;','let writer = bzw.finish()?;')
open(p,'w').write(s)
PY
git diff --stat
cd /verif
fail=0
for c in C01 C02 C03 C04 C05 C06 C07 C08 C09 C10 C11 C12 C13 C14 C15 C16 C17 C18; do
  out=$(./check $c 2>&1); rc=$?
  echo "$c rc=$rc $(echo "$out" | grep -c '^VIOLATION') violations"
  if [ $rc -ne 0 ]; then fail=1; echo "$out" | grep -A3 '^VIOLATION' | head -20; fi
done
git -C /repo checkout -- .
exit $fail
