#!/bin/bash
# behaviour-preserving edits of /repo must leave every check silent (run manually; restores /repo afterwards)
set -u
cd /repo || exit 1
git diff --quiet || { echo "/repo has local changes"; exit 1; }
python3 - <<'PY'
import re
p='savefile/src/lib.rs'; s=open(p).read()
# 1. rename a private helper
s=s.replace('regular_serialize_vec','serialize_vec_items_renamed')
# 2. change an error message
s=s.replace('"File is not in new savefile-format."','"This is not a savefile (bad magic)."')
# 3. inline a helper call (write_usize) at one site
s=s.replace('''        let asb = v.as_bytes();
        self.write_usize(asb.len())?;''','''        let asb = v.as_bytes();
        self.writer.write_u64::<LittleEndian>(asb.len() as u64)?;''')
# 4. `>= 1`-style rewrite of a version gate and reorder two independent checks in diff_enum
s=s.replace('''    if a.variants.len() != b.variants.len() {''','''    if b.variants.len() != a.variants.len() {''')
# 5. rename a local variable
s=s.replace('let mut compressed_writer = bzip2::write::BzEncoder::new','let mut bzw = bzip2::write::BzEncoder::new').replace('&mut compressed_writer,','&mut bzw,').replace('writer: &mut compressed_writer,','writer: &mut bzw,').replace('let writer = compressed_writer.finish()?;','let writer = bzw.finish()?;')
# ---- set B: edits aimed at the rules added in the seeded rounds -----------------------------------
def rep(a, b, count=1):
    global s
    assert a in s, a[:60]
    s = s.replace(a, b, count)
# 6. K3: key derivation moved into a helper (no change of the function computed)
rep("""    pub fn save_encrypted_file<T: WithSchema + Serialize, P: AsRef<Path>>(""", """    fn key_of(password: &str) -> [u8; 32] {
        use ring::digest;
        let hashed = digest::digest(&digest::SHA256, password.as_bytes());
        let mut key = [0u8; 32];
        key.clone_from_slice(hashed.as_ref());
        key
    }
    pub fn save_encrypted_file<T: WithSchema + Serialize, P: AsRef<Path>>(""")
rep("""        use ring::digest;
        let actual = digest::digest(&digest::SHA256, password.as_bytes());
        let mut key = [0u8; 32];
        let password_hash = actual.as_ref();
        assert_eq!(password_hash.len(), key.len(), "A SHA256 sum must be 32 bytes");
        key.clone_from_slice(password_hash);
""", """        let key = key_of(password);
""", 2)
# 7. K5: nonce built with copy_from_slice instead of two indexed loops
rep("""            for i in 0..8 {
                bytes[i] = bytes1[i];
            }
            for i in 0..4 {
                bytes[i + 8] = bytes2[i];
            }
""", """            bytes[0..8].copy_from_slice(&bytes1);
            bytes[8..12].copy_from_slice(&bytes2);
""")
# 8. S3: the cursor update written differently
rep("""            *cur += frame.keyvals.len() - offset;""", """            *cur = *cur + frame.keyvals.len() - offset;""")
# 9. W8: format gates written as `>= 1`
rep("""            offset: if deserializer.file_version > 0 {""", """            offset: if deserializer.file_version >= 1 {""")
# 10. T6: clean-up of the slots filled so far on a failed read (correct: indices below the one being filled)
rep("""                data[idx] = MaybeUninit::new(T::deserialize(deserializer)?); //This leaks on panic, but we shouldn't panic and at least it isn't UB!""",
    """                match T::deserialize(deserializer) {
                    Ok(item) => data[idx] = MaybeUninit::new(item),
                    Err(err) => {
                        for loaded in &mut data[0..idx] {
                            unsafe { loaded.assume_init_drop() };
                        }
                        return Err(err);
                    }
                }""")
# 11. Q1: an accepting shortcut that IS covered by its condition (both field lists empty: nothing left to compare)
rep("""    for i in 0..a.len() {
        let r = diff_schema(
            &a[i].value,""", """    if a.is_empty() && b.is_empty() {
        return None;
    }
    for i in 0..a.len() {
        let r = diff_schema(
            &a[i].value,""")
# 12. K7: draining written with a named sink
rep("""                std::io::copy(&mut compressed_reader, &mut std::io::sink())?;""", """                let mut rest = std::io::sink();
                std::io::copy(&mut compressed_reader, &mut rest)?;""")
# ---- set C: edits aimed at the rules added in round 5 -----------------------------------------
# 13. Q4b: the return values of nested definitions compared before the arguments
rep("""            for (arg_index, (a_arg, b_arg)) in amet.info.arguments.iter().zip(bmet.info.arguments.iter()).enumerate() {
                if let Some(diff) = diff_schema(
                    &a_arg.schema,
                    &b_arg.schema,
                    format!("{}(arg #{})", amet.name, arg_index),
                    is_return_pos,
                ) {
                    return Some(diff);
                }
            }
            if let Some(diff) = diff_schema(
                &amet.info.return_value,
                &bmet.info.return_value,
                format!("{}(return value)", amet.name),
                true,
            ) {
                return Some(diff);
            }
""", """            if let Some(diff) = diff_schema(
                &amet.info.return_value,
                &bmet.info.return_value,
                format!("{}(return value)", amet.name),
                true,
            ) {
                return Some(diff);
            }
            for (arg_index, (a_arg, b_arg)) in amet.info.arguments.iter().zip(bmet.info.arguments.iter()).enumerate() {
                if let Some(diff) = diff_schema(
                    &a_arg.schema,
                    &b_arg.schema,
                    format!("{}(arg #{})", amet.name, arg_index),
                    is_return_pos,
                ) {
                    return Some(diff);
                }
            }
""")
# 14. K8: the loop guard of CryptoWriter::flush written the other way round
rep("""            while self.buf.len() > offset {""", """            while offset < self.buf.len() {""")
# 15. W18 / T3: the Duration reader goes through the helper SystemTime already uses (same value for every input)
rep("""        let temp = deserializer.read_u128()?;
        Ok(Duration::from_secs((temp / 1_000_000_000) as u64) + Duration::from_nanos((temp % 1_000_000_000) as u64))""",
    """        let temp = deserializer.read_u128()?;
        let secs = Duration::from_secs((temp / 1_000_000_000) as u64);
        let subsec = Duration::from_nanos((temp % 1_000_000_000) as u64);
        Ok(secs + subsec)""")
open(p,'w').write(s)
# savefile-abi: Q7 (hoisted latest version), L1/L2/L4 (template lookup in a scoped block; negotiation still under the lock)
p='savefile-abi/src/lib.rs'; s=open(p).read()
rep("""    for version in 0..=T::get_latest_version() {
        let def = T::get_definition(version);""", """    let latest = T::get_latest_version();
    for version in 0..=latest {
        let def = T::get_definition(version);""")
# 16. N9: wake delegates to wake_by_ref
rep("""    fn wake(self: Arc<Self>) {
        (self.waker)();
    }""", """    fn wake(self: Arc<Self>) {
        self.wake_by_ref();
    }""")
open(p,'w').write(s)
PY
git diff --stat
cd /verif
fail=0
for c in C01 C02 C03 C04 C05 C06 C07 C08 C09 C10 C11 C12 C13 C14 C15 C16 C17 C18; do
  out=$(./check $c 2>&1); rc=$?
  echo "$c rc=$rc $(echo "$out" | grep -c '^VIOLATION') violations"
  if [ $rc -ne 0 ]; then fail=1; echo "$out" | grep -A3 '^VIOLATION' | head -20; fi
done
git -C /repo checkout -- .
exit $fail
