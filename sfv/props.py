"""Per-property claim metadata (level, technique, explanation, assumptions). MANIFEST.json is generated from this
table by `python3 -m sfv.tools.mkmanifest`; evidence files take level/explanation/assumptions from it."""
PROPS = {}

COMMON_ASSUME = [
    "the rustc 1.97-nightly front end (THIR, trait resolution, const-eval, layout_of) is trusted; the analysed program is the one the "
    "stable test-suite builds (the cfg feature=\"nightly\" injected by build.rs is dropped; the nightly variant is an extra thorough config)",
    "target x86-64 little endian, 64-bit usize",
    "third-party crates (byteorder, bzip2, ring, bit-vec, arrayvec ...) behave as documented; their bodies are not analysed",
]


def prop(pid, level, technique, text, explanation, assumptions, note, design_ref):
    PROPS[pid] = {"level": level, "technique": technique, "text": text, "explanation": explanation,
                  "assumptions": assumptions + COMMON_ASSUME, "note": note, "design_ref": design_ref}


prop("C01", "other", "static sibling-agreement analysis: wire-shape regular languages extracted from THIR, containment writer ⊆ reader",
     "Decides the structural clause 'loading consumes exactly the bytes saving produced, into the same fields': for every Serialize/"
     "Deserialize impl pair of the library, every derived impl of the witness corpus and the container header, for every version class "
     "and Packed-guard assignment, every byte-sequence shape the writer can emit is one the reader consumes (tags refine to the matching "
     "arm); raw-copy paths are only equal to the field-wise paths where the Packed decision is sound (P2). Value equality is not decided.",
     "Rules W1 (≈92 library impl pairs), W4 (container header), W5 (derived impls of ≈300 corpus definitions vs the documented model), "
     "W6 (field flow), P2/P3 (Packed decision vs rustc layout; raw events guarded), W2 (hand-written tag tables are inverse maps), "
     "W11 (primitive values travel unmodified), W13 (k-th written component flows back into the component it came from), W16 (the element "
     "count written is len() of the whole container whose elements follow), P7 (no cached Packed decision), W14 (sequences "
     "are written and rebuilt in container order), T4 (a capacity-checked length is rejected only above the capacity), W18 (hand-written "
     "composite impls pass component data through no known value-altering library operation), X5 (no save/load function depends on "
     "thread-wide or process-wide state through an under-keyed memo or an unbalanced counter), CB (the witness corpus still compiles). Each obligation is one impl pair / corpus definition checked over all version classes and guard "
     "assignments by NFA containment with minterm-refined tag alphabets.",
     ["nested values are compared compositionally (a nested type is a symbol checked at its own impl)",
      "equality of values (float bits, hash-set equality, Arc<str> sharing), bzip2/ring internals and CryptoWriter chunk arithmetic are not decided"],
     "necessary condition of round-trip fidelity; not a proof of value equality", "DESIGN.md §3 C01")

prop("C02", "other", "static conformance check: writer wire languages vs a frozen specification of the documented format",
     "Decides that the event language of every library writer, of the container header and of every derived writer equals a frozen, "
     "hand-reviewed specification of the documented format (widths, little endian, u64 lengths, tag values, field order, discriminant = "
     "variant index in the documented width). A change applied consistently to writer and reader is reported although round trips still pass.",
     "Rules W3 (spec/wire_spec.json: 96 writers incl. header, language equality modulo expansion of nested values), W4, W5 (corpus model), "
     "W2, W11, W13, W14, W16 (tag tables, unmodified primitives - arithmetic decided by bit provenance -, component order, sequence order, "
     "count = container length), P2/P3 (raw paths).",
     ["iteration order of hash containers and byteorder's numeric encoding are trusted",
      "a byte sink idiom the classifier does not know yields 'undecided', never an alarm"],
     "conformance of the writer's shape; the byte values of primitives are byteorder's", "DESIGN.md §3 C02, Appendix A")

prop("C03", "translation_validation", "translation validation of derive output on an enumerated corpus of evolution histories (THIR wire languages + field flow vs model)",
     "For every enumerated evolution history (edit scripts of add/remove/retype over packed and non-packed bases) and every pair "
     "saved version k ≤ loading definition j: the reader derived from definition j, specialised to file version k, consumes exactly the "
     "language definition k's writer produces (= the timeline model), initialises retained fields from reads of their historical type, "
     "removed fields by read-and-discard, added fields by exactly the documented default and converted fields through the documented conversion.",
     "Rules H1 (histories × version pairs), W5, W6 on the corpus; F2 (version origin) via W4; W10b (the recursion-guard levels of every library "
     "WithSchema impl equal the frozen format: a schema stored by an older build still matches), X5, H3 (a field with two conversions of one stored "
     "type is read through each, under its own version test), P2 (no type is bulk-copyable at a version whose wire layout differs from memory).",
     ["histories outside the enumerated scripts and the values produced by user conversion/default functions are not decided"],
     "bounded by the corpus: scripts of ≤2 edits (quick) / ≤3 (thorough), all positions", "DESIGN.md §3 C03")

prop("C04", "translation_validation", "three-valued evaluation of the pure Packed decision functions against rustc's layout_of (independent oracle)",
     "(a) whenever repr_c_optimization_safe(v) can answer yes for a corpus type, rustc's layout of that type is byte-identical to its "
     "field-by-field encoding at v; (b) every raw memory event of every library and derived impl is only reachable under the Packed guard "
     "(or an adjacency guard that the layout confirms); (c) writer and reader branch on the same guard (W1 over guard assignments).",
     "Rules P2 (decision ⇒ PackedOK for ≈320 corpus types × versions, tuple impls folded concretely from rustc's layout constants), P3 "
     "(raw events guarded, all impls; a run of fields copied raw is contiguous and each of its fields is stored as written), P7 (the decision "
     "is never cached across versions), W11 (the field-wise path moves primitives unmodified: bit provenance), W1/W5 over both guard values. "
     "Library Packed impls of foreign types (Cell, RefCell, Rc, Arc, Mutex, Range, Duration, atomics, Result, nalgebra Point3/Vector3/"
     "Isometry3) are decided on wrapper witnesses: folded concretely, address comparisons of a probe value explored both ways.",
     ["a foreign struct with two or more stored fields is never accepted as byte-identical (its field order is not the library's to assume)", "equality of loaded values between the two paths follows from (a)+(b)+W1 and is not separately observed"],
     "decision soundness relative to the compiler's own layout tables on this target", "DESIGN.md §3 C04")

prop("C05", "other", "static comparison-table extraction (which access paths are compared, with which polarity) + container shape",
     "Decides that the gate is complete: diff_schema compares every wire-relevant fact of each schema variant with a difference-reporting "
     "result, recurses into every nested schema, reports mismatched variants, and never lets names or memory-layout annotations influence "
     "the result; the header/schema section is read in the order it is written.",
     "Rules W5/H1/W7d on the corpus (the schema describes the derived writer and reader), Q1 (38 table obligations from the property statement, including: no accepting shortcut on a one-sided condition, and no "
     "accepting shortcut that skips a comparison its condition does not cover), W4 (header sequence), F1 (in load_impl every path to the "
     "payload passes the whole-value comparison with the 9-byte magic that save_impl writes, the library-version bound, the data-version "
     "bound, and - when a schema is expected - diff_schema with a propagated difference).",
     ["that every pair of differently encoded types has different schemas additionally needs C12 for each type"],
     "completeness of the comparison and presence of the header sequence", "DESIGN.md §3 C05, Appendix B")

prop("C06", "other", "static interval/taint analysis of values read from the stream + triaged panic-site inventory + layout validity oracle",
     "On every deserialization path of savefile (and the derived readers of the corpus): no unchecked * + << on an untrusted value can "
     "overflow given the dominating reject-guards (T1); an untrusted length reaching set_len/from_raw_parts/pointer arithmetic is the "
     "allocated size or bounded against it (T2); every panicking construct is triaged as data-independent (T3); no error result is "
     "unwrapped (I3); types with restricted bit patterns are never bulk-copyable (P5, three known findings).",
     "Rules T1 (interval analysis per reader function), T2, T3 (spec/panic_sites.json), T4 (capacity guards inclusive), T5 (BitVec: accepted "
     "bit count ≤ allocated storage bits, finite-domain evaluation), T6 (initialisation typestate of element-wise filled "
     "[MaybeUninit<T>; N] buffers, including error clean-up inside the fill loop and counted drop guards), I3, I8 (no Err swallowed by flat_map/"
     "flatten/filter_map), T7 (units of raw pointer arithmetic), T8 (single owner of raw allocations), T9 (lower-bound guard before "
     "stream value minus constant), P5, P8 (derived readers fill memory from raw bytes only for types "
     "all of whose bit patterns are valid).",
     ["trusted lengths/offsets are ≤ isize::MAX and element sizes < 2^31", "panics inside third-party crates other than the tabulated value-panicking operations (T3), stack exhaustion and OOM are not decided"],
     "absence of the enumerated defect classes on all paths, not absence of all panics", "DESIGN.md §3 C06, Appendix C")

prop("C07", "other", "static exact-read discipline (who-may-call) + result discipline + writer⊆reader containment",
     "With every read of the input being an exact read (I1), every read error propagated (I3) and the load consuming exactly the shapes "
     "the save produced (W1/W4), any cut inside the consumed bytes yields Err for the plain and schema-less containers; the compressed "
     "stream is finished explicitly (I4).",
     "Rules I1 (all Read/ReadBytesExt call sites), I3 on reader-side functions, I4, W1, W4, K4 (CryptoReader: every copy-out of the "
     "decrypt buffer advances the offset by the count it returns), K7 (the decompressor is driven to its end-of-stream after the value, "
     "so the compressed trailer - and the last encrypted chunk - is required).",
     ["bzip2's own detection of a cut inside its stream is trusted (the library demands the stream's end, K7)"],
     "sound static argument for the plain containers only", "DESIGN.md §3 C07")

prop("C08", "other", "static error/exact-write discipline and typestate rules over THIR path languages",
     "All output goes through write_all/byteorder (I2); every io::Error/SavefileError/ring result is propagated or handled by an "
     "error-producing arm (I3); a BzEncoder is finish()ed and the sink flushed on every Ok path (I4, I5); a destructor does not retry and "
     "panic after a failed flush (I6).",
     "Rules I1, I2, I3 (≈480 call sites), I4, I5, I6, I6b (the failure flag Drop consults is raised before the first fallible call of flush), "
     "I7 (no Result is lost by overwriting it in a loop), K4.",
     ["hangs and chunking independence of CryptoReader's manual loop under Interrupted are not decided",
      "known finding: Drop of a never-flushed CryptoWriter panics when its implicit flush fails (documented behaviour)"],
     "error discipline on all paths", "DESIGN.md §3 C08")

prop("C11", "other", "static comparison-table extraction for Schema::layout_compatible",
     "layout_compatible answers yes only if size, alignment, every field offset, discriminant width and values, collection layouts are "
     "known on both sides and equal, recursively; Option/Custom/closures and mismatched variants answer no.",
     "Rules Q3 (40 table obligations incl. the two shortcut clauses; alternative-sensitive), N7, M7, P6 (derived schemas claim an explicit repr only when the recorded "
     "discriminants are the in-memory values), M1/M2/M4/M5 (the four schemas handed to arg_layout_compatible originate from the two "
     "sides' effective and native definitions of the same method and argument; the mask is per method), X3 (layout facts enter a schema "
     "only through the unsafe constructor), M9 (no type but String / Vec / &str / &[T] claims a probed container layout, directly or by "
     "returning String's / Vec's schema as its own).",
     ["behaviour under a different compiler is covered only in so far as the schema is the sole channel"],
     "conservativeness of the decision function", "DESIGN.md §3 C11")

prop("C12", "other", "schema constructor trees read off THIR, translated to the language a schema-driven reader parses, containment writer ⊆ schema",
     "For every library type with a literal schema constructor tree the language its writer emits is contained in the language described "
     "by its schema; recursion guards name the type whose schema they wrap.",
     "Rules P2 and W16 (necessary on the raw path / for counts), W7 (≈90 library types), W7d (derived schemas of the corpus vs the derived writers, field-wise and raw path, per version), W10 "
     "(20 recursion guards), W10b (guard levels as frozen). Known findings: unit variants beside data variants are declared Packed (D30),  SocketAddr, Result, HashMap/IndexMap guards, BitVec/BitSet, retyped field written at an older "
     "version, enum discriminant recorded as u8.",
     ["run-time dependent parts of a schema (Vec/String layout probes) are not decided; BitVec/BitSet are undecided (raw storage slice)"],
     "faithfulness of the schema's shape", "DESIGN.md §3 C12")

prop("C13", "other", "writer⊆reader containment for the schema node types + reflexivity/completeness tables for diff_schema",
     "Schema, SchemaStruct, SchemaEnum, Variant, Field, SchemaArray, SchemaPrimitive and the ABI definition types written at format "
     "versions ≥1 are read back by their readers (W1 over version classes 1..3); specialised to file_version 0 each reader consumes the "
     "frozen format-0 layout = format 1 without the memory-layout annotations (W8); hand-written tag tables are inverse maps (W2); "
     "diff_schema reports differences only from comparisons of corresponding paths (Q2), compares every wire-relevant fact and takes no "
     "accepting shortcut past a comparison (Q1).",
     "Rules W1 (schema types), W8 (spec/format0_spec.json, 12 readers), W8d (values of the format-0-absent fields at file_version 0), W15 (flag bits), W2, Q1 (incl. no arm "
     "that matches different variants on the two sides), Q2, W19 (independent flags are written independently), X5 (reading a schema leaves no thread-wide state behind). Known finding: Undefined vs Undefined reports a difference by design.",
     ["format 0 has no independent reference in the repository: spec/format0_spec.json was frozen from the pinned tree and reviewed by "
      "hand against the version gates (offset, size, alignment, discriminant_size, has_explicit_repr, string/vector layout byte)"],
     "shape agreement and comparison tables", "DESIGN.md §3 C13")

prop("C14", "other", "static necessary conditions in savefile's AEAD wrapper (result discipline, key provenance, nonce injectivity by constant folding, framing)",
     "Only the structural necessary conditions: the result of open_in_place/seal is inspected and its Err becomes an Err (I3); both ends "
     "derive the key as the same digest of exactly the password parameter, helpers inlined (K3); every byte of the stored nonce state "
     "occupies its own slot of the 12-byte nonce (K5, constant folding of the array construction); the nonce header written is the one "
     "read (W4); every copy-out of the decrypt buffer advances the offset by what it returns (K4); the load demands the end of the "
     "compressed stream so that no trailing chunk is optional (K7). The cryptographic guarantee itself is ring's.",
     "Rules I3 (crypto module), K3, K4, K5, K7, K8 (a record is written only while unwritten plaintext remains, in flush and in every helper that "
     "seals what it is handed: no optional records), K10 (every header value read is stored in the nonce state), T9, K9 (the "
     "unauthenticated chunk length is used as read and rejected when out of range, never clamped), T3 (panic-site inventory incl. slice range "
     "indexing on the load path), W4.",
     ["that modification of nonce/length/ciphertext/tag is detected is ring's AES-256-GCM and is not decided here"],
     "necessary conditions only", "DESIGN.md §3 C14")

prop("C15", "other", "static comparison-table extraction for the ledger comparison + position-flag consistency",
     "verify_backward_compatible: a recorded method missing now, a changed argument count, argument schema, return schema or async flag "
     "each lead to Err; return values are compared in return position.",
     "Rules Q4 (comparison table of verify_backward_compatible), Q5 (the definition is stored at a data version at which every compared "
     "field is written), Q6, Q7 (in verify_compatiblity the file name, the recorded definition, the checked definition and the version "
     "argument are all those of the loop's version, and the loop covers 0..=latest), I7 (the result of a per-version check is not overwritten by "
     "a later one), W15 (the Send/Sync/Unpin flag byte of a recorded future type is decoded with the masks it was encoded with), Q4b (nested "
     "interfaces - closure, trait-object and future arguments - are compared on argument count, argument schemas and return schema), Q1 "
     "(diff_schema, which the ledger relies on for every type), W19 (the Send / Sync bounds of a stored definition are written independently), N8 (generated get_definition(version) describes nested interfaces and "
     "argument types at `version`).",
     ["file-system behaviour is not decided"],
     "completeness of the ledger comparison", "DESIGN.md §3 C15")

prop("C16", "other", "static lock-order / held-lock effect analysis over the resolved call graph",
     "Deadlock-freedom necessary conditions: all shared mutable state is a Mutex or atomic (L3); the lock-order graph over the three "
     "process-wide caches is acyclic without self edges (L1); while a cache guard is live only negotiation messages leave the image, "
     "their callbacks and in-image handlers acquire no cache lock, and no RegularCall is issued under a lock (L2).",
     "Rules L1, L2, L3, L5 (no check-then-act across two critical sections), L4 (condition variables, if any: state changed under the waited-on mutex is followed by a notify - no lost "
     "wake-up), L6 (a parameter matched against an atomic static is matched again under the lock the cached value is taken from), N9 "
     "(wake-ups cross the ABI boundary unconditionally), L7 (two cells that are read together are written together), N10 (the declared Send / Sync "
     "bounds of an interface and of closure arguments reach the run-time definition that the connection-time bound check reads), X2 (AbiConnection<T> is Send/Sync only if T is).",
     ["'same results as sequential execution' (linearizability) is not decided", "user constructors run under CreateInstance execute in the plugin image with its own statics"],
     "necessary conditions for deadlock freedom", "DESIGN.md §3 C16")

prop("C17", "other", "static classification of introspect_child / introspect_len shapes + path-wise affine relations over total_index_impl",
     "For every Introspect impl (≈90 library, ≈300 derived) the children served by introspect_child and the count reported by "
     "introspect_len belong to the same class (len, 2·len, literal k with indices 0..k-1, delegation), per enum variant, and are taken "
     "from the same container (S1). total_index: on every acyclic path of total_index_impl a frame that yields no element advances the "
     "flat cursor by exactly len(frame.keyvals) - the amount do_introspect adds to total_len - and a returned element is "
     "keyvals[index - cursor on entry - advance of the expanded sub-tree] (S3).",
     "Rules S1 (411 impls; containers, state-dependent None), S3 (16 obligations: conservation, element index, no underflow by induction on "
     "index >= cursor, no overflow of sums involving the caller's index), S4 (every unwrap in dive / do_introspect / total_index is justified by a typestate argument: "
     "take-once guard, push before last/pop), S5 (the default introspect_len is the linear probe), S6 (no Introspect impl contains an untriaged "
     "panicking construct), S7 (sibling maps / sets compute their child count by the same expression).",
     ["index arithmetic and slice indexing in the navigation code (no underflow / in bounds) rest on data-structure invariants across calls and are not decided"],
     "child-count consistency and flat-index accounting", "DESIGN.md §3 C17")

prop("C18", "translation_validation", "translation validation of derived writers specialised to older versions against the timeline model",
     "For every add/remove evolution history and k < j: the writer derived from definition j, told to write version k, emits exactly the "
     "version-k layout (later fields omitted, AbiRemoved fields filled from their value constructor) or diverges where a plain Removed "
     "field would have to be written; the Packed decision is no for every version whose wire layout differs from memory (P2).",
     "Rules H2, W5, P2, X5 (the schema written into a file is computed for the version being written, not memoised under the type alone).",
     ["values produced by value constructors are not decided"],
     "bounded by the corpus of histories", "DESIGN.md §3 C18")

prop("C09", "translation_validation", "translation validation of generated ABI trampolines (caller vs callee message languages from THIR) + catch_unwind / panic-payload rules",
     "For every exported method of the corpus traits (every supported argument kind, 0..3 arguments) and every compatibility-mask "
     "assignment: the argument message the caller trampoline writes is what the callee trampoline reads before it invokes the "
     "implementation method with that number, and the reply it writes is what the caller's result receiver reads (W9); implementation "
     "code runs only inside catch_unwind (A1) and both panic payload kinds are forwarded (A2).",
     "Rules W9 (≈40 methods × mask assignments, with ownership events), A1, A2, A3 (ownership pairing of boxed arguments), A6 "
     "((pointer, length) pairs passed across the boundary: the length is len() of the same object), N5, N6 (generated closure/future helper "
     "interfaces carry the enclosing interface's version), A7 (a panic message pointer never outlives the payload it points into), A8 (fixed-size "
     "message buffers hold the longest message of the method), M5 (compatibility mask is initialised per method), M6 (argument limit = mask width), "
     "N9 (a wake-up is forwarded on every path: AbiWaker, the generated poll closure, the callback handed to AbiWaker::new).",
     ["equality of observed values, drop counts at run time and post-panic usability are not decided"],
     "mirror-image property of generated code on the corpus; the runtime effect is not observed", "DESIGN.md §3 C09")

prop("C10", "translation_validation", "value-origin analysis of the version labels on all four legs of the generated trampolines + negotiation and ledger tables",
     "The version that labels a message is the version it is encoded in: caller arguments, header and RegularCall use "
     "template.effective_version; the callee decodes with the header's version and encodes and labels its reply with the effective_version "
     "it was called with; the caller decodes the reply with the reply header's version (N3). Negotiation takes min(own, callee) (N1); a "
     "method missing in the implementation panics at call time, after a successful match of its number (N4); signature changes are "
     "rejected by the definition comparison (Q4); trampolines agree at every mask assignment (W9).",
     "Rules N3 (every corpus trait and method), N1, N4, N5, N6, N7 (which definition is handed to analyze_and_create in which position, with branch conditions), M7, M8 (nested interfaces verified on the effective definitions), N8, X4, Q3, W9, Q4, M1/M2/M4 (which definitions are compared during negotiation), and "
     "H2/W5/P2 on the evolution histories (an argument type written at the effective version has that version's layout).",
     ["values are not decided; interface families are the enumerated ones"],
     "origin of version values in generated code", "DESIGN.md §3 C10")
