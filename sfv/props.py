"""Per-property claim metadata (level, explanation, assumptions). MANIFEST.json is generated from this."""
PROPS = {}


def prop(pid, level, technique, text, explanation, assumptions, note):
    PROPS[pid] = {"level": level, "technique": technique, "text": text, "explanation": explanation,
                  "assumptions": assumptions, "note": note}


prop("C01", "other", "static sibling-agreement analysis (THIR wire-shape regex containment)",
     "x", "x", ["x"], "x")
prop("C02", "other", "x", "x", "x", ["x"], "x")
prop("C06", "other", "x", "x", "x", ["x"], "x")
prop("C07", "other", "x", "x", "x", ["x"], "x")
prop("C08", "other", "x", "x", "x", ["x"], "x")
prop("C14", "other", "x", "x", "x", ["x"], "x")
prop("C05", "other", "x", "x", "x", ["x"], "x")
prop("C10", "other", "x", "x", "x", ["x"], "x")
prop("C11", "other", "x", "x", "x", ["x"], "x")
prop("C13", "other", "x", "x", "x", ["x"], "x")
prop("C15", "other", "x", "x", "x", ["x"], "x")
prop("C03", "translation_validation", "x", "x", "x", ["x"], "x")
prop("C04", "translation_validation", "x", "x", "x", ["x"], "x")
prop("C18", "translation_validation", "x", "x", "x", ["x"], "x")
prop("C17", "other", "x", "x", "x", ["x"], "x")
prop("C16", "other", "x", "x", "x", ["x"], "x")
prop("C12", "other", "x", "x", "x", ["x"], "x")
prop("C09", "other", "x", "x", "x", ["x"], "x")
