"""E3: comparison-table extraction for structural comparators (diff_schema, layout_compatible,
verify_backward_compatible).  Walks the comparator (inlining local helpers by parameter substitution) and
records, per arm of the top-level match on the operand pair, which access paths of the two operands are compared,
with which polarity a difference leads to the rejecting result, which recursive comparisons are made and which
paths influence any condition at all."""
from .ir import callee, peel, peel_block, walk

ROOTS = "ABCDEFGH"

DEREFS = {"core::ops::deref::Deref::deref", "core::ops::deref::DerefMut::deref_mut", "core::convert::AsRef::as_ref",
          "core::borrow::Borrow::borrow", "core::clone::Clone::clone", "alloc::string::String::as_str",
          "alloc::vec::Vec::as_slice", "std::string::String::as_str", "std::vec::Vec::as_slice"}
LEN_FNS = ("::len",)
ITER_FNS = ("::iter", "::iter_mut", "::into_iter")


class Fact(dict):
    pass


class CmpExtractor:
    def __init__(self, facts, root_fn, reject_kind, n_operands=2, recursive=(), operand_params=None):
        """reject_kind: 'some' (Option result: Some = difference), 'false' (bool), 'err' (Result: Err = incompatible)"""
        self.facts = facts
        self.root = root_fn
        self.reject_kind = reject_kind
        self.n_operands = n_operands
        self.recursive = set(recursive) | {root_fn["id"]}
        self.out = []       # list of Fact
        self.arm = "<top>"
        self.stack = []
        self.cond_paths = set()
        self.operand_params = operand_params
        self.markers = []   # open accepting shortcuts: {"scope": "loop"|"fn", "start": index into self.out, "cond_paths", "cond"}

    # ---- values --------------------------------------------------------
    def pv(self, n, env):
        """path value of an expression: tuple path | ('tuple', [..]) | ('lit', v) | ('const', id) | None"""
        if not isinstance(n, dict):
            return None
        k = n.get("k")
        if k == "Var":
            return env.get(n["v"])
        if k in ("Ref", "Deref", "Coerce", "RawRef", "Cast"):
            return self.pv(n["e"], env)
        if k == "Block":
            b = peel_block(n)
            return self.pv(b, env) if b is not n else None
        if k == "Field":
            b = self.pv(n["e"], env)
            if isinstance(b, tuple) and b and b[0] == "tuple":
                try:
                    return b[1][int(n["f"])]
                except (ValueError, IndexError):
                    return None
            if self.is_path(b):
                return b + (n["f"],)
            return None
        if k == "Index":
            b = self.pv(n["e"], env)
            return b + ("*",) if self.is_path(b) else None
        if k == "Tuple":
            return ("tuple", [self.pv(x, env) for x in n["es"]])
        if k == "Lit":
            for key in ("int", "str", "float"):
                if key in n:
                    return ("lit", n[key])
            return None
        if k == "Const":
            return ("const", n["id"])
        if k == "Adt" and not n["fields"]:
            return ("const", n["adt"] + "::" + n["variant"])
        if k == "Adt" and n.get("adt") == "core::option::Option" and n.get("variant") == "Some" and len(n["fields"]) == 1:
            # `Some(x)` where x was bound from `Some(x) = <path>`: the option itself
            inner = self.pv(n["fields"][0]["e"], env)
            if self.is_path(inner) and inner[-1] == "Some":
                return inner[:-1]
            return None
        if k == "Call":
            c = callee(n) or ""
            args = n["args"]
            if c in DEREFS and args:
                return self.pv(args[0], env)
            if c == "core::ops::index::Index::index" and args:
                b = self.pv(args[0], env)
                return b + ("*",) if self.is_path(b) else None
            if c.endswith(LEN_FNS) and len(args) == 1:
                b = self.pv(args[0], env)
                return b + ("len",) if self.is_path(b) else None
            if c.endswith(ITER_FNS) and len(args) == 1:
                b = self.pv(args[0], env)
                return ("iter", b + ("*",)) if self.is_path(b) else None
            if c.endswith("::zip") and len(args) == 2:
                return ("iter", ("tuple", [self.elem(self.pv(args[0], env)), self.elem(self.pv(args[1], env))]))
            if c.endswith("::enumerate") and len(args) == 1:
                return ("iter", ("tuple", [None, self.elem(self.pv(args[0], env))]))
            if c.endswith(("::find", "::next", "::get", "::first", "::last")) and args:
                b = self.pv(args[0], env)
                e = self.elem(b)
                if e is None and self.is_path(b):
                    e = b + ("*",)
                return ("opt", e) if e is not None else None
            if c.endswith(("::as_ref", "::as_deref", "::copied", "::cloned")) and len(args) == 1:
                return self.pv(args[0], env)
        return None

    @staticmethod
    def is_path(v):
        return isinstance(v, tuple) and len(v) > 0 and v[0] in tuple(ROOTS)

    def elem(self, v):
        if isinstance(v, tuple) and v and v[0] == "iter":
            return v[1]
        if self.is_path(v):
            return v + ("*",)
        return None

    def bind(self, pat, v, env):
        k = pat.get("k")
        if k == "Bind":
            if v is not None:
                env[pat["v"]] = v
            else:
                env.pop(pat["v"], None)
            if "sub" in pat:
                self.bind(pat["sub"], v, env)
        elif k == "Leaf":
            for s in pat["subs"]:
                sv = None
                if isinstance(v, tuple) and v and v[0] == "tuple":
                    try:
                        sv = v[1][int(s["f"])]
                    except (ValueError, IndexError):
                        sv = None
                elif self.is_path(v):
                    sv = v + (s["f"],)
                self.bind(s["p"], sv, env)
        elif k == "Variant":
            for s in pat["subs"]:
                sv = None
                if isinstance(v, tuple) and v and v[0] == "opt" and pat["variant"] == "Some":
                    sv = v[1]
                elif self.is_path(v):
                    if pat["variant"] in ("Some",):
                        sv = v + ("Some",)
                    else:
                        sv = v + (f"{pat['variant']}.{s['f']}",)
                self.bind(s["p"], sv, env)
        elif k == "Or":
            for p in pat["pats"]:
                self.bind(p, v, env)

    # ---- reject / accept classification of a branch --------------------
    def is_reject_value(self, n):
        n = peel_block(n) if isinstance(n, dict) else n
        if not isinstance(n, dict):
            return None
        k = n.get("k")
        rk = self.reject_kind
        if rk == "some" and k == "Adt" and n["adt"] == "core::option::Option":
            return n["variant"] == "Some"
        if rk == "false" and k == "Lit" and "int" in n and n.get("ty") == "bool":
            return n["int"] == 0
        if rk == "err" and k == "Adt" and n["adt"] == "core::result::Result":
            return n["variant"] == "Err"
        if rk == "err" and k == "Call" and callee(n) == "core::ops::try_trait::FromResidual::from_residual":
            return True
        return None

    def branch_rejects(self, n):
        """does the branch contain a return / tail of the rejecting value?"""
        if n is None:
            return False
        rej = acc = False
        for x in walk(n):
            if x.get("k") == "Return" and x.get("e") is not None:
                r = self.is_reject_value(x["e"])
                if r is True:
                    rej = True
                elif r is False:
                    acc = True
            if x.get("k") == "Call" and (callee(x) or "").startswith("core::panicking::"):
                rej = True
        t = peel_block(n)
        while isinstance(t, dict) and t.get("k") == "Block" and t.get("e"):
            t = t["e"]
        r = self.is_reject_value(t) if isinstance(t, dict) else None
        if r is True:
            rej = True
        elif r is False:
            acc = True
        return rej

    def plain_accept_return(self, n):
        b = peel_block(n)
        while isinstance(b, dict) and b.get("k") == "Block" and not b.get("stmts") and b.get("e"):
            b = peel_block(b["e"])
        if isinstance(b, dict) and b.get("k") == "Block" and len(b.get("stmts", [])) == 1 and not b.get("e"):
            b = b["stmts"][0]
            if b.get("k") == "ExprS":
                b = peel_block(b["e"])
        return isinstance(b, dict) and b.get("k") == "Return" and b.get("e") is not None and self.is_reject_value(b["e"]) is False

    def rest_rejects(self):
        """do the statements after the current one end, unconditionally, in the rejecting value?"""
        rest = getattr(self, "cur_rest", None)
        if not rest:
            return False
        stmts, tail = rest
        if tail is not None:
            t = peel_block(tail)
            while isinstance(t, dict) and t.get("k") == "Block" and t.get("e"):
                t = peel_block(t["e"])
            return isinstance(t, dict) and self.is_reject_value(t) is True
        if stmts:
            last = stmts[-1]
            e = peel_block(last.get("e")) if last.get("k") == "ExprS" else None
            return isinstance(e, dict) and e.get("k") == "Return" and e.get("e") is not None and self.is_reject_value(e["e"]) is True
        return False

    def branch_accepts_early(self, n):
        for x in walk(n):
            if x.get("k") == "Continue":
                return True
            if x.get("k") == "Return" and x.get("e") is not None and self.is_reject_value(x["e"]) is False:
                return True
        return False

    # ---- recording -------------------------------------------------------
    def add(self, kind, **kw):
        f = Fact(kind=kind, arm=self.arm, alt=tuple(getattr(self, "alt", ())), **kw)
        self.out.append(f)

    def note_cond_paths(self, n, env):
        for x in walk(n):
            v = self.pv(x, env)
            if self.is_path(v):
                self.cond_paths.add((self.arm, v))

    def cond(self, n, env, reject_when, ln=None):
        """record what condition n means when its truth value `reject_when` leads to the rejecting result
        (reject_when None = influences control flow without a clear polarity)"""
        n = peel_block(n)
        k = n.get("k")
        self.note_cond_paths(n, env)
        if k == "Logic":
            if (n["op"] == "Or" and reject_when is True) or (n["op"] == "And" and reject_when is False):
                self.cond(n["l"], env, reject_when)
                self.cond(n["r"], env, reject_when)
                return
            # conjunction that rejects when all hold (e.g. a_send && !b_send)
            parts = []
            for side in (n["l"], n["r"]):
                parts.append(self.describe(side, env))
            self.add("joint", op=n["op"], parts=parts, reject_when=reject_when)
            return
        if k == "Un" and n["op"] == "Not":
            self.cond(n["e"], env, None if reject_when is None else (not reject_when))
            return
        if k == "Bin" and n["op"] in ("Eq", "Ne", "Lt", "Le", "Gt", "Ge"):
            self.add("cmp", op=n["op"], l=self.pv(n["l"], env), r=self.pv(n["r"], env), reject_when=reject_when)
            return
        if k == "Call":
            c = callee(n) or ""
            if c in ("core::cmp::PartialEq::eq", "core::cmp::PartialEq::ne"):
                self.add("cmp", op="Eq" if c.endswith("eq") else "Ne", l=self.pv(n["args"][0], env),
                         r=self.pv(n["args"][1], env), reject_when=reject_when)
                return
            if c in ("core::option::Option::is_none", "core::option::Option::is_some"):
                self.add("isnone" if c.endswith("is_none") else "issome", p=self.pv(n["args"][0], env), reject_when=reject_when)
                return
            self.call(n, env, reject_when)
            return
        if k == "Let":
            v = self.pv(n["e"], env)
            if n["e"].get("k") == "Call":
                self.call(n["e"], env, "bound" if reject_when is not None else None, let_pat=n["pat"],
                          reject_when_match=reject_when)
            self.bind(n["pat"], v, env)
            self.add("let", pat=self.pat_name(n["pat"]), p=self.describe(n["e"], env), reject_when=reject_when)
            return
        v = self.pv(n, env)
        self.add("truth", p=v if v is not None else self.describe(n, env), reject_when=reject_when)

    def pat_name(self, p):
        k = p.get("k")
        if k == "Variant":
            return p["variant"]
        if k == "Leaf":
            return "(" + ",".join(self.pat_name(s["p"]) for s in p["subs"]) + ")"
        if k == "Or":
            return "|".join(self.pat_name(q) for q in p["pats"])
        return "_"

    def describe(self, n, env):
        n = peel_block(n)
        v = self.pv(n, env)
        if v is not None:
            return v
        k = n.get("k")
        if k == "Un":
            return ("not", self.describe(n["e"], env))
        if k == "Call":
            return ("call", callee(n), [self.describe(a, env) for a in n["args"]])
        if k == "Bin":
            return ("bin", n["op"], self.describe(n["l"], env), self.describe(n["r"], env))
        return ("?", k)

    # ---- iterator adaptors with a closure: the closure body is the loop body -------------------
    ADAPTORS = ("::find_map", "::all", "::any", "::find", "::position", "::try_for_each", "::for_each", "::map")

    def adaptor(self, n, env, reject_when):
        """`it.find_map(|x| ..)` / `it.all(|x| ..)`: walk the closure body once with x bound to the element; returns True if handled"""
        c = callee(n) or ""
        if not c.endswith(self.ADAPTORS) or len(n.get("args", [])) != 2:
            return False
        clo = peel(n["args"][1])
        if clo.get("k") != "Closure":
            return False
        g = self.facts.fns.get(clo["id"])
        if g is None or not g.get("body"):
            return False
        it = self.pv(n["args"][0], env)
        e = self.elem(it)
        if e is None:
            return False
        env2 = dict(env)
        ps = [p for p in g["params"][1:] if p.get("pat")]
        if ps:
            self.bind(ps[0]["pat"], e, env2)
        depth = len(self.markers)
        name = c.rsplit("::", 1)[-1]
        if name in ("all", "any"):
            tail = g["body"]
            if tail.get("k") == "Block":
                for s_ in tail["stmts"]:
                    self.body({"k": "Block", "stmts": [s_], "e": None}, env2)
                tail = tail.get("e") or {}
            if tail:
                pol = reject_when if name == "all" else (None if reject_when is None else (not reject_when))
                self.cond(tail, env2, False if reject_when is None and name == "all" else pol)
        else:
            self.body(g["body"], env2)
        self.close_markers(depth, "loop")
        return True

    # ---- calls ------------------------------------------------------------
    def call(self, n, env, reject_when, let_pat=None, reject_when_match=None):
        if self.adaptor(n, env, reject_when if isinstance(reject_when, bool) else None):
            return
        """a call whose result decides acceptance: inline local helpers, record recursion"""
        target = (n.get("res") or {}).get("fn") or n.get("fn")
        args = [self.pv(a, env) for a in n["args"]]
        if target in self.recursive:
            self.add("rec", fn=target, args=args, extra=[self.describe(a, env) for a in n["args"][self.n_operands:]],
                     reject_when=reject_when)
            return
        f = self.facts.fns.get(target) if target else None
        path_args = [a for a in args if self.is_path(a)]
        if f is not None and path_args and len(self.stack) < 6 and target not in self.stack:
            env2 = {}
            for p, a in zip(f["params"], args):
                if p.get("pat"):
                    self.bind(p["pat"], a, env2)
            self.stack.append(target)
            self.add("call", fn=target, args=args, reject_when=reject_when)
            depth = len(self.markers)
            self.body(f["body"], env2)
            self.close_markers(depth, "fn")
            self.stack.pop()
            return
        if path_args:
            self.add("opaque-call", fn=callee(n), args=args, reject_when=reject_when)

    # ---- statements ---------------------------------------------------
    def body(self, n, env):
        """walk a function body / block, recording the facts of every condition and result expression"""
        if n is None:
            return
        k = n.get("k")
        if k == "Block":
            for si, s in enumerate(n["stmts"]):
                if s["k"] == "LetS":
                    init = s.get("init")
                    v = self.pv(init, env) if init else None
                    if init is not None:
                        pi = peel_block(init)
                        if isinstance(pi, dict) and pi.get("k") == "Call":
                            self.call(pi, env, "bound")
                        elif isinstance(pi, dict) and pi.get("k") == "Try" and pi["e"].get("k") == "Call":
                            self.call(pi["e"], env, "err")
                        else:
                            self.body_expr(init, env, result=False)
                    if s.get("else"):
                        # let PAT = e else { reject }
                        rej = self.branch_rejects(s["else"])
                        self.add("letelse", pat=self.pat_name(s["pat"]), p=self.describe(init, env), reject_when_nomatch=rej)
                        self.note_cond_paths(init, env)
                    self.bind(s["pat"], v, env)
                else:
                    saved = getattr(self, "cur_rest", None)
                    self.cur_rest = (n["stmts"][si + 1:], n.get("e"))
                    self.body_expr(s["e"], env, result=False)
                    self.cur_rest = saved
            if n.get("e"):
                self.body_expr(n["e"], env, result=True)
            return
        self.body_expr(n, env, result=True)

    def body_expr(self, n, env, result):
        k = n.get("k")
        if k == "Block":
            self.body(n, dict(env))
        elif k == "If":
            t_rej = self.branch_rejects(n["t"])
            f_rej = self.branch_rejects(n.get("f")) if n.get("f") else False
            rw = True if (t_rej and not f_rej) else (False if (f_rej and not t_rej) else None)
            if rw is None and not n.get("f") and self.plain_accept_return(n["t"]) and self.rest_rejects():
                # `if a == b { return ACCEPT } ... REJECT`: the early-return form of `if a != b { .. return REJECT } ACCEPT`
                rw = False
            envc = env
            dpre = len(self.markers)
            # an accepting shortcut (continue / return of the accepting value) taken on a condition that reads only ONE operand
            # bypasses the remaining comparisons for inputs that differ on the other side
            for br in (n["t"], n.get("f")):
                if br is not None and self.branch_accepts_early(br):
                    roots = set()
                    for x in walk(n["c"]):
                        v = self.pv(x, env)
                        if self.is_path(v):
                            roots.add(v[0])
                    if len(roots) == 1:
                        self.add("one-sided-shortcut", roots=sorted(roots), cond=self.describe(n["c"], env))
                    # comparisons that follow are skipped whenever the condition holds: they must be implied by it
                    cps = set()
                    for x in walk(n["c"]):
                        v = self.pv(x, env)
                        if self.is_path(v):
                            cps.add(v)
                    cps = {c for c in cps if not any(d != c and d[:len(c)] == c for d in cps)}   # maximal paths only
                    scope = "loop" if any(x.get("k") == "Continue" for x in walk(br)) else "fn"
                    self.markers.append({"scope": scope, "cond_paths": cps, "cond": self.describe(n["c"], env), "open": True,
                                         "arm": self.arm, "start": None, "ranges": []})
            self.cond(n["c"], envc, rw)
            d0 = len(self.markers)
            split = bool(result and n.get("f") and (self.stack or self.arm != "<top>"))
            old_alt = tuple(getattr(self, "alt", ()))
            if split:
                self.alt_n = getattr(self, "alt_n", 0) + 1
                self.alt = old_alt + (f"if{self.alt_n}.t",)
            self.body_expr(n["t"], dict(env), result)
            self.suspend(d0)
            if n.get("f"):
                if split:
                    self.alt = old_alt + (f"if{self.alt_n}.f",)
                self.body_expr(n["f"], dict(env), result)
            self.alt = old_alt
            self.resume(dpre)
        elif k == "Match":
            self.match(n, env, result)
        elif k == "For":
            it = self.pv(n["iter"], env)
            self.body_expr_scan(n["iter"], env)
            e = self.elem(it)
            if n["iter"].get("k") == "Array" or peel(n["iter"]).get("k") == "Array":
                arr = peel(n["iter"])
                for el in arr["es"]:
                    env2 = dict(env)
                    self.bind(n["pat"], self.pv(el, env), env2)
                    self.body_expr(n["body"], env2, False)
                return
            env2 = dict(env)
            self.bind(n["pat"], e, env2)
            depth = len(self.markers)
            self.loop_depth = getattr(self, "loop_depth", 0) + 1
            self.body_expr(n["body"], env2, False)
            self.loop_depth -= 1
            self.close_markers(depth, "loop")
        elif k == "Loop":
            depth = len(self.markers)
            self.loop_depth = getattr(self, "loop_depth", 0) + 1
            self.body_expr(n["body"], dict(env), False)
            self.loop_depth -= 1
            self.close_markers(depth, "loop")
        elif k == "Return":
            if n.get("e") is not None:
                if getattr(self, "loop_depth", 0) > 0 and self.is_reject_value(n["e"]) is None:
                    # `return <nested comparison>` inside a loop: when that comparison finds nothing the function answers
                    # 'no difference' without looking at the remaining elements
                    pe = peel_block(n["e"])
                    bound_some = pe.get("k") == "Var" and isinstance(env.get(pe["v"]), tuple) and env[pe["v"]][:1] == ("known-reject",)
                    if not bound_some:
                        self.add("loop-return", what=self.describe(n["e"], env))
                self.result_expr(n["e"], env)
        elif k == "Try":
            inner = n["e"]
            if inner.get("k") == "Call":
                self.call(inner, env, "err")
        elif k in ("ExprS",):
            self.body_expr(n["e"], env, result)
        elif k == "Call":
            if result:
                self.result_expr(n, env)
        elif k == "Logic" or k == "Un" or k == "Bin":
            if result:
                self.result_expr(n, env)
        elif k == "Adt":
            if result:
                self.result_expr(n, env)
        elif k == "Lit":
            pass

    def body_expr_scan(self, n, env):
        pass

    def result_expr(self, n, env):
        """an expression whose value is the comparator's result"""
        n = peel_block(n)
        k = n.get("k")
        if k == "Block":
            self.body(n, dict(env))
            return
        if k in ("If", "Match"):
            self.body_expr(n, env, True)
            return
        r = self.is_reject_value(n)
        if r is not None:
            self.add("literal", reject=r)
            return
        if k == "Adt" and n["adt"] == "core::result::Result" and n["variant"] == "Ok" and n["fields"]:
            # Ok(<bool expr>)
            inner = n["fields"][0]["e"]
            if inner.get("k") == "Lit":
                self.add("literal", reject=False, value=inner.get("int"))
            else:
                self.cond(inner, env, False)
            return
        if k == "Try":
            self.body_expr(n, env, True)
            return
        if self.reject_kind == "false" or n.get("ty") == "bool":
            self.cond(n, env, False)
            return
        if k == "Call":
            self.call(n, env, "same")
            return
        if k == "Var":
            return

    def match(self, n, env, result):
        scrut = self.pv(n["e"], env)
        top = (self.arm == "<top>" and not self.stack and isinstance(scrut, tuple) and scrut and scrut[0] == "tuple")
        d0 = len(self.markers)
        split = bool(result and not top and len(n["arms"]) > 1)
        old_alt = tuple(getattr(self, "alt", ()))
        if split:
            self.alt_n = getattr(self, "alt_n", 0) + 1
            mid = self.alt_n
        for ai, a in enumerate(n["arms"]):
            self.suspend(d0)      # comparisons in a sibling arm do not follow a shortcut taken in this one
            env2 = dict(env)
            self.bind(a["pat"], scrut, env2)
            old = self.arm
            if split:
                self.alt = old_alt + (f"m{mid}.{ai}:{self.arm_name(a['pat'])}",)
            if top:
                self.arm = self.arm_name(a["pat"])
                cross = self.cross_variants(a["pat"])
                if cross:
                    self.add("cross-variant-arm", pairs=cross)
            if a.get("guard"):
                # `PAT if guard => REJECT`: the guard's truth leads to the rejecting result
                gb = peel_block(a["body"])
                grw = True if (isinstance(gb, dict) and self.is_reject_value(gb) is True) else None
                self.cond(a["guard"], env2, grw)
            self.body_expr(a["body"], env2, result)
            b = peel_block(a["body"])
            if result and isinstance(b, dict) and b.get("k") not in ("Block", "If", "Match", "Return"):
                self.result_expr(b, env2)
            self.arm = old
        self.alt = old_alt
        self.resume(d0)

    def cross_variants(self, p):
        """a tuple pattern whose components are or-patterns admits every combination: `(A(a) | B(a), A(b) | B(b))` also matches an A
        on one side and a B on the other. Returns the mixed combinations (empty for `(A, A) | (B, B)`, which only lists the diagonal)"""
        if p.get("k") == "Or":
            return [c for q in p["pats"] for c in self.cross_variants(q)]
        if p.get("k") != "Leaf" or len(p.get("subs", [])) != 2:
            return []
        alts = []
        for s_ in p["subs"]:
            q = s_["p"]
            vs = [r["variant"] for r in (q["pats"] if q.get("k") == "Or" else [q]) if r.get("k") == "Variant"]
            if not vs:
                return []
            alts.append(vs)
        return [f"{a} vs {b}" for a in alts[0] for b in alts[1] if a != b]

    def arm_name(self, p):
        k = p.get("k")
        if k == "Or":
            return "|".join(self.arm_name(q) for q in p["pats"])
        if k == "Leaf":
            names = [self.pat_name(s["p"]) for s in p["subs"]]
            if len(set(names)) == 1:
                return names[0]
            return "(" + ",".join(names) + ")"
        return self.pat_name(p)

    # ---- entry ------------------------------------------------------------
    def run(self):
        env = {}
        ops = self.operand_params or list(range(self.n_operands))
        for i, p in enumerate(self.root["params"]):
            if not p.get("pat"):
                continue
            if i in ops:
                self.bind(p["pat"], (ROOTS[ops.index(i)],), env)
            elif p["pat"].get("k") == "Bind":
                env[p["pat"]["v"]] = ("param", p["pat"]["v"].split("#")[0])
        self.body(self.root["body"], env)
        self.close_markers(0, "fn")
        return self.out

    def suspend(self, depth):
        for m in self.markers[depth:]:
            if m["open"] and m["start"] is not None:
                m["ranges"].append((m["start"], len(self.out)))
                m["start"] = None

    def resume(self, depth):
        for m in self.markers[depth:]:
            if m["open"] and m["start"] is None:
                m["start"] = len(self.out)

    def close_markers(self, depth, scope):
        """an accepting shortcut opened at index >= depth ends here (end of the loop body for `continue`, end of the function
        for an accepting `return`): every rejecting comparison recorded since is one it skips"""
        for m in self.markers[depth:]:
            if not m.get("open") or (m["scope"] == "fn" and scope == "loop"):
                continue
            m["open"] = False
            skipped = []
            if m["start"] is not None:
                m["ranges"].append((m["start"], len(self.out)))
            for f in [x for a, b in m["ranges"] for x in self.out[a:b]]:
                if f["kind"] not in ("cmp", "rec", "isnone", "issome", "joint", "opaque-call"):
                    continue
                ps = []
                if f["kind"] == "cmp":
                    ps = [f.get("l"), f.get("r")]
                elif f["kind"] in ("rec", "opaque-call"):
                    ps = list(f.get("args") or [])
                elif f["kind"] in ("isnone", "issome"):
                    ps = [f.get("p")]
                ps = [p for p in ps if self.is_path(p)]
                if not ps:
                    continue

                def covered(p):
                    # the condition looked at this very fact (or a container of it) on BOTH operands
                    q = strip_root(p)
                    roots = {c[0] for c in m["cond_paths"] if strip_root(c) == q[:len(strip_root(c))]}
                    return len(roots) >= self.n_operands
                if not all(covered(p) for p in ps):
                    skipped.append(".".join(str(x) for x in strip_root(ps[0])))
            if skipped:
                self.out.append(Fact(kind="skipping-shortcut", arm=m["arm"], cond=m["cond"], skipped=sorted(set(skipped))))


def strip_root(p):
    return tuple(x for x in p[1:]) if isinstance(p, tuple) and p and p[0] in tuple(ROOTS) else p


def rel(p):
    """path relative to the variant payload: drop root and the leading 'Variant.N' element"""
    q = strip_root(p)
    if q and isinstance(q, tuple) and q and isinstance(q[0], str) and "." in q[0] and q[0].split(".")[0][:1].isupper():
        head = q[0].split(".")[1]
        rest = q[1:]
        return ((head,) if head != "0" or not rest else ()) + rest if True else rest
    return q
