"""writes MANIFEST.json from sfv/props.py"""
import json, os, sys
ROOT = os.path.dirname(os.path.dirname(os.path.dirname(os.path.abspath(__file__))))
sys.path.insert(0, ROOT)
from sfv import props

ALL = [json.loads(l) for l in open(os.path.join(ROOT, "properties.jsonl"))]
NA = {
}
checks = []
for p in ALL:
    pid = p["id"]
    if pid not in props.PROPS:
        continue
    i = props.PROPS[pid]
    checks.append({
        "property_id": pid,
        "quick_cmd": f"./check {pid} --tier quick",
        "thorough_cmd": f"./check {pid} --tier thorough",
        "evidence_file": f"evidence/{pid}.json",
        "replay_cmd_template": f"./check {pid} --replay {{path}}",
        "engine": "sfa+sfv",
        "level_claimed": {"category": i["level"], "text": i["text"], "design_ref": i["design_ref"]},
        "level_note": i["note"] + ". Assumes: " + "; ".join(i["assumptions"][:3]),
        "technique": i["technique"],
    })
na = [{"property_id": p["id"], "reason": NA.get(p["id"], "rules for this property are still being armed (see DESIGN.md §3); not claimed until they fire on the calibration defect and are silent on the repaired tree")}
      for p in ALL if p["id"] not in props.PROPS]
m = {
    "version": 1,
    "setup_cmd": "./setup.sh",
    "hooks": {"guard": "avl_savefile_verif", "enable": "none: the driver analyses the program as it is; no hooks or instrumentation were added to /repo",
              "baseline_off_cmd": "cd /repo && cargo test --workspace --no-fail-fast --offline", "source_commits": [], "add_only": True},
    "engines": [
        {"name": "sfa", "path": "driver", "serves_properties": [c["property_id"] for c in checks],
         "kind_free_text": "rustc_private driver (nightly): exports resolved THIR of every body, impl tables, ADTs and rustc's layout tables of /repo's current tree and of the witness corpus as JSON facts"},
        {"name": "sfcorpus", "path": "corpus/gen.py", "serves_properties": ["C01", "C02", "C03", "C04", "C06", "C17", "C18"],
         "kind_free_text": "generator of the witness corpus (derive macros applied to enumerated definitions; only compiled, never run) and of the independent documentation model"},
        {"name": "sfv", "path": "sfv", "serves_properties": [c["property_id"] for c in checks],
         "kind_free_text": "python rule engines over the facts: E1 wire-shape regex/NFA containment, E2 Packed decision evaluator vs layout oracle, E3 comparison tables, E4 flow/typestate/lock/interval rules"},
    ],
    "checks": checks,
    "not_applicable": na,
    "notes": "Static analysis only: nothing of avl/savefile is executed. All checks share one cached analysis run per /repo tree state (keyed by a content hash). See DESIGN.md.",
}
json.dump(m, open(os.path.join(ROOT, "MANIFEST.json"), "w"), indent=1)
print(len(checks), "checks;", len(na), "not claimed")
