"""development aid: run selected rules over an existing facts directory
   python3 -m sfv.tools.devrun <factsdir> RULE [RULE...] [-a]   (-a: show passes too)"""
import sys
from .. import ir, core
from .. import rules as _r  # registers rules


def main():
    d = sys.argv[1]
    names = [a for a in sys.argv[2:] if not a.startswith("-")]
    show_all = "-a" in sys.argv

    facts = ir.Facts(d)
    for r in core.RULES:
        if r["name"] not in names:
            continue
        obs = list(r["fn"](facts, "quick"))
        st = {}
        for o in obs:
            st[o["status"]] = st.get(o["status"], 0) + 1
        print(f"== {r['name']}: {len(obs)} obligations {st} (floor {r['floor']})")
        for o in obs:
            if show_all or o["status"] != "pass":
                print(f"  {o['status']:9} {o['key']}  @{o['where']}\n            {o['detail'][:400]}")


main()
