"""(maintenance tool, not run by any check) regenerates spec/wire_spec.json from the current tree.
The result is reviewed by hand against DESIGN.md Appendix A before it is committed."""
import json, os, sys
sys.path.insert(0, os.path.dirname(os.path.dirname(os.path.dirname(os.path.abspath(__file__)))))
from sfv import analysis, ir
from sfv.rules import wire_rules
d = analysis.facts_dir("quick", 0)
spec = wire_rules.freeze_spec(ir.Facts(d))
json.dump(spec, open(wire_rules.SPEC_PATH, "w"), indent=1, sort_keys=True)
for k, ents in sorted(spec.items()):
    for e in ents:
        print(f"{k:60} v={e['v']} {e['g']:24} {e['lang']}")
