"""(maintenance tool, not run by any check) regenerates spec/recursion_guards.json from the current tree; reviewed by hand:
Box/Rc/Arc and the element types of containers are guarded once, Removed/AbiRemoved/Option/Cell/RefCell/Mutex are transparent."""
import json, os, sys
sys.path.insert(0, os.path.dirname(os.path.dirname(os.path.dirname(os.path.abspath(__file__)))))
from sfv import analysis, ir
from sfv.rules import schema_rules
d = analysis.facts_dir("quick", 0)
out = schema_rules.guard_levels(ir.Facts(d))
for k, v in sorted(out.items()):
    print(f"{k:80} {v}")
json.dump(out, open(schema_rules.GUARD_SPEC, "w"), indent=1, sort_keys=True)
