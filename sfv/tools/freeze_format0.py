"""(maintenance tool, not run by any check) regenerates spec/format0_spec.json from the current tree; reviewed by hand:
every entry must be the format-1 layout of wire_spec.json minus offset/size/alignment/discriminant_size/has_explicit_repr/
string-or-vector layout byte."""
import json, os, sys
sys.path.insert(0, os.path.dirname(os.path.dirname(os.path.dirname(os.path.abspath(__file__)))))
from sfv import analysis, ir, rx
from sfv.rules import wire_rules
d = analysis.facts_dir("quick", 0)
out = {}
for ty, ents in wire_rules.format0_langs(ir.Facts(d)).items():
    out[ty] = {gk: {"lang": rx.show(lr), "rx": rx.to_json(lr)} for gk, lr, rf in ents}
    for gk, lr, rf in ents:
        print(f"{ty:36} {gk:10} {rx.show(lr)}")
json.dump(out, open(wire_rules.FORMAT0_PATH, "w"), indent=1, sort_keys=True)
