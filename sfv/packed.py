"""E2: evaluation of the pure `Packed` decision functions and the independent layout oracle PackedOK."""
import re

from . import tys
from .ir import callee
from .shape import Analyzer, subst_ty

PACKED_TRAIT = "savefile::Packed"
METHOD = "repr_c_optimization_safe"


def no_events(an, n, argvals, env):
    c = callee(n)
    if c == "savefile::IsPacked::yes":
        return None
    return None


class PackedEval:
    def __init__(self, facts):
        self.facts = facts
        self.impls = []      # (parsed self type, generics, impl record, fn or None)
        fn_by_id = facts.fns
        for im in facts.impls:
            if im.get("trait") != PACKED_TRAIT:
                continue
            fn = None
            for it in im.get("items", []):
                if it["name"] == METHOD:
                    fn = fn_by_id.get(it["id"])
            self.impls.append((tys.parse(im["self_ty"]), set(im["generics"]), im, fn))
        self.default_fn = fn_by_id.get("savefile::Packed::repr_c_optimization_safe")
        self.memo = {}

    def find(self, type_string):
        conc = tys.parse(type_string)
        best = None
        for pat, gens, im, fn in self.impls:
            if pat[0] == "path" and not pat[2] and pat[1] in gens:
                continue
            b = tys.unify(pat, conc, gens, {})
            if b is not None:
                score = len(tys.show(pat))
                if best is None or score > best[0]:
                    best = (score, im, fn, {g: tys.show(t) for g, t in b.items()})
        return best

    def decide(self, type_string, ver, stack=()):
        """True / False / None(unknown) : may repr_c_optimization_safe(ver) answer yes for this type?"""
        key = (type_string, ver)
        if key in self.memo:
            return self.memo[key]
        if type_string in stack or len(stack) > 12:
            return None
        hit = self.find(type_string)
        if hit is None:
            self.memo[key] = None
            return None
        _, im, fn, tsub = hit
        if fn is None:
            res = False      # trait default: IsPacked::no()
            self.memo[key] = res
            return res
        lib_impl = fn.get("crate") == "savefile" and not type_string.startswith(("savefile::Removed", "savefile::AbiRemoved"))
        if (type_string.startswith("(") or lib_impl) and not any("$" in str(t_) for t_ in tsub.values()):
            # tuple impls (and the helpers they call) are folded concretely from rustc's layout constants
            from .cinterp import ConcreteInterp, Unknown
            an0 = Analyzer(self.facts, no_events, inline=lambda fid: False)
            ci = ConcreteInterp(self.facts, dict(tsub), lambda t_: self.decide(t_, ver, stack + (type_string,)), an0.size_of,
                                may=not type_string.startswith("("))
            try:
                r = ci.run_fn(fn, [ver])
                res = r[1] if isinstance(r, tuple) and r and r[0] == "packed" else None
            except Unknown:
                res = None
            except Exception:
                res = None
            if res is not None:
                self.memo[key] = res
                return res
        guards = {}
        v = None
        for _ in range(10):
            an = Analyzer(self.facts, no_events, inline=lambda fid: False)
            env = {"$ver": ver, "$guards": {k: g for k, g in guards.items() if g is not None}, "$tsub": dict(tsub),
                   "$concrete": not any("$" in str(t_) for t_ in tsub.values())}
            for p in fn["params"]:
                if p.get("pat") and p["pat"].get("k") == "Bind":
                    env[p["pat"]["v"]] = ("ver",)
            an.stack = [fn["id"]]
            ex, v = an.expr(fn["body"], env)
            from .rx import VOID
            vals = list(an.ret_vals) + ([v] if ex.norm() != VOID else [])
            v = vals[0] if vals and all(x == vals[0] for x in vals) else None
            unresolved = [g for g in an.guards_seen if g not in guards]
            if not unresolved:
                break
            for g in unresolved:
                guards[g] = self.decide(g[1], ver, stack + (type_string,)) if g[0] == "Packed" else None
        res = None
        if v is not None and v[0] == "bool":
            res = v[1]
        elif v is not None and v[0] == "packed" and v[1]:
            res = self.decide(subst_ty(v[1], tsub), ver, stack + (type_string,))
        elif v is not None and v[0] == "pand":
            rs = []
            for it in v[1]:
                if it[0] == "bool":
                    rs.append(it[1])
                elif it[0] == "packed" and it[1]:
                    rs.append(self.decide(subst_ty(it[1], tsub), ver, stack + (type_string,)))
                else:
                    rs.append(None)
            res = False if any(r is False for r in rs) else (True if all(r is True for r in rs) else None)
        elif v is not None and v[0] == "guard" and v[1][0] == "Packed":
            r = self.decide(v[1][1], ver, stack + (type_string,))
            res = None if r is None else (r if v[2] else not r)
        self.memo[key] = res
        return res


PRIM_SIZES = {"u8": 1, "i8": 1, "u16": 2, "i16": 2, "u32": 4, "i32": 4, "u64": 8, "i64": 8, "u128": 16, "i128": 16,
              "f32": 4, "f64": 8, "usize": 8, "isize": 8}


class Oracle:
    """PackedOK(T, v): is the compiler's memory image of T byte-identical to T's field-by-field encoding at version v?
    computed from rustc's layout tables and the corpus model only (never from savefile's own decision code)"""

    def __init__(self, facts):
        self.facts = facts
        self.meta = {t["id"]: t for t in facts.corpus_meta.get("types", [])}

    def layout(self, ty):
        return self.facts.layouts.get(ty)

    def ok(self, ty, ver, depth=0):
        """returns (bool, reason)"""
        if depth > 10:
            return False, "too deep"
        if ty in PRIM_SIZES:
            return True, "primitive"
        if ty == "bool":
            return True, "bool (1 byte 0/1)"
        if ty == "char":
            return True, "char (u32)"
        if ty == "()":
            return True, "unit"
        lay = self.layout(ty)
        if lay is None or lay.get("error"):
            return False, f"no layout for {ty}"
        kind = lay.get("kind")
        if kind == "array":
            if lay.get("count") == 0:
                return True, "empty array"
            return self.ok(lay["elem"], ver, depth + 1)
        if kind == "tuple":
            return self.contiguous(lay, [(f["ty"], f) for f in lay.get("fields", [])], ver, depth, lay["size"], 0)
        if kind == "struct":
            m = self.meta.get(lay.get("adt"))
            if m is None:
                if lay.get("adt", "").startswith("savefile::Removed") or lay.get("adt", "").startswith("core::marker::PhantomData"):
                    return (lay["size"] == 0), "zero-sized marker"
                # a foreign wrapper whose memory is exactly one inner value (Cell<T>, UnsafeCell<T>, Point3<T> -> Matrix -> ArrayStorage
                # -> [[T; 3]; 1]): the image is the inner value's image. A foreign struct with two or more stored fields is never
                # accepted: the order and padding of its fields is not this library's to assume (Isometry3 stores the rotation first
                # but is written translation first; RefCell stores a borrow counter beside the value)
                stored = [f for f in lay.get("fields", []) if f["size"] != 0]
                if len(stored) == 1 and stored[0]["offset"] == 0 and stored[0]["size"] == lay["size"]:
                    ok, why = self.ok(stored[0]["ty"], ver, depth + 1)
                    return ok, (f"wrapper of {stored[0]['ty']}: {why}")
                return False, f"{ty} is not a corpus/primitive type (heap or foreign representation, {len(stored)} stored fields)"
            fields = lay.get("fields", [])
            by_name = {f["name"]: f for f in fields}
            seq = []
            for mf in m["fields"]:
                lf = by_name.get(mf["name"])
                if lf is None:
                    return False, f"field {mf['name']} missing from layout"
                present = (not mf["ignore"]) and mf["from"] <= ver and (mf["to"] is None or ver <= mf["to"])
                if mf["ignore"]:
                    if lf["size"] != 0:
                        return False, f"ignored field {mf['name']} occupies memory but not the wire"
                    continue
                if not present:
                    if lf["size"] != 0:
                        return False, f"field {mf['name']} occupies memory but is absent from the wire at version {ver}"
                    continue
                if mf["wire_ty"] != mf["ty"]:
                    return False, f"field {mf['name']} has wire type {mf['wire_ty']} but memory type {mf['ty']} at version {ver}"
                seq.append((lf["ty"], lf))
            return self.contiguous(lay, seq, ver, depth, lay["size"], 0)
        if kind == "enum":
            return self.enum_ok(lay, ty, ver, depth)
        return False, f"{ty}: kind {kind}"

    def contiguous(self, lay, seq, ver, depth, total, start):
        pos = start
        for fty, lf in seq:
            if lf["offset"] != pos:
                return False, f"field {lf['name']} at offset {lf['offset']}, wire position {pos} (padding or reordering)"
            ok, why = self.ok(fty, ver, depth + 1)
            if not ok:
                return False, f"field {lf['name']}: {why}"
            pos += lf["size"]
        if pos != total:
            return False, f"{total - pos} trailing padding byte(s)"
        return True, "contiguous"

    def enum_ok(self, lay, ty, ver, depth):
        m = self.meta.get(lay.get("adt"))
        if m is None:
            return False, f"{ty} is a foreign enum"
        wire_w = enum_wire_width(m)
        if "tag" not in lay:
            return False, "no explicit tag in memory"
        if not lay.get("tag_direct"):
            return False, "niche-encoded tag"
        tagsize = {"u8": 1, "i8": 1, "u16": 2, "i16": 2, "u32": 4, "i32": 4, "u64": 8, "i64": 8}.get(lay["tag"]["prim"], 0)
        if lay.get("tag_offset") != 0 or tagsize != wire_w:
            return False, f"tag is {tagsize} byte(s) at offset {lay.get('tag_offset')}, wire discriminant is {wire_w} byte(s)"
        for i, (lv, mv) in enumerate(zip(lay["variants"], m["variants"])):
            if lv["discr"] != i:
                return False, f"variant {lv['name']} has discriminant {lv['discr']} in memory, the wire format writes its index {i}"
            if mv["from"] > ver:
                return False, f"variant {lv['name']} does not exist at version {ver}"
            seq = []
            by_name = {f["name"]: f for f in lv.get("fields", [])}
            for mf in mv["fields"]:
                lf = by_name.get(mf["name"])
                if lf is None:
                    return False, "field missing"
                present = mf["from"] <= ver and (mf["to"] is None or ver <= mf["to"])
                if not present:
                    if lf["size"]:
                        return False, f"variant field {mf['name']} absent from the wire at version {ver}"
                    continue
                seq.append((lf["ty"], lf))
            ok, why = self.contiguous(lay, seq, ver, depth, lay["size"], wire_w)
            if not ok:
                return False, f"variant {lv['name']}: {why}"
        return True, "enum"

    def all_bits_valid(self, ty, depth=0):
        """can every bit pattern of size_of::<T>() bytes be a valid T? (bool, char, enums, references cannot)"""
        if ty in PRIM_SIZES or ty == "()":
            return True, ""
        if ty == "bool":
            return False, "bool"
        if ty == "char":
            return False, "char"
        lay = self.layout(ty)
        if lay is None or depth > 10:
            return False, "unknown"
        k = lay.get("kind")
        if k == "array":
            return self.all_bits_valid(lay["elem"], depth + 1)
        if k in ("struct", "tuple"):
            for f in lay.get("fields", []):
                ok, why = self.all_bits_valid(f["ty"], depth + 1)
                if not ok:
                    return False, why
            return True, ""
        if k == "enum":
            return False, "derived-enum"
        return False, "other"


def enum_wire_width(m):
    """documented rule: explicit repr(u8/i8,u16/i16,u32/i32) decides, else by the number of variants"""
    r = (m.get("repr") or "").replace(" ", "")
    for part in r.split(","):
        if part in ("u8", "i8"):
            return 1
        if part in ("u16", "i16"):
            return 2
        if part in ("u32", "i32"):
            return 4
    n = len(m["variants"])
    if n <= 256:
        return 1
    if n <= 65536:
        return 2
    return 4
