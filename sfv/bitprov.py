"""bit provenance of the primitive helpers (rule W11): an exact abstract interpretation of integer expressions built from casts,
constant shifts, masks and bitwise or. A value is a list of bit symbols (least significant first):
    0, 1            constants
    ("v", i)        bit i of the value being written
    ("s", i)        bit i of the stream (bit i%8 of byte i//8: little endian numbering)
    ("?",)          anything else
A writer is proved when the bits it emits are ("v",0) ... ("v",W-1) in stream order; a reader when the bits of the value it returns
are ("s",0) ... ("s",W-1). Everything outside the fragment raises Unknown (the caller then keeps its syntactic verdict)."""
import re

from .ir import callee, peel

WIDTH = {"u8": 8, "i8": 8, "u16": 16, "i16": 16, "u32": 32, "i32": 32, "u64": 64, "i64": 64, "u128": 128, "i128": 128,
         "usize": 64, "isize": 64, "f32": 32, "f64": 64, "char": 32, "bool": 8}
SIGNED = {"i8", "i16", "i32", "i64", "i128", "isize"}
UNK = ("?",)


class Unknown(Exception):
    pass


def _prim_of(name):
    m = re.match(r"^(?:write|read)_(u8|i8|u16|i16|u32|i32|u64|i64|u128|i128|usize|isize|f32|f64)$", name or "")
    return m.group(1) if m else None


class BitEval:
    def __init__(self, facts):
        self.facts = facts

    # ---- expressions -------------------------------------------------------------------------
    def ev(self, n, env, st):
        """returns (type, bits); st = {'pos': stream read position, 'out': emitted bits}"""
        k = n.get("k")
        if k in ("Ref", "Deref", "Coerce", "Use", "Paren"):
            return self.ev(n["e"], env, st)
        if k == "Try":
            return self.ev(n["e"], env, st)
        if k == "Block":
            for s in n.get("stmts", []):
                self.stmt(s, env, st)
            if n.get("e") is None:
                return ("()", [])
            return self.ev(n["e"], env, st)
        if k == "Var":
            if n["v"] in env:
                return env[n["v"]]
            raise Unknown("var " + n["v"])
        if k == "Lit" and "int" in n:
            t = n.get("ty") or "i32"
            w = WIDTH.get(t, 32)
            v = n["int"] & ((1 << w) - 1)
            return (t, [(v >> i) & 1 for i in range(w)])
        if k == "Cast":
            t0, b = self.ev(n["e"], env, st)
            t1 = n.get("ty")
            if t1 not in WIDTH or t0 not in WIDTH:
                raise Unknown("cast " + str(t1))
            w = WIDTH[t1]
            if w <= len(b):
                return (t1, b[:w])
            fill = b[-1] if t0 in SIGNED else 0
            return (t1, b + [fill] * (w - len(b)))
        if k == "Bin":
            op = n["op"]
            tl, a = self.ev(n["l"], env, st)
            if op in ("Shl", "Shr"):
                tr, sh = self.ev(n["r"], env, st)
                if any(x not in (0, 1) for x in sh):
                    raise Unknown("variable shift")
                c = sum(x << i for i, x in enumerate(sh))
                w = len(a)
                if c >= w:
                    raise Unknown("shift too far")
                if op == "Shl":
                    return (tl, [0] * c + a[:w - c])
                fill = a[-1] if tl in SIGNED else 0
                return (tl, a[c:] + [fill] * c)
            tr, b = self.ev(n["r"], env, st)
            if len(a) != len(b):
                raise Unknown("width")
            if op == "BitOr":
                return (tl, [y if x == 0 else x if y == 0 else 1 if 1 in (x, y) else x if x == y else UNK for x, y in zip(a, b)])
            if op == "BitAnd":
                return (tl, [0 if 0 in (x, y) else y if x == 1 else x if y == 1 else x if x == y else UNK for x, y in zip(a, b)])
            if op == "BitXor":
                return (tl, [y if x == 0 else x if y == 0 else UNK for x, y in zip(a, b)])
            raise Unknown("op " + op)
        if k == "Array":
            es = [self.ev(e, env, st) for e in n["es"]]
            if not es or any(len(b) != 8 for _, b in es):
                raise Unknown("array of non-bytes")
            return ("[u8]", [x for _, b in es for x in b])
        if k == "Index":
            t, b = self.ev(n["e"], env, st)
            ti, bi = self.ev(n["i"], env, st)
            if t != "[u8]" or any(x not in (0, 1) for x in bi):
                raise Unknown("index")
            i = sum(x << j for j, x in enumerate(bi))
            if 8 * i + 8 > len(b):
                raise Unknown("index range")
            return ("u8", b[8 * i:8 * i + 8])
        if k == "If" and peel(n["c"]).get("k") == "Let":
            # `if let Ok(val) = T::try_from(x) { Ok(val) } else { Err(..) }`: on this target the conversion between the 64-bit types is total
            lt = peel(n["c"])
            init = peel(lt["e"])
            pat = lt["pat"]
            if init.get("k") == "Call" and callee(init) in ("core::convert::TryFrom::try_from", "core::convert::TryInto::try_into") \
                    and pat.get("k") == "Variant" and pat.get("variant") == "Ok" and pat["subs"][0]["p"].get("k") == "Bind":
                t0, b = self.ev(init["args"][-1], env, st)
                t1 = pat["subs"][0]["p"].get("ty")
                if t0 in WIDTH and t1 in WIDTH and WIDTH[t0] == WIDTH[t1] == len(b) and (t0 in SIGNED) == (t1 in SIGNED):
                    env[pat["subs"][0]["p"]["v"]] = (t1, b)
                    return self.ev(n["t"], env, st)
            raise Unknown("if-let")
        if k == "Adt" and n.get("adt") == "core::result::Result" and n.get("variant") == "Ok":
            return self.ev(n["fields"][0]["e"], env, st)
        if k == "Call":
            return self.call(n, env, st)
        if k == "ExprS":
            return self.ev(n["e"], env, st)
        raise Unknown("node " + str(k))

    def call(self, n, env, st):
        c = callee(n) or ""
        name = c.rsplit("::", 1)[-1]
        args = n.get("args", [])
        prim = _prim_of(name)
        is_bo = (n.get("trait") or "").startswith("byteorder::") or c.startswith(("byteorder::", "savefile::Serializer", "savefile::Deserializer"))
        if prim and name.startswith("write_") and is_bo and len(args) == 2:
            t, b = self.ev(args[1], env, st)
            w = WIDTH[prim]
            if len(b) != w:
                raise Unknown("sink width")
            if (n.get("trait") or "").startswith("byteorder::") and w > 8 and "LittleEndian" not in " ".join(n.get("targs") or []):
                if "BigEndian" not in " ".join(n.get("targs") or []):
                    raise Unknown("byte order")
                b = [x for i in range(w // 8 - 1, -1, -1) for x in b[8 * i:8 * i + 8]]      # most significant byte first
            st["out"].extend(b)
            return ("()", [])
        if prim and name.startswith("read_") and is_bo and len(args) == 1:
            w = WIDTH[prim]
            b = [("s", st["pos"] + i) for i in range(w)]
            if (n.get("trait") or "").startswith("byteorder::") and w > 8 and "LittleEndian" not in " ".join(n.get("targs") or []):
                if "BigEndian" not in " ".join(n.get("targs") or []):
                    raise Unknown("byte order")
                b = [x for i in range(w // 8 - 1, -1, -1) for x in b[8 * i:8 * i + 8]]
            st["pos"] += w
            return (prim, b)
        if c == "std::io::Write::write_all" and len(args) == 2:
            t, b = self.ev(args[1], env, st)
            if t != "[u8]":
                raise Unknown("write_all of non-bytes")
            st["out"].extend(b)
            return ("()", [])
        if c == "std::io::Read::read_exact" and len(args) == 2:
            a = args[1]
            while a.get("k") in ("Ref", "Deref", "Coerce"):
                a = a["e"]
            if a.get("k") != "Var" or a["v"] not in env or env[a["v"]][0] != "[u8]":
                raise Unknown("read_exact target")
            w = len(env[a["v"]][1])
            env[a["v"]] = ("[u8]", [("s", st["pos"] + i) for i in range(w)])
            st["pos"] += w
            return ("()", [])
        if c in ("core::result::Result::Ok",) and args:
            return self.ev(args[-1], env, st)
        if name in ("to_bits", "from_bits") and args:
            t, b = self.ev(args[-1], env, st)
            t1 = n.get("ty") if n.get("ty") in WIDTH else t
            return (t1, b)
        if c in ("core::convert::Into::into", "core::convert::From::from") and args and (n.get("ty") in WIDTH):
            t, b = self.ev(args[-1], env, st)
            w = WIDTH[n["ty"]]
            if t not in WIDTH or w < len(b):
                raise Unknown("from")
            fill = b[-1] if t in SIGNED else 0
            return (n["ty"], b + [fill] * (w - len(b)))
        raise Unknown("call " + c)

    def stmt(self, s, env, st):
        k = s.get("k")
        if k == "LetS" and s.get("init") is not None and s["pat"].get("k") == "Bind":
            env[s["pat"]["v"]] = self.ev(s["init"], env, st)
        elif k == "ExprS":
            self.ev(s["e"], env, st)
        else:
            raise Unknown("stmt " + str(k))

    # ---- entry points ------------------------------------------------------------------------
    def writer(self, f, prim):
        """True / False (proved different) ; raises Unknown"""
        w = WIDTH[prim]
        ps = [p for p in f.get("params", []) if (p.get("pat") or {}).get("k") == "Bind"]
        if len(ps) != 2:
            raise Unknown("params")
        env = {ps[1]["pat"]["v"]: (prim, [("v", i) for i in range(w)])}
        st = {"pos": 0, "out": []}
        self.ev(f["body"], env, st)
        return st["out"] == [("v", i) for i in range(w)], st["out"]

    def reader(self, f, prim):
        w = WIDTH[prim]
        st = {"pos": 0, "out": []}
        t, b = self.ev(f["body"], {}, st)
        return (b == [("s", i) for i in range(w)] and st["pos"] == w), b


def describe(bits, want):
    """first position at which the bits differ from the wanted identity"""
    for i, (x, y) in enumerate(zip(bits, want)):
        if x != y:
            return f"bit {i} is {x!r}, expected {y!r}"
    if len(bits) != len(want):
        return f"{len(bits)} bits instead of {len(want)}"
    return "identical"
