"""E1 core: exit-indexed regular expressions over events, computed by structural
recursion on THIR, with environment specialisation (version class, opaque guard
assignment), tag refinement (values read from the stream that are only compared
against literals are case-split at the read site) and bounded inlining of local
helpers.  The event alphabet is supplied by a classifier."""
import re

from . import rx
from .ir import base_name, callee, peel, peel_block, walk
from .rx import ANY, EPS, VOID, alt, seq, star

MAX_DEPTH = 8


class Ex:
    """paths of an expression, by exit"""
    __slots__ = ("n", "nok", "nerr", "rok", "rerr", "brk", "cont", "div")

    def __init__(self, n=EPS):
        self.n = n          # completes normally (value not known to be Ok/Err)
        self.nok = VOID     # completes normally with an Ok(..) value
        self.nerr = VOID    # completes normally with an Err(..) value
        self.rok = VOID     # function returns Ok / non-Result value
        self.rerr = VOID    # function returns Err
        self.brk = {}
        self.cont = {}
        self.div = VOID

    def norm(self):
        return alt(self.n, self.nok, self.nerr)

    def copy(self):
        e = Ex(self.n)
        e.nok, e.nerr, e.rok, e.rerr, e.div = self.nok, self.nerr, self.rok, self.rerr, self.div
        e.brk, e.cont = dict(self.brk), dict(self.cont)
        return e


def void():
    return Ex(VOID)


def _merge(d1, d2, prefix=None):
    out = dict(d1)
    for k, v in d2.items():
        v2 = seq(prefix, v) if prefix is not None else v
        out[k] = alt(out.get(k, VOID), v2)
    return out


def then(a, b):
    """a, then b (b only after a completed normally)"""
    p = a.norm()
    e = Ex(seq(p, b.n))
    e.nok = seq(p, b.nok)
    e.nerr = seq(p, b.nerr)
    e.rok = alt(a.rok, seq(p, b.rok))
    e.rerr = alt(a.rerr, seq(p, b.rerr))
    e.div = alt(a.div, seq(p, b.div))
    e.brk = _merge(a.brk, b.brk, p)
    e.cont = _merge(a.cont, b.cont, p)
    return e


def then_keep(a, b):
    """like then(), but the Ok/Err split of a's value is kept when b has no effect (b is a pure wrapper)"""
    return then(a, b)


def either(a, b):
    e = Ex(alt(a.n, b.n))
    e.nok = alt(a.nok, b.nok)
    e.nerr = alt(a.nerr, b.nerr)
    e.rok = alt(a.rok, b.rok)
    e.rerr = alt(a.rerr, b.rerr)
    e.div = alt(a.div, b.div)
    e.brk = _merge(a.brk, b.brk)
    e.cont = _merge(a.cont, b.cont)
    return e


def prefix(p, b):
    """regex p, then b"""
    return then(Ex(p), b)


def ex_subst(e, f):
    o = Ex(rx.subst(e.n, f))
    o.nok, o.nerr = rx.subst(e.nok, f), rx.subst(e.nerr, f)
    o.rok, o.rerr, o.div = rx.subst(e.rok, f), rx.subst(e.rerr, f), rx.subst(e.div, f)
    o.brk = {k: rx.subst(v, f) for k, v in e.brk.items()}
    o.cont = {k: rx.subst(v, f) for k, v in e.cont.items()}
    return o


PANICS = {
    "core::panicking::panic", "core::panicking::panic_fmt", "core::panicking::panic_explicit",
    "core::panicking::unreachable_display", "core::panicking::panic_display", "core::panicking::assert_failed",
    "std::rt::begin_panic", "core::panicking::panic_nounwind", "std::process::abort", "std::process::exit",
    "core::panicking::panic_str_2015", "std::rt::panic_fmt", "core::hint::unreachable_unchecked",
    "core::panicking::unreachable", "core::panicking::assert_matches_failed", "std::rt::panic_display",
}

RESULT_ADT = "core::result::Result"


def is_result_ty(t):
    return isinstance(t, str) and t.startswith("core::result::Result<")


def subst_ty(s, tsub):
    if not tsub or not isinstance(s, str):
        return s
    def rep(m):
        return tsub.get(m.group(0), m.group(0))
    return re.sub(r"impl [A-Za-z_:]+|[A-Za-z_][A-Za-z0-9_]*", lambda m: tsub.get(m.group(0), m.group(0)), s) \
        if any(k in s for k in tsub) else s


class Analyzer:
    """classifier(an, node, argvals, env) -> None (not an event) | (Ex, val)"""

    def __init__(self, facts, classifier, inline=lambda fid: True, max_depth=MAX_DEPTH):
        self.facts = facts
        self.classifier = classifier
        self.inline_ok = inline
        self.max_depth = max_depth
        self.slot_counter = 0
        self.ver_literals = set()
        self.guards_seen = set()
        self.unknown_calls = set()
        self.notes = []
        self.stack = []
        self.branch_hook = None
        self.ret_vals = []

    # ---- abstract values -------------------------------------------------
    def new_slot(self, width):
        self.slot_counter += 1
        return self.slot_counter

    def cond(self, v, env):
        """three-valued truth of an abstract value"""
        if v is None:
            return None
        if v[0] == "bool":
            return v[1]
        if v[0] == "int":
            return v[1] != 0
        if v[0] == "guard":
            if v[1][0] == "size_of":
                return None   # performance-only branch: both arms are explored
            self.guards_seen.add(v[1])
            g = env.get("$guards", {}).get(v[1])
            if g is None:
                return None
            return g if v[2] else (not g)
        if v[0] == "slot":
            cell = env.get(("cell", v[1]))
            if cell is None:
                return None
            return self.cell_truth(cell, v[2])
        return None

    @staticmethod
    def cell_truth(cell, xform):
        """does a raw value in `cell` satisfy xform (('eq',c) / ('ne',c) / None=nonzero)?"""
        if xform is None:
            xform = ("ne", 0)
        op, c = xform
        if cell[0] == "in":
            vals = cell[1]
            if all(v == c for v in vals):
                r = True
            elif all(v != c for v in vals):
                r = False
            else:
                return None
        else:
            if c in cell[1]:
                r = False
            else:
                return None
        return r if op == "eq" else (not r)

    def val(self, n, env):
        """abstract value of a (side-effect free) expression; None = unknown"""
        if not isinstance(n, dict):
            return None
        k = n.get("k")
        if k == "Lit":
            if "int" in n:
                if n.get("ty") == "bool":
                    return ("bool", bool(n["int"]))
                return ("int", n["int"])
            if "str" in n:
                return ("bytes", tuple(n["str"].encode()))
            if "bytes" in n:
                return ("bytes", tuple(n["bytes"]))
            return None
        if k == "Var":
            return env.get(n["v"])
        if k == "Closure":
            return ("closure", n["id"])
        if k in ("Ref", "RawRef") and n["e"].get("k") == "Field":
            a = self.field_addr(n["e"])
            if a is not None:
                return a
        if k in ("Ref", "Deref", "Coerce", "RawRef"):
            return self.val(n["e"], env)
        if k == "Block":
            b = peel_block(n)
            if b is not n:
                return self.val(b, env)
            return None
        if k == "Cast":
            v = self.val(n["e"], env)
            if v and v[0] in ("int", "sizeof", "sizemul", "slot", "ver", "addr"):
                return v
            if v and v[0] == "bool":
                return ("int", int(v[1]))
            return None
        if k == "If" and isinstance(n.get("c"), dict) and peel(n["c"]).get("k") == "Let":
            # `if let Ok(x) = e { Ok(x) } else { Err(E) }` re-wraps the Ok value of e
            lt = peel(n["c"])
            pt = lt.get("pat") or {}
            tb = peel_block(n["t"])
            while isinstance(tb, dict) and tb.get("k") == "Block" and tb.get("e") is not None and not tb.get("stmts"):
                tb = peel_block(tb["e"])
            if pt.get("k") == "Variant" and pt.get("variant") == "Ok" and len(pt.get("subs", [])) == 1 and pt["subs"][0]["p"].get("k") == "Bind" \
                    and isinstance(tb, dict) and tb.get("k") == "Adt" and tb.get("variant") == "Ok" and tb.get("fields") \
                    and peel(tb["fields"][0]["e"]).get("k") == "Var" and peel(tb["fields"][0]["e"])["v"] == pt["subs"][0]["p"]["v"]:
                return self.val(lt["e"], env)
            return None
        if k == "Const" or k == "ConstBlock":
            if n.get("val") is not None:
                if n.get("ty") == "bool":
                    return ("bool", bool(n["val"]))
                return ("int", n["val"])
            if k == "ConstBlock" and env.get("$concrete"):
                # a generic inline const (`offset_of_tuple!`): evaluate its body for the concrete type arguments
                g = self.facts.fns.get(n.get("id"))
                if g is not None and g.get("body"):
                    b_ = peel_block(g["body"])
                    return self.val(b_, {"$tsub": env.get("$tsub"), "$concrete": True, "$guards": {}, "$ver": env.get("$ver")})
            if k == "Const" and not n.get("targs"):
                # a named constant whose initialiser is a literal (`const MAGIC: &[u8; 9] = b"savefile\0";`)
                g = self.facts.fns.get(n.get("id"))
                if g is not None and g.get("body"):
                    b_ = peel_block(g["body"])
                    while isinstance(b_, dict) and b_.get("k") in ("Ref", "Deref", "Coerce"):
                        b_ = peel_block(b_["e"])
                    if isinstance(b_, dict) and b_.get("k") == "Lit":
                        return self.val(b_, {})
            return None
        if k == "Index":
            b = self.val(n["e"], env)
            if b and b[0] == "arr1":
                return b[1]
            return None
        if k == "Field":
            if n["f"] == "file_version" and re.search(r"savefile::(Serializer|Deserializer)<", n["e"].get("ty", "")):
                return ("ver",)
            return None
        if k == "Un":
            v = self.val(n["e"], env)
            if n["op"] == "Not":
                if v is None:
                    return None
                if v[0] == "bool":
                    return ("bool", not v[1])
                if v[0] == "guard":
                    return ("guard", v[1], not v[2])
                if v[0] == "slot" and v[2] is not None:
                    return ("slot", v[1], (("ne" if v[2][0] == "eq" else "eq"), v[2][1]))
                c = self.cond(v, env)
                return None if c is None else ("bool", not c)
            return None
        if k == "Logic":
            a = self.cond(self.val(n["l"], env), env)
            b = self.cond(self.val(n["r"], env), env)
            if n["op"] == "And":
                if a is False or b is False:
                    return ("bool", False)
                if a is True and b is True:
                    return ("bool", True)
            else:
                if a is True or b is True:
                    return ("bool", True)
                if a is False and b is False:
                    return ("bool", False)
            return None
        if k == "Bin":
            a, b = self.val(n["l"], env), self.val(n["r"], env)
            op = n["op"]
            return self.binop(op, a, b, env)
        if k == "Call":
            c = callee(n) or ""
            if c in ("*const T::add", "*mut T::add") and len(n["args"]) == 2:
                a, k_ = self.val(n["args"][0], env), self.val(n["args"][1], env)
                sz = self.size_of(subst_ty(n["targs"][0], env.get("$tsub"))) if n.get("targs") else None
                if a and a[0] == "addr" and k_ and k_[0] == "int" and sz is not None:
                    return ("addr", a[1], a[2] + k_[1] * sz)
                return None
            if c in ("core::mem::size_of", "std::mem::size_of"):
                if env.get("$concrete"):
                    sz = self.size_of(subst_ty(n["targs"][0], env.get("$tsub")))
                    if sz is not None:
                        return ("int", sz)
                return ("sizeof", subst_ty(n["targs"][0], env.get("$tsub")))
            if c == "core::intrinsics::offset_of" and env.get("$concrete") and len(n["args"]) == 2 and n.get("targs"):
                t = subst_ty(n["targs"][0], env.get("$tsub"))
                lay = self.facts.layouts.get(t)
                fi = self.val(n["args"][1], env)
                if lay and lay.get("fields") and fi and fi[0] == "int" and fi[1] < len(lay["fields"]):
                    return ("int", lay["fields"][fi[1]]["offset"])
                return None
            if c in ("core::cmp::PartialEq::eq", "core::cmp::PartialEq::ne") and len(n["args"]) == 2:
                a, b = self.val(n["args"][0], env), self.val(n["args"][1], env)
                return self.binop("Eq" if c.endswith("eq") else "Ne", a, b, env)
            if c in ("core::cmp::PartialOrd::lt", "core::cmp::PartialOrd::le", "core::cmp::PartialOrd::gt",
                     "core::cmp::PartialOrd::ge") and len(n["args"]) == 2:
                a, b = self.val(n["args"][0], env), self.val(n["args"][1], env)
                return self.binop({"lt": "Lt", "le": "Le", "gt": "Gt", "ge": "Ge"}[c[-2:]], a, b, env)
            if c == "savefile::Packed::repr_c_optimization_safe":
                ver = self.val(n["args"][0], env) if n["args"] else None
                return ("packed", subst_ty(n.get("self_ty"), env.get("$tsub")), ver)
            if c in ("savefile::IsPacked::is_yes", "savefile::IsPacked::is_false") and n["args"]:
                v = self.val(n["args"][0], env)
                if v and v[0] == "packed":
                    key = ("Packed", v[1]) if v[2] == ("ver",) or (v[2] and v[2][0] == "int") else ("Packed?", v[1])
                    return ("guard", key, c.endswith("is_yes"))
                if v and v[0] == "bool":
                    return ("bool", v[1] if c.endswith("is_yes") else not v[1])
                return None
            if c == "core::ops::bit::BitAnd::bitand" and n.get("self_ty") == "savefile::IsPacked" and len(n["args"]) == 2:
                a_, b_ = self.val(n["args"][0], env), self.val(n["args"][1], env)
                if a_ is None or b_ is None:
                    return None
                items = []
                for x in (a_, b_):
                    items.extend(x[1] if x[0] == "pand" else [x])
                return ("pand", items)
            if c == "savefile::IsPacked::no":
                return ("bool", False)
            if c == "savefile::IsPacked::yes":
                return ("bool", True)
            if c.split("::")[-1] in BYTES_PASSTHROUGH and "::".join(c.split("::")[-2:]) in BYTES_PASSTHROUGH_Q and n["args"]:
                v = self.val(n["args"][0], env)
                if v and v[0] == "bytes":
                    return v
                return None
            if c in ("core::slice::raw::from_raw_parts", "core::slice::raw::from_raw_parts_mut") and len(n["args"]) == 2:
                lv = self.val(n["args"][1], env)
                if lv and lv[0] in ("sizeof", "sizemul"):
                    return ("rawslice", lv[1], lv[0] == "sizeof")
                return ("rawslice", None, False)
            m_ = re.match(r"^core::num::<impl \w+>::(checked|saturating|wrapping|overflowing|unchecked)_(mul|add|sub)$", c or "") \
                or re.match(r"^\w+::(checked|saturating|wrapping|overflowing|unchecked)_(mul|add|sub)$", c or "")
            if m_ and len(n["args"]) == 2:
                r_ = self.binop({"mul": "Mul", "add": "Add", "sub": "Sub"}[m_.group(2)], self.val(n["args"][0], env),
                                self.val(n["args"][1], env), env)
                if r_ is None:
                    return None
                return ("some", r_) if m_.group(1) == "checked" else r_
            if c in ("core::intrinsics::transmute", "std::mem::transmute", "core::mem::transmute") and n["args"]:
                return self.val(n["args"][0], env)
            if c.endswith("alloc::layout::Layout::from_size_align") and len(n["args"]) == 2:
                # `Layout::from_size_align(n_bytes, align)?.size()` is n_bytes again
                v_ = self.val(n["args"][0], env)
                return ("ok", ("layoutsz", v_)) if v_ is not None else None
            if c.endswith(("alloc::layout::Layout::from_size_align_unchecked",)) and len(n["args"]) == 2:
                v_ = self.val(n["args"][0], env)
                return ("layoutsz", v_) if v_ is not None else None
            if c.endswith("alloc::layout::Layout::size") and n["args"]:
                v_ = self.val(n["args"][0], env)
                return v_[1] if v_ is not None and v_[0] == "layoutsz" else None
            if c in ("core::option::Option::ok_or", "core::option::Option::ok_or_else") and n["args"]:
                # `a.checked_mul(b).ok_or(E)?` is the `let Some(x) = a.checked_mul(b) else { return Err(E) }` idiom
                v_ = self.val(n["args"][0], env)
                return ("ok", v_[1]) if v_ is not None and v_[0] == "some" else None
            if c in ("core::result::Result::map_err", "core::result::Result::or_else") and n["args"]:
                v_ = self.val(n["args"][0], env)
                return v_ if v_ is not None and v_[0] == "ok" else None
            return None
        return None

    def size_of(self, t):
        from .packed import PRIM_SIZES
        if t in PRIM_SIZES:
            return PRIM_SIZES[t]
        if t in ("bool",):
            return 1
        if t == "char":
            return 4
        lay = self.facts.layouts.get(t)
        return lay.get("size") if lay else None

    def field_addr(self, fld):
        """address of a field of a value whose type has a known (monomorphic) layout: ('addr', T, offset)"""
        base = fld["e"]
        t = base.get("ty", "")
        while t.startswith("&"):
            t = re.sub(r"^&\s*('\w+\s+)?(mut\s+)?", "", t)
        lay = self.facts.layouts.get(t)
        if not lay or "fields" not in lay:
            return None
        for f in lay["fields"]:
            if f["name"] == fld["f"]:
                return ("addr", t, f["offset"])
        return None

    def binop(self, op, a, b, env):
        if op == "BitAnd" and ((a is None) != (b is None)):
            k_ = a if a is not None else b
            if k_[0] == "int" and k_[1] > 0 and (k_[1] & (k_[1] - 1)) == 0:
                return ("bit", k_[1])
        if a is not None and b is not None and op in ("Ne", "Eq") and {a[0], b[0]} == {"bit", "int"}:
            bit = a if a[0] == "bit" else b
            z = b if a[0] == "bit" else a
            if z[1] == 0:
                return ("guard", ("bit", bit[1]), op == "Ne")
        if a is not None and b is not None and a[0] == "addr" and b[0] == "addr" and a[1] == b[1] and op in ("Eq", "Ne"):
            return ("bool", (a[2] == b[2]) == (op == "Eq"))
        if a is None or b is None:
            if op == "Mul":
                for x in (a, b):
                    if x and x[0] in ("sizeof", "sizemul"):
                        return ("sizemul", x[1])
            return None
        if a[0] == "ver" or b[0] == "ver":
            other = b if a[0] == "ver" else a
            if other[0] == "int":
                self.ver_literals.add(other[1])
            v = env.get("$ver")
            if v is None:
                return None
            a = ("int", v) if a[0] == "ver" else a
            b = ("int", v) if b[0] == "ver" else b
        if a[0] == "int" and b[0] == "int":
            x, y = a[1], b[1]
            try:
                r = {"Eq": x == y, "Ne": x != y, "Lt": x < y, "Le": x <= y, "Gt": x > y, "Ge": x >= y}.get(op)
                if r is not None:
                    return ("bool", r)
                r = {"Add": x + y, "Sub": x - y, "Mul": x * y, "BitAnd": x & y, "BitOr": x | y,
                     "Shl": x << y if 0 <= y < 200 else None, "Shr": x >> y if 0 <= y < 200 else None,
                     "Div": x // y if y else None, "Rem": x % y if y else None}.get(op)
                return None if r is None else ("int", r)
            except Exception:
                return None
        if a[0] == "bool" and b[0] == "bool" and op in ("Eq", "Ne", "BitAnd", "BitOr"):
            r = {"Eq": a[1] == b[1], "Ne": a[1] != b[1], "BitAnd": a[1] and b[1], "BitOr": a[1] or b[1]}[op]
            return ("bool", r)
        if op in ("Eq", "Ne"):
            for s, o in ((a, b), (b, a)):
                if s[0] == "slot" and s[2] is None and o[0] == "int":
                    return ("slot", s[1], ("eq" if op == "Eq" else "ne", o[1]))
                if s[0] == "slot" and s[2] is not None and o[0] == "bool":
                    # (x == c) == true
                    pos = o[1] if op == "Eq" else not o[1]
                    if pos:
                        return s
                    return ("slot", s[1], (("ne" if s[2][0] == "eq" else "eq"), s[2][1]))
        if op == "Mul":
            for x in (a, b):
                if x[0] in ("sizeof", "sizemul"):
                    return ("sizemul", x[1])
        if a[0] == "sizeof" and b[0] == "int" and op in ("Eq", "Ne", "Lt", "Gt", "Le", "Ge"):
            return ("guard", ("size_of", a[1], op, b[1]), True)
        return None

    # ---- binding patterns -----------------------------------------------
    def bind(self, pat, v, env):
        if pat is None:
            return
        k = pat.get("k")
        if k == "Bind":
            if v is not None:
                env[pat["v"]] = v
            else:
                env.pop(pat["v"], None)
            if "sub" in pat:
                self.bind(pat["sub"], v, env)
        elif k == "Variant" and pat.get("variant") == "Some" and v is not None and v[0] == "some" and len(pat.get("subs", [])) == 1:
            self.bind(pat["subs"][0]["p"], v[1], env)
        elif k in ("Leaf", "Variant"):
            for s in pat.get("subs", []):
                sub = s["p"]
                if sub.get("k") == "Bind" and pat.get("adt") and "sub" not in sub:
                    env[sub["v"]] = ("patfield", pat["adt"], pat.get("variant"), s["f"])
                else:
                    self.bind(sub, None, env)
        elif k == "Or":
            for p in pat["pats"]:
                self.bind(p, None, env)

    # ---- expressions ----------------------------------------------------
    def block(self, b, env):
        """returns (Ex, val)"""
        env = dict(env)
        return self.stmts(b["stmts"], 0, b.get("e"), env)

    def stmts(self, ss, i, tail, env):
        acc = Ex()
        while i < len(ss):
            s = ss[i]
            if s["k"] == "ExprS":
                e, _ = self.expr(s["e"], env)
                acc = then(acc, e)
                i += 1
                continue
            # LetS
            init = s.get("init")
            if init is None:
                self.bind(s["pat"], None, env)
                i += 1
                continue
            e, v = self.expr(init, env)
            if s.get("else"):
                eb, _ = self.block(s["else"], env)
                eb = eb.copy()
                eb.n = VOID
                e = then(e, either(Ex(), eb))
                if not (v is not None and v[0] == "some"):
                    v = None
            pat = s["pat"]
            if v is not None and v[0] == "slot" and pat.get("k") == "Bind" and ("cell", v[1]) not in env:
                # tag refinement: split over the cells induced by the literals this variable is compared with
                cells = self.cells_for_var(pat["v"], v, ss[i + 1:], tail)
                if cells:
                    alts = None
                    for cell in cells:
                        env2 = dict(env)
                        env2[pat["v"]] = v
                        env2[("cell", v[1])] = cell
                        rest, rv = self.stmts(ss, i + 1, tail, env2)
                        e_c = ex_subst(e, self.slot_setter(v[1], cell))
                        branch = then(e_c, rest)
                        alts = branch if alts is None else either(alts, branch)
                    return then(acc, alts), None
            self.bind(pat, v, env)
            acc = then(acc, e)
            i += 1
        if tail is not None:
            e, v = self.expr(tail, env)
            return then(acc, e), v
        return acc, ("unit",)

    @staticmethod
    def slot_setter(slot, cell):
        def f(sym):
            if isinstance(sym, tuple) and sym[0] == "B" and isinstance(sym[2], tuple) and sym[2][0] == "slot" and sym[2][1] == slot:
                return rx.ev(("B", sym[1], cell, sym[3]))
            return rx.ev(sym)
        return f

    def cells_for_var(self, var, v, rest_stmts, tail):
        """literals that `var` (holding a raw stream value or a comparison of one) is compared against in the rest"""
        lits = set()
        used = False
        nodes = list(rest_stmts) + ([tail] if tail is not None else [])
        for root in nodes:
            for x in walk(root):
                k = x.get("k")
                if k == "Match" and self._is_var(x["e"], var):
                    used = True
                    for a in x["arms"]:
                        self._pat_lits(a["pat"], lits)
                elif k == "Bin" and x["op"] in ("Eq", "Ne"):
                    for s, o in ((x["l"], x["r"]), (x["r"], x["l"])):
                        if self._is_var(s, var):
                            ov = self.val(o, {})
                            if ov and ov[0] == "int":
                                lits.add(ov[1])
                                used = True
                elif k == "If" and self._is_var(x["c"], var):
                    used = True
                elif k == "Un" and x["op"] == "Not" and self._is_var(x["e"], var):
                    used = True
                elif k == "Let" and self._is_var(x["e"], var):
                    used = True
                    self._pat_lits(x["pat"], lits)
        if not used:
            return None
        if v[2] is not None:
            # the variable is a boolean derived from the raw value: raw == c / raw != c
            c = v[2][1]
            return [("in", frozenset([c])), ("notin", frozenset([c]))]
        if not lits:
            return None
        cells = [("in", frozenset([c])) for c in sorted(lits)]
        cells.append(("notin", frozenset(lits)))
        return cells

    @staticmethod
    def _is_var(n, var):
        n = peel(n)
        while isinstance(n, dict) and n.get("k") == "Cast":
            n = peel(n["e"])
        return isinstance(n, dict) and n.get("k") == "Var" and n["v"] == var

    def _pat_lits(self, p, lits):
        k = p.get("k")
        if k == "Const" and "int" in p:
            lits.add(p["int"])
        elif k == "Or":
            for q in p["pats"]:
                self._pat_lits(q, lits)
        elif k == "Range":
            lo, hi = p.get("lo"), p.get("hi")
            if isinstance(lo, int) and isinstance(hi, int) and hi - lo < 64:
                for c in range(lo, hi + (1 if p.get("incl") else 0)):
                    lits.add(c)

    def pat_accepts(self, p, v, env):
        """True / False / None: does pattern p match abstract value v"""
        k = p.get("k")
        if k in ("Wild", "Bind"):
            if k == "Bind" and "sub" in p:
                return self.pat_accepts(p["sub"], v, env)
            return True
        if v is None:
            return None
        if k == "Const" and "int" in p:
            if v[0] == "int":
                return v[1] == p["int"]
            if v[0] == "bool":
                return int(v[1]) == p["int"]
            if v[0] == "slot":
                cell = env.get(("cell", v[1]))
                if cell is None:
                    return None
                if v[2] is None:
                    return self.cell_truth(cell, ("eq", p["int"]))
                t = self.cell_truth(cell, v[2])
                return None if t is None else (int(t) == p["int"])
            return None
        if k == "Or":
            rs = [self.pat_accepts(q, v, env) for q in p["pats"]]
            if any(r is True for r in rs):
                return True
            if all(r is False for r in rs):
                return False
            return None
        if k == "Range":
            lo, hi = p.get("lo"), p.get("hi")
            if v[0] == "int" and isinstance(lo, int) and isinstance(hi, int):
                return lo <= v[1] <= hi if p.get("incl") else lo <= v[1] < hi
            if v[0] == "slot" and v[2] is None and isinstance(lo, int) and isinstance(hi, int):
                cell = env.get(("cell", v[1]))
                if cell and cell[0] == "in":
                    inside = [lo <= c <= hi if p.get("incl") else lo <= c < hi for c in cell[1]]
                    if all(inside):
                        return True
                    if not any(inside):
                        return False
                if cell and cell[0] == "notin" and hi - lo < 64:
                    rng = range(lo, hi + (1 if p.get("incl") else 0))
                    if all(c in cell[1] for c in rng):
                        return False
            return None
        if k == "Variant" and v[0] == "variant":
            return p["variant"] == v[1]
        return None

    def expr(self, n, env):
        """returns (Ex, val)"""
        if n is None:
            return Ex(), None
        k = n["k"]
        if k in ("Lit", "Var", "Const", "ConstBlock", "ConstParam", "Static", "Zst", "Closure"):
            return Ex(), self.val(n, env)
        if k == "Block":
            return self.block(n, env)
        if k in ("Ref", "Deref", "Coerce", "RawRef", "Cast", "Un"):
            e, v = self.expr(n["e"], env)
            vv = self.val(n, env)
            if k in ("Ref", "Deref", "Coerce", "RawRef") or (k == "Cast"):
                return e, (vv if vv is not None else (v if k != "Un" else None))
            # Un: value of a Not over a computed sub-expression
            if vv is None and v is not None and n["op"] == "Not":
                if v[0] == "slot" and v[2] is not None:
                    vv = ("slot", v[1], (("ne" if v[2][0] == "eq" else "eq"), v[2][1]))
                elif v[0] == "guard":
                    vv = ("guard", v[1], not v[2])
                elif v[0] == "bool":
                    vv = ("bool", not v[1])
            return e, vv
        if k == "Field":
            e, _ = self.expr(n["e"], env)
            return e, self.val(n, env)
        if k == "Index":
            e1, _ = self.expr(n["e"], env)
            e2, _ = self.expr(n["i"], env)
            return then(e1, e2), None
        if k == "Bin":
            e1, v1 = self.expr(n["l"], env)
            e2, v2 = self.expr(n["r"], env)
            v = self.val(n, env)
            if v is None:
                v = self.binop(n["op"], v1, v2, env)
            return then(e1, e2), v
        if k == "Logic":
            e1, v1 = self.expr(n["l"], env)
            c1 = self.cond(v1, env)
            e2, v2 = self.expr(n["r"], env)
            c2 = self.cond(v2, env)
            if n["op"] == "And":
                if c1 is False:
                    return e1, ("bool", False)
                if c1 is True:
                    return then(e1, e2), (("bool", c2) if c2 is not None else v2)
            else:
                if c1 is True:
                    return e1, ("bool", True)
                if c1 is False:
                    return then(e1, e2), (("bool", c2) if c2 is not None else v2)
            v = None
            if n["op"] == "And" and c2 is False:
                v = ("bool", False)
            if n["op"] == "Or" and c2 is True:
                v = ("bool", True)
            return then(e1, either(Ex(), e2)), v
        if k in ("Assign", "AssignOp"):
            e2, v2 = self.expr(n["r"], env)
            e1, _ = self.expr(n["l"], env)
            l = peel(n["l"])
            if l.get("k") == "Var":
                if k == "Assign" and v2 is not None:
                    env[l["v"]] = v2
                else:
                    env.pop(l["v"], None)
            return then(e2, e1), ("unit",)
        if k == "If":
            r_ = self.if_(n, env)
            if isinstance(r_, tuple) and len(r_) == 2 and r_[1] is None:
                v_ = self.val(n, env)       # `if let Ok(x) = e { Ok(x) } else { Err(E) }`
                if v_ is not None:
                    return r_[0], v_
            return r_
        if k == "Let":
            e, v = self.expr(n["e"], env)
            acc = self.pat_accepts(n["pat"], v, env)
            self.bind(n["pat"], None, env)
            if acc is None and n["pat"].get("k") == "Variant" and n["pat"].get("adt") == RESULT_ADT:
                # `if let Ok(x) = <result>`: split
                return e, ("letres", n["pat"]["variant"])
            return e, (None if acc is None else ("bool", acc))
        if k == "Match":
            return self.match(n, env)
        if k == "Loop":
            return self.loop(n["body"], n.get("sc"), env)
        if k == "For":
            ei, _ = self.expr(n["iter"], env)
            env2 = dict(env)
            self.bind(n["pat"], None, env2)
            self.kill_assigned(n["body"], env2)
            lp = self.loop(n["body"], n.get("sc"), env2, may_skip=True)[0]
            self.kill_assigned(n["body"], env)
            return then(ei, lp), ("unit",)
        if k == "Break":
            e, _ = self.expr(n.get("e"), env) if n.get("e") else (Ex(), None)
            o = e.copy()
            o.brk = _merge(o.brk, {n["label"]: e.norm()})
            o.n = o.nok = o.nerr = VOID
            return o, None
        if k == "Continue":
            o = void()
            o.cont = {n["label"]: EPS}
            return o, None
        if k == "Return":
            if n.get("e") is None:
                o = void()
                o.rok = EPS
                return o, None
            e, v = self.expr(n["e"], env)
            self.ret_vals.append(v)
            o = e.copy()
            kind = self.result_kind(n["e"])
            if kind == "err":
                o.rerr = alt(o.rerr, e.norm())
            elif kind == "ok":
                o.rok = alt(o.rok, e.norm())
            else:
                o.rok = alt(o.rok, e.n, e.nok)
                o.rerr = alt(o.rerr, e.nerr, e.n if is_result_ty(n["e"].get("ty")) else VOID)
            o.n = o.nok = o.nerr = VOID
            return o, None
        if k == "Try":
            e, v = self.expr(n["e"], env)
            o = e.copy()
            # Ok part continues, Err part returns
            o.rerr = alt(o.rerr, e.nerr, e.n)
            o.n = alt(e.n, e.nok)
            o.nok = o.nerr = VOID
            if v is not None and v[0] == "ok":
                v = v[1]
            return o, v
        if k == "Await" or k == "Yield":
            return self.expr(n["e"], env)
        if k in ("Array", "Tuple"):
            acc = Ex()
            for x in n["es"]:
                e, _ = self.expr(x, env)
                acc = then(acc, e)
            return acc, None
        if k == "Repeat":
            e, _ = self.expr(n["e"], env)
            return e, None
        if k == "Adt":
            acc = Ex()
            self.last_field_val = None
            for f in n["fields"]:
                e, fv_ = self.expr(f["e"], env)
                self.last_field_val = fv_
                acc = then(acc, e)
            if isinstance(n.get("base"), dict):
                e, _ = self.expr(n["base"], env)
                acc = then(acc, e)
            if n["adt"] == RESULT_ADT:
                o = acc.copy()
                p = acc.norm()
                o.n = VOID
                if n["variant"] == "Ok":
                    o.nok, o.nerr = p, VOID
                    fv = None
                    if len(n["fields"]) == 1:
                        fv = self.val(n["fields"][0]["e"], env)
                        if fv is None:
                            fv = self.last_field_val
                    return o, ("ok", fv)
                else:
                    o.nok, o.nerr = VOID, p
                return o, None
            if not n["fields"]:
                return acc, ("variant", n["variant"])
            return acc, None
        if k == "Call":
            return self.call(n, env)
        return Ex(), None

    def result_kind(self, n):
        n = peel_block(n)
        if isinstance(n, dict) and n.get("k") == "Adt" and n["adt"] == RESULT_ADT:
            return "ok" if n["variant"] == "Ok" else "err"
        if isinstance(n, dict) and n.get("k") == "Call" and callee(n) == "core::ops::try_trait::FromResidual::from_residual":
            return "err"
        return None

    def kill_assigned(self, body, env):
        """variables assigned inside a loop body have unknown values after/inside it"""
        for x in walk(body):
            if x.get("k") in ("Assign", "AssignOp"):
                l = peel(x["l"])
                if l.get("k") == "Var":
                    env.pop(l["v"], None)

    def loop(self, body, label, env, may_skip=False):
        env2 = dict(env)
        self.kill_assigned(body, env2)
        b, _ = self.expr(body, env2)
        self.kill_assigned(body, env)
        it = star(alt(b.norm(), b.cont.get(label, VOID) if label else VOID))
        o = Ex(VOID)
        exitp = b.brk.get(label, VOID) if label else VOID
        o.n = seq(it, exitp)
        if may_skip:
            o.n = alt(o.n, it)
        o.rok = seq(it, b.rok)
        o.rerr = seq(it, b.rerr)
        o.div = seq(it, b.div)
        o.brk = {k: seq(it, v) for k, v in b.brk.items() if k != label}
        o.cont = {k: seq(it, v) for k, v in b.cont.items() if k != label}
        return o, None

    def if_(self, n, env):
        ec, vc = self.expr(n["c"], env)
        if vc is not None and vc[0] == "letres":
            # if let Ok(x)/Err(x) = <Result expression>
            want_ok = vc[1] == "Ok"
            et, vt = self.expr(n["t"], dict(env))
            ef, vf = self.expr(n["f"], dict(env)) if n.get("f") else (Ex(), ("unit",))
            p_match = alt(ec.nok if want_ok else ec.nerr, ec.n)
            p_else = alt(ec.nerr if want_ok else ec.nok, ec.n)
            base = ec.copy()
            base.n = base.nok = base.nerr = VOID
            o = either(base, either(prefix(p_match, et), prefix(p_else, ef)))
            return o, None
        c = self.cond(vc, env)
        if c is None and vc is not None and vc[0] == "slot" and ("cell", vc[1]) not in env and vc[2] is not None:
            # the condition itself is a fresh comparison of a stream value: split here
            cst = vc[2][1]
            out = None
            for cell in (("in", frozenset([cst])), ("notin", frozenset([cst]))):
                env2 = dict(env)
                env2[("cell", vc[1])] = cell
                t = self.cell_truth(cell, vc[2])
                ec2 = ex_subst(ec, self.slot_setter(vc[1], cell))
                br, _ = self.expr(n["t"], env2) if t else (self.expr(n["f"], env2) if n.get("f") else (Ex(), None))
                o = then(ec2, br)
                out = o if out is None else either(out, o)
            return out, None
        if c is True:
            e, v = self.expr(n["t"], env)
            return then(ec, e), v
        if c is False:
            if n.get("f"):
                e, v = self.expr(n["f"], env)
                return then(ec, e), v
            return ec, ("unit",)
        envt, envf = dict(env), dict(env)
        et, vt = self.expr(n["t"], envt)
        ef, vf = self.expr(n["f"], envf) if n.get("f") else (Ex(), ("unit",))
        if self.branch_hook is not None:
            hk = self.branch_hook(self, n["c"], vc, env)
            if hk is not None:
                et, ef = prefix(hk[0], et), prefix(hk[1], ef)
        # variables assigned in either branch become unknown unless both agree
        for key in set(envt) | set(envf):
            if envt.get(key) != envf.get(key):
                env.pop(key, None)
            else:
                env[key] = envt[key]
        v = vt if vt == vf else None
        if v is None and vt and vf and vt[0] in ("int", "ints") and vf[0] in ("int", "ints"):
            sa = vt[1] if vt[0] == "ints" else frozenset([vt[1]])
            sb = vf[1] if vf[0] == "ints" else frozenset([vf[1]])
            v = ("ints", sa | sb)
        return then(ec, either(et, ef)), v

    def match(self, n, env):
        es, vs = self.expr(n["e"], env)
        arms = n["arms"]
        # Result splitting
        is_res = is_result_ty(n["e"].get("ty"))
        # fresh stream value matched directly: split over the arms' literals
        if vs is not None and vs[0] == "slot" and ("cell", vs[1]) not in env:
            lits = set()
            for a in arms:
                self._pat_lits(a["pat"], lits)
            if vs[2] is not None:
                cells = [("in", frozenset([vs[2][1]])), ("notin", frozenset([vs[2][1]]))]
            elif lits:
                cells = [("in", frozenset([c])) for c in sorted(lits)] + [("notin", frozenset(lits))]
            else:
                cells = None
            if cells:
                out = None
                for cell in cells:
                    env2 = dict(env)
                    env2[("cell", vs[1])] = cell
                    es2 = ex_subst(es, self.slot_setter(vs[1], cell))
                    body, _ = self.arms(arms, vs, env2, is_res, es2)
                    out = body if out is None else either(out, body)
                return out, None
        return self.arms(arms, vs, env, is_res, es)

    def arms(self, arms, vs, env, is_res, es):
        out = None
        vals = []
        base = es.copy()
        base.n = base.nok = base.nerr = VOID
        p_all = es.norm()
        for a in arms:
            acc = self.pat_accepts(a["pat"], vs, env)
            if acc is False:
                continue
            env2 = dict(env)
            self.bind(a["pat"], None, env2)
            p = p_all
            if is_res:
                var = self.res_variant(a["pat"])
                if var == "Ok":
                    p = alt(es.n, es.nok)
                elif var == "Err":
                    p = alt(es.n, es.nerr)
            body = Ex()
            if a.get("guard"):
                eg, vg = self.expr(a["guard"], env2)
                cg = self.cond(vg, env2)
                if cg is False:
                    continue
                body = eg
                if cg is None:
                    acc = None
            eb, vb = self.expr(a["body"], env2)
            body = then(body, eb)
            if eb.norm() != VOID:
                vals.append(vb)
            br = prefix(p, body)
            out = br if out is None else either(out, br)
            if acc is True:
                break
        if out is None:
            out = void()
        v = vals[0] if vals and all(x == vals[0] for x in vals) else None
        if v is None and vals and all(x is not None and x[0] in ("int", "ints") for x in vals):
            u = frozenset()
            for x in vals:
                u = u | (x[1] if x[0] == "ints" else frozenset([x[1]]))
            v = ("ints", u)
        return either(base, out), v

    @staticmethod
    def res_variant(p):
        if p.get("k") == "Variant" and p.get("adt") == RESULT_ADT:
            return p["variant"]
        return None

    # ---- calls ------------------------------------------------------------
    def call(self, n, env):
        # arguments first (left to right)
        acc = Ex()
        argvals = []
        if isinstance(n.get("fun"), dict):
            e, _ = self.expr(n["fun"], env)
            acc = then(acc, e)
        for a in n["args"]:
            e, v = self.expr(a, env)
            acc = then(acc, e)
            argvals.append(v)
        c = callee(n)
        if c in PANICS:
            o = acc.copy()
            o.div = alt(o.div, acc.norm())
            o.n = o.nok = o.nerr = VOID
            return o, None
        r = self.classifier(self, n, argvals, env)
        if r is not None:
            e, v = r
            return then(acc, e), v
        v = self.val(n, env)
        if v is not None:
            return acc, v
        # pure value plumbing on Results keeps the split
        if c in RESULT_COMBINATORS and n["args"]:
            first, _ = self.expr(n["args"][0], env)
            # closures passed to combinators: their events happen (at most once) on the respective path
            extra = Ex()
            for a in n["args"][1:]:
                cl = peel(a)
                if cl.get("k") == "Closure":
                    ce = self.closure_events(cl, env)
                    extra = then(extra, either(Ex(), ce))
            o = first.copy()
            if extra.norm() != EPS or extra.rerr != VOID:
                o = then(first, extra)
                o.nok, o.nerr = seq(first.nok, extra.norm()), seq(first.nerr, extra.norm())
                o.n = seq(first.n, extra.norm())
            if c in ("core::result::Result::ok", "core::result::Result::err", "core::result::Result::unwrap_or",
                     "core::result::Result::unwrap_or_default", "core::result::Result::is_ok",
                     "core::result::Result::is_err", "core::result::Result::unwrap_or_else"):
                o2 = o.copy()
                o2.n = o.norm()
                o2.nok = o2.nerr = VOID
                return o2, None
            if c in ("core::result::Result::unwrap", "core::result::Result::expect"):
                o2 = o.copy()
                o2.n = alt(o.n, o.nok)
                o2.div = alt(o.div, o.nerr, o.n)
                o2.nok = o2.nerr = VOID
                return o2, None
            return o, None
        # inline local helpers
        target = (n.get("res") or {}).get("fn") or n.get("fn")
        f = self.facts.fns.get(target) if target else None
        if f is not None and self.inline_ok(target) and len(self.stack) < self.max_depth and target not in self.stack:
            return then(acc, self.inline(f, n, argvals, env)[0]), self.last_inline_val
        # closures called directly
        if n.get("fn") in CALL_TRAITS and n["args"]:
            cl = peel(n["args"][0])
            if cl.get("k") == "Closure":
                return then(acc, self.closure_events(cl, env)), None
            if argvals and argvals[0] is not None and argvals[0][0] == "closure":
                return then(acc, self.closure_events({"id": argvals[0][1]}, env)), None
        # short-circuiting iteration: `iter.try_for_each(|x| { a(x)?; b(x) })` runs the closure's Ok path any number of times and stops
        # at the first Err, which becomes the Err of the whole call
        if c and c.rsplit("::", 1)[-1] in ("try_for_each", "try_fold") and n["args"]:
            cl = peel(n["args"][-1])
            cf = self.facts.fns.get(cl.get("id")) if isinstance(cl, dict) and cl.get("k") == "Closure" else None
            if cf is not None and is_result_ty(cf.get("ret") or (cf.get("body") or {}).get("ty")):
                first = Ex()
                for a in n["args"][:-1]:
                    e_, _ = self.expr(a, env)
                    first = then(first, e_)
                env2 = dict(env)
                for p_ in cf["params"]:
                    if p_.get("pat"):
                        self.bind(p_["pat"], None, env2)
                self.stack.append(cl["id"])
                try:
                    ce, _ = self.expr(cf["body"], env2)
                finally:
                    self.stack.pop()
                ok_l = alt(ce.n, ce.nok, ce.rok)
                err_l = alt(ce.n, ce.nerr, ce.rerr)
                x = Ex()
                x.n = VOID
                x.nok = star(ok_l)
                x.nerr = seq(star(ok_l), err_l)
                x.div = seq(star(ok_l), ce.div)
                return then(then(acc, first), x), None
        # unknown callee: closures passed to it may run any number of times
        extra = Ex()
        for a in n["args"]:
            cl = peel(a)
            if isinstance(cl, dict) and cl.get("k") == "Closure":
                ce = self.closure_events(cl, env)
                if ce.norm() != EPS or ce.rerr != VOID or ce.div != VOID:
                    rep = star(alt(ce.norm(), ce.rok, ce.rerr))
                    x = Ex(rep)
                    x.div = seq(rep, ce.div)
                    extra = then(extra, x)
        if target:
            self.unknown_calls.add(c)
        return then(acc, extra), None

    last_inline_val = None
    last_field_val = None

    def closure_events(self, cl, env):
        f = self.facts.fns.get(cl["id"])
        if f is None:
            return Ex()
        env2 = dict(env)
        for p in f["params"]:
            if p.get("pat"):
                self.bind(p["pat"], None, env2)
        self.stack.append(cl["id"])
        try:
            e, v = self.expr(f["body"], env2)
        finally:
            self.stack.pop()
        # a `return`/`?` inside a closure leaves the closure, not the enclosing fn
        o = Ex(alt(e.n, e.nok, e.nerr, e.rok, e.rerr))
        o.div = e.div
        return o

    def inline(self, f, n, argvals, env):
        env2 = {"$ver": env.get("$ver"), "$guards": env.get("$guards", {})}
        for key, val in env.items():
            if isinstance(key, tuple) and key[0] == "cell":
                env2[key] = val
        # generic substitution for the callee frame
        targs = (n.get("res") or {}).get("targs") or n.get("targs") or []
        gens = f.get("generics", [])
        tsub = {}
        outer = env.get("$tsub", {})
        for g, t in zip(gens, targs):
            t2 = subst_ty(t, outer)
            if g != t2:
                tsub[g] = t2
        env2["$tsub"] = tsub
        ps = f["params"]
        for p, v in zip(ps, argvals):
            if p.get("pat"):
                self.bind(p["pat"], v, env2)
        self.stack.append(f["id"])
        try:
            e, v = self.expr(f["body"], env2)
        finally:
            self.stack.pop()
        for key, val in env2.items():
            if isinstance(key, tuple) and key[0] == "cell":
                env[key] = val
        o = Ex(VOID)
        o.div = e.div
        if is_result_ty(f.get("ret")):
            o.n = e.n
            o.nok = alt(e.nok, e.rok)
            o.nerr = alt(e.nerr, e.rerr)
        else:
            o.n = alt(e.n, e.nok, e.nerr, e.rok, e.rerr)
        self.last_inline_val = v
        return o, v

    # ---- entry -------------------------------------------------------------
    def function(self, f, env=None, argvals=None):
        """Ex of a whole function body; accept language = rok ∪ nok ∪ n"""
        env = dict(env or {})
        env.setdefault("$guards", {})
        env.setdefault("$tsub", {})
        if argvals:
            for p, v in zip(f["params"], argvals):
                if p.get("pat"):
                    self.bind(p["pat"], v, env)
        self.stack = [f["id"]]
        e, v = self.expr(f["body"], env)
        return e

    @staticmethod
    def accept(e):
        return alt(e.n, e.nok, e.rok)

    @staticmethod
    def reject(e):
        return alt(e.nerr, e.rerr)


BYTES_PASSTHROUGH_Q = {"str::as_bytes", "String::into_bytes", "ToString::to_string", "String::as_bytes", "ToOwned::to_owned",
                       "Into::into", "From::from", "String::as_str", "Vec::as_slice", "Deref::deref", "AsRef::as_ref",
                       "str::to_string", "str::to_owned", "String::from", "Vec::deref", "String::deref", "str::into"}
BYTES_PASSTHROUGH = {q.split("::")[-1] for q in BYTES_PASSTHROUGH_Q}

RESULT_COMBINATORS = {
    "core::result::Result::map_err", "core::result::Result::map", "core::result::Result::and_then",
    "core::result::Result::or_else", "core::result::Result::ok", "core::result::Result::err",
    "core::result::Result::unwrap", "core::result::Result::expect", "core::result::Result::unwrap_or",
    "core::result::Result::unwrap_or_default", "core::result::Result::unwrap_or_else",
    "core::result::Result::is_ok", "core::result::Result::is_err", "core::convert::Into::into",
    "core::convert::From::from",
}

CALL_TRAITS = {"core::ops::function::FnOnce::call_once", "core::ops::function::FnMut::call_mut",
               "core::ops::function::Fn::call"}
