"""Wire events: the classifier that turns resolved calls into byte-level events, and helpers to
compute the wire language of a function under every version class / guard assignment."""
import itertools
import re

from . import rx
from .ir import callee, peel
from .rx import ANY, EPS, VOID, alt, ev, seq, star
from .shape import Analyzer, Ex, subst_ty

PRIM_W = {"u8": 1, "i8": 1, "u16": 2, "i16": 2, "u32": 4, "i32": 4, "u64": 8, "i64": 8, "u128": 16, "i128": 16,
          "f32": 4, "f64": 8, "usize": 8, "isize": 8, "bool": 1, "char": 4}

BO_W = {"u8": 1, "i8": 1, "u16": 2, "i16": 2, "u24": 3, "i24": 3, "u32": 4, "i32": 4, "u48": 6, "i48": 6,
        "u64": 8, "i64": 8, "u128": 16, "i128": 16, "f32": 4, "f64": 8}


def endian_of(n):
    for t in n.get("targs", []):
        if t in ("byteorder::LittleEndian",):
            return "LE"
        if t in ("byteorder::BigEndian", "byteorder::NetworkEndian"):
            return "BE"
        if t == "byteorder::NativeEndian":
            return "NE"
    return "LE"


def arr_len(ty):
    m = re.match(r"^(?:&(?:'\w+ )?(?:mut )?)*\[u8; (\d+)\]$", ty or "")
    return int(m.group(1)) if m else None


def cell_of(v):
    if v is None:
        return ANY
    if v[0] == "int":
        return ("in", frozenset([v[1]]))
    if v[0] == "bool":
        return ("in", frozenset([int(v[1])]))
    if v[0] == "ints":
        return ("in", frozenset(v[1]))
    return ANY


_PRIM_HELPER = re.compile(r"^savefile::(Serializer::write|Deserializer::read)_(u8|i8|u16|i16|u32|i32|u64|i64|u128|i128|usize|isize|f32|f64)$")
_IDENTITY_MEMO = {}


def _helper_is_identity(facts, c):
    import os
    if os.environ.get("SFV_NO_ATOMIC_PRIMS"):
        return False        # development aid: compare against the fully inlined languages
    key = (id(facts), c)
    if key not in _IDENTITY_MEMO:
        from . import bitprov
        ok = False
        kind, name = c.split("::")[1], c.rsplit("::", 1)[-1]
        f = next((g for gid, g in facts.fns.items() if gid.startswith(f"savefile::{kind}<") and gid.endswith("::" + name) and g.get("body")), None)
        if f is not None:
            try:
                be = bitprov.BitEval(facts)
                prim = name.split("_", 1)[1]
                ok = (be.writer(f, prim) if name.startswith("write_") else be.reader(f, prim))[0]
            except bitprov.Unknown:
                ok = False
            except Exception:
                ok = False
        _IDENTITY_MEMO[key] = ok
    return _IDENTITY_MEMO[key]


def wire_classifier(an, n, argvals, env):
    c = callee(n)
    if c is None:
        return None
    tsub = env.get("$tsub", {})
    if c in ("savefile::Serialize::serialize", "savefile::Deserialize::deserialize"):
        t = subst_ty(n["self_ty"], tsub)
        return Ex(ev(("N", t))), None
    m = _PRIM_HELPER.match(c)
    if m and _helper_is_identity(an.facts, c):
        # a primitive helper whose body rule W11 proves (bit provenance) to move exactly the value's little-endian bytes is one
        # event of its nominal width, however the body composes it (a u128 written as two u64 halves is still 16 bytes LE)
        w = PRIM_W[m.group(2)]
        if m.group(1).endswith("write"):
            return Ex(ev(("B", w, cell_of(argvals[1] if len(argvals) > 1 else None), "LE"))), None
        s_ = an.new_slot(w)
        # (a count read through read_usize / read_isize is not tracked as a tag value: `if n == 0 { return empty }` next to a bulk
        # read of n elements is one language, not two)
        return Ex(ev(("B", w, ("slot", s_), "LE"))), (None if m.group(2) in ("usize", "isize") else ("slot", s_, None))
    if c == "savefile::Serializer::raw_write_region" and len(n["args"]) >= 4:
        def fld(a, v):
            a = peel(a)
            if a.get("k") == "Field":
                return a["f"]
            if v is not None and v[0] == "patfield":
                return v[3]
            return None
        full = subst_ty(n["targs"][1], tsub) if len(n.get("targs", [])) > 1 else "?"
        variant = None
        for v in argvals[2:4]:
            if v is not None and v[0] == "patfield":
                variant = v[2]
        return Ex(ev(("REGION", full, variant, fld(n["args"][2], argvals[2]), fld(n["args"][3], argvals[3])))), None
    if c in ("savefile::Serializer::write_raw_ptr", "savefile::Deserializer::read_raw_ptr", "savefile::Deserializer::read_raw_ptr_mut"):
        t = subst_ty(n["targs"][1], tsub) if len(n.get("targs", [])) > 1 else "?"
        return Ex(ev(("PTR", t))), None
    if c in ("savefile::Serializer::write_raw_ptr_size", "savefile::Deserializer::read_raw_ptr_size"):
        return Ex(ev(("PTRLEN",))), None
    tr = n.get("trait")
    name = c.rsplit("::", 1)[-1]
    if tr == "byteorder::io::WriteBytesExt" and name.startswith("write_"):
        w = BO_W.get(name[6:])
        if w is None:
            return None
        e = "LE" if w == 1 else endian_of(n)
        v = argvals[1] if len(argvals) > 1 else None
        return Ex(ev(("B", w, cell_of(v), e))), None
    if tr == "byteorder::io::ReadBytesExt" and name.startswith("read_"):
        w = BO_W.get(name[5:])
        if w is None:
            return None
        e = "LE" if w == 1 else endian_of(n)
        s = an.new_slot(w)
        return Ex(ev(("B", w, ("slot", s), e))), ("slot", s, None)
    if c == "std::io::Write::write_all" or c == "std::io::Write::write":
        if len(n["args"]) < 2:
            return None
        a = peel(n["args"][1])
        v = argvals[1]
        bare = c.endswith("::write")
        if a.get("k") == "Array" and len(a["es"]) == 1:
            return Ex(ev(("B", 1, cell_of(an.val(a["es"][0], env)), "LE"))), None
        if a.get("k") == "Call" and callee(a) in ("core::num::to_le_bytes", "core::num::to_be_bytes", "core::num::to_ne_bytes") \
                or (a.get("k") == "Call" and (a.get("fn") or "").split("::")[-1] in ("to_le_bytes", "to_be_bytes", "to_ne_bytes")):
            meth = a["fn"].split("::")[-1]
            rt = a["args"][0].get("ty", "").lstrip("&")
            w = PRIM_W.get(rt) or arr_len(a.get("ty"))
            if w:
                return Ex(ev(("B", w, ANY, {"to_le_bytes": "LE", "to_be_bytes": "BE", "to_ne_bytes": "NE"}[meth]))), None
        if v is not None and v[0] == "bytes":
            return Ex(ev(("A", len(v[1]), v[1]))), None
        if v is not None and v[0] == "rawslice" and v[1]:
            t = subst_ty(v[1], tsub)
            return Ex(ev(("RAW1" if v[2] else "BULK", t))), None
        n_ = arr_len(n["args"][1].get("ty")) or arr_len(a.get("ty"))
        if n_ is not None:
            return Ex(ev(("A", n_, None))), None
        return Ex(ev(("BYTES",) if not bare else ("BYTES-bare-write",))), None
    if c == "std::io::Read::read_exact":
        a = peel(n["args"][1])
        v = argvals[1]
        if v is not None and v[0] == "rawslice" and v[1]:
            t = subst_ty(v[1], tsub)
            return Ex(ev(("RAW1" if v[2] else "BULK", t))), None
        n_ = arr_len(n["args"][1].get("ty")) or arr_len(a.get("ty"))
        if n_ == 1 and a.get("k") == "Var":
            s = an.new_slot(1)
            env[a["v"]] = ("arr1", ("slot", s, None))
            return Ex(ev(("B", 1, ("slot", s), "LE"))), None
        if n_ is not None:
            return Ex(ev(("A", n_, None))), None
        return Ex(ev(("BYTES",))), None
    if c in ("std::io::Read::read", "std::io::Read::read_to_end", "std::io::Read::read_to_string"):
        return Ex(ev(("BYTES-inexact-read",))), None
    if c in ("byteorder::ByteOrder::read_u64", "byteorder::ByteOrder::read_u32", "byteorder::ByteOrder::read_u16"):
        return None
    return None


def finalize(r):
    """cells of stream values that were never compared become ANY"""
    def f(sym):
        if isinstance(sym, tuple) and sym[0] == "B" and isinstance(sym[2], tuple) and sym[2][0] == "slot":
            return ev(("B", sym[1], ANY, sym[3]))
        return ev(sym)
    return rx.subst(r, f)


def canon_generics(self_ty, generics):
    """rename the impl's generic parameters by order of first appearance in the self type"""
    order = []
    for m in re.finditer(r"[A-Za-z_][A-Za-z0-9_]*", self_ty):
        w = m.group(0)
        if w in generics and w not in order:
            order.append(w)
    for g in generics:
        if g not in order:
            order.append(g)
    return {g: f"${i}" for i, g in enumerate(order)}


def canon_sym_type(t):
    """documented owned-form equivalences: <X as ToOwned>::Owned is encoded like X"""
    m = re.match(r"^<(.*) as (?:std|alloc)::borrow::ToOwned>::Owned$", t)
    if m:
        return m.group(1)
    return t


class ImplIndex:
    """finds the Serialize / Deserialize impl applying to a concrete type string"""

    def __init__(self, facts):
        from . import tys
        self.tys = tys
        self.by_trait = {"savefile::Serialize": [], "savefile::Deserialize": []}
        for f in facts.fns.values():
            im = f.get("impl")
            if not im or "~" in f["id"]:
                continue
            tr = im.get("trait")
            if tr in self.by_trait and f.get("name") in ("serialize", "deserialize"):
                self.by_trait[tr].append((tys.parse(im["self_ty"]), set(im["generics"]), f))

    def find(self, trait, type_string):
        tys = self.tys
        conc = tys.parse(type_string)
        best = None
        for pat, gens, f in self.by_trait[trait]:
            if pat[0] == "path" and not pat[2] and pat[1] in gens:
                continue  # blanket impl
            b = tys.unify(pat, conc, gens, {})
            if b is not None:
                score = len(tys.show(pat))
                if best is None or score > best[0]:
                    best = (score, f, {g: tys.show(t) for g, t in b.items()})
        if best is None:
            return None
        return best[1], best[2]


class WireAnalysis:
    """wire language of one function for every (version class, guard assignment)"""

    def __init__(self, facts, classifier=wire_classifier, inline=None):
        self.facts = facts
        self.classifier = classifier
        self.inline = inline or (lambda fid: True)

    def probe(self, fns, tsubs=None):
        """collect the version literals and opaque guards of a group of sibling functions"""
        lits, guards = set(), set()
        for i, f in enumerate(fns):
            an = Analyzer(self.facts, self.classifier, self.inline)
            env = {"$tsub": (tsubs[i] if tsubs else {})}
            an.function(f, env)
            lits |= an.ver_literals
            guards |= an.guards_seen
        return lits, guards

    @staticmethod
    def version_classes(lits):
        vs = {0}
        for l in lits:
            for d in (-1, 0, 1):
                if l + d >= 0:
                    vs.add(l + d)
        return sorted(vs)

    @staticmethod
    def guard_assignments(guards, cap=5):
        gs = sorted(guards, key=repr)
        if not gs:
            return [{}]
        if len(gs) <= cap:
            return [dict(zip(gs, bits)) for bits in itertools.product([False, True], repeat=len(gs))]
        out = []
        for g in gs:
            out.append({g: True})
            out.append({g: False})
        return out

    def lang(self, f, ver, guards, tsub=None, argvals=None, expand=True):
        an = Analyzer(self.facts, self.classifier, self.inline)
        env = {"$ver": ver, "$guards": guards, "$tsub": tsub or {}}
        e = an.function(f, env, argvals)
        acc = canon(finalize(an.accept(e)))
        if expand:
            acc = expand_regions(acc, self.facts)
        return acc, canon(finalize(an.reject(e))), canon(finalize(e.div)), an

    def index(self):
        if not hasattr(self, "_index"):
            self._index = ImplIndex(self.facts)
        return self._index

    def expand(self, r, which, side, ver, guards, stack=()):
        """replace the N(X) symbols in `which` by the wire language of X's own impl (same environment)"""
        trait = "savefile::Serialize" if side == "w" else "savefile::Deserialize"
        cache = {}

        def f(sym):
            if isinstance(sym, tuple) and sym[0] == "N" and sym[1] in which and sym[1] not in stack:
                if sym[1] not in cache:
                    hit = self.index().find(trait, sym[1])
                    if hit is None:
                        cache[sym[1]] = ev(sym)
                    else:
                        fn, tsub = hit
                        acc, _, _, _ = self.lang(fn, ver, guards, tsub)
                        cache[sym[1]] = acc
                return cache[sym[1]]
            return ev(sym)
        return rx.subst(r, f)

    def _size(self, r):
        k = r[0]
        if k in ("seq", "alt"):
            return 1 + sum(self._size(x) for x in r[1])
        if k == "star":
            return 1 + self._size(r[1])
        return 1

    def _nsyms(self, r):
        return {s[1] for s in rx.symbols(r) if isinstance(s, tuple) and s[0] == "N"}

    def _unwrap_wrappers(self, r, which, side, ver, guards):
        """replace one-sided N(X) whose own language is exactly one nested value N(Y) (Box, Rc, Cell, ...)"""
        changed = True
        rounds = 0
        while changed and rounds < 6:
            changed = False
            rounds += 1
            trait = "savefile::Serialize" if side == "w" else "savefile::Deserialize"
            rep = {}
            for x in sorted(which & self._nsyms(r)):
                hit = self.index().find(trait, x)
                if hit is None:
                    continue
                fn, tsub = hit
                acc, _, _, _ = self.lang(fn, ver, guards, tsub)
                if acc[0] == "ev" and isinstance(acc[1], tuple) and acc[1][0] == "N" and acc[1][1] != x:
                    rep[x] = acc
            if rep:
                r = rx.subst(r, lambda s: rep[s[1]] if isinstance(s, tuple) and s[0] == "N" and s[1] in rep else ev(s))
                which = (which - set(rep)) | {v[1][1] for v in rep.values()}
                changed = True
        return r

    def prim_lang(self, x, side, ver, guards, stack=()):
        """wire language of type x if it bottoms out in byte events only (and is small), else None"""
        memo = self.__dict__.setdefault("_prim_memo", {})
        key = (x, side, ver, tuple(sorted((repr(k), v) for k, v in guards.items())))
        if key in memo:
            return memo[key]
        if "$" in x or x in stack or len(stack) > 4:
            return None
        trait = "savefile::Serialize" if side == "w" else "savefile::Deserialize"
        hit = self.index().find(trait, x)
        res = None
        if hit is not None:
            fn, tsub = hit
            acc, _, _, _ = self.lang(fn, ver, guards, tsub)
            ok = True
            rep = {}
            for y in self._nsyms(acc):
                sub = self.prim_lang(y, side, ver, guards, stack + (x,))
                if sub is None:
                    ok = False
                    break
                rep[y] = sub
            if ok:
                acc = rx.subst(acc, lambda s: rep[s[1]] if isinstance(s, tuple) and s[0] == "N" else ev(s))
                if self._size(acc) <= 24:
                    res = acc
        memo[key] = res
        return res

    def normalise(self, r, side, ver, guards):
        r = self._unwrap_wrappers(r, self._nsyms(r), side, ver, guards)
        rep = {}
        for x in self._nsyms(r):
            p = self.prim_lang(x, side, ver, guards)
            if p is not None:
                rep[x] = p
        if rep:
            r = rx.subst(r, lambda s: rep[s[1]] if isinstance(s, tuple) and s[0] == "N" and s[1] in rep else ev(s))
        return r

    def contains_modulo_expansion(self, lw, lr, ver, guards, rounds=8, size_cap=4000):
        """L(lw) ⊆ L(lr), expanding nested-value symbols that occur on one side only (wrappers first)"""
        word = None
        ok = None
        for _ in range(rounds):
            # phase 0: canonicalise transparent wrappers on both sides
            lw = self.normalise(lw, "w", ver, guards)
            lr = self.normalise(lr, "r", ver, guards)
            a, b = rx.minterm_expand([lw, lr])
            ok, word = rx.contains(a, b)
            if ok is True:
                return True, None, lw, lr
            nw, nr = self._nsyms(lw), self._nsyms(lr)
            ow, orr = nw - nr, nr - nw
            if not ow and not orr:
                return ok, word, lw, lr
            # phase 1: transparent wrappers
            lw2 = self._unwrap_wrappers(lw, ow, "w", ver, guards) if ow else lw
            lr2 = self._unwrap_wrappers(lr, orr, "r", ver, guards) if orr else lr
            if lw2 != lw or lr2 != lr:
                lw, lr = lw2, lr2
                continue
            # phase 2: one level of structural expansion of one-sided symbols; a symbol whose expansion
            # mentions a symbol that is one-sided on the *other* side goes first (it may be what hides it)
            def reach(x, side):
                e = self.normalise(self.expand(rx.ev(("N", x)), {x}, side, ver, guards), side, ver, guards)
                return self._nsyms(e)
            pw = {x for x in ow if reach(x, "w") & orr}
            pr = {x for x in orr if reach(x, "r") & ow}
            if pw or pr:
                ow2, or2 = pw, pr
            else:
                ow2, or2 = ow, orr
            lw2 = self.expand(lw, ow2, "w", ver, guards) if ow2 else lw
            lr2 = self.expand(lr, or2, "r", ver, guards) if or2 else lr
            if (lw2 == lw and lr2 == lr) or self._size(lw2) > size_cap or self._size(lr2) > size_cap:
                return ok, word, lw, lr
            lw, lr = lw2, lr2
        a, b = rx.minterm_expand([lw, lr])
        ok, word = rx.contains(a, b)
        return ok, word, lw, lr


def expand_regions(r, facts):
    """REGION(T, variant, f1, f2): the raw bytes of fields f1..f2 of T = their encodings in declaration order
    (that the memory really looks like that is the Packed decision's obligation: rules P2/P3)"""
    def f(sym):
        if isinstance(sym, tuple) and sym[0] == "REGION":
            _, full, variant, f1, f2 = sym
            from . import tys as _t
            head = _t.path_head(full) or full
            adt = facts.adts.get(head)
            if adt is None or f1 is None or f2 is None:
                return ev(sym)
            vs = adt["variants"]
            vr = vs[0] if variant is None else next((v for v in vs if v["name"] == variant), None)
            if vr is None:
                return ev(sym)
            names = [x["name"] for x in vr["fields"]]
            if f1 not in names or f2 not in names:
                return ev(sym)
            i, j = names.index(f1), names.index(f2)
            # zero-sized fields (Removed / AbiRemoved / PhantomData / unit) contribute no bytes to a memory region
            lay = facts.layouts.get(full) or {}
            lfields = lay.get("fields")
            if variant is not None:
                lfields = next((v.get("fields") for v in lay.get("variants", []) if v["name"] == variant), None)
            zero = {lf["name"] for lf in (lfields or []) if lf.get("size") == 0}
            conc = {lf["name"]: lf["ty"] for lf in (lfields or [])}   # concrete field types of a generic instantiation
            return seq(*[ev(("N", conc.get(x["name"], x["ty"]))) for x in vr["fields"][i:j + 1] if x["name"] not in zero])
        return ev(sym)
    return rx.subst(r, f)


def canon(r):
    def f(sym):
        if isinstance(sym, tuple) and sym[0] == "N":
            return ev(("N", canon_sym_type(sym[1])))
        return ev(sym)
    return rx.subst(r, f)


class _Unused:
    pass
