"""Regular expressions over event symbols, NFA construction, language containment
with shortest counter-example, and minterm expansion of constrained byte events.

Regexes are hash-consed tuples:
  VOID, EPS, ('ev', sym), ('seq', (r1, r2, ...)), ('alt', frozenset{...}), ('star', r)
"""
from collections import deque

VOID = ("void",)
EPS = ("eps",)


def ev(sym):
    return ("ev", sym)


def seq(*rs):
    out = []
    for r in rs:
        if r == VOID:
            return VOID
        if r == EPS:
            continue
        if r[0] == "seq":
            out.extend(r[1])
        else:
            out.append(r)
    if not out:
        return EPS
    if len(out) == 1:
        return out[0]
    return ("seq", tuple(out))


def alt(*rs):
    s = set()
    for r in rs:
        if r == VOID:
            continue
        if r[0] == "alt":
            s |= r[1]
        else:
            s.add(r)
    if not s:
        return VOID
    if len(s) == 1:
        return next(iter(s))
    return ("alt", frozenset(s))


def star(r):
    if r in (VOID, EPS):
        return EPS
    if r[0] == "star":
        return r
    return ("star", r)


def opt(r):
    return alt(EPS, r)


def subst(r, f):
    """maps every event symbol through f (f returns a regex)"""
    k = r[0]
    if k == "ev":
        return f(r[1])
    if k == "seq":
        return seq(*[subst(x, f) for x in r[1]])
    if k == "alt":
        return alt(*[subst(x, f) for x in r[1]])
    if k == "star":
        return star(subst(r[1], f))
    return r


def symbols(r, acc=None):
    if acc is None:
        acc = set()
    k = r[0]
    if k == "ev":
        acc.add(r[1])
    elif k == "seq":
        for x in r[1]:
            symbols(x, acc)
    elif k == "alt":
        for x in r[1]:
            symbols(x, acc)
    elif k == "star":
        symbols(r[1], acc)
    return acc


def _sortkey(r):
    return show(r)


def show_sym(s):
    if isinstance(s, tuple):
        if s[0] == "B":
            w = s[1]
            c = s[2] if len(s) > 2 else None
            e = s[3] if len(s) > 3 else "LE"
            t = f"B{w}" + ("" if e == "LE" else e)
            if c is None or c == ("notin", frozenset()):
                return t
            if c[0] == "in":
                return t + "{=" + "|".join(str(x) for x in sorted(c[1])) + "}"
            if c[0] == "notin":
                return t + "{!=" + "|".join(str(x) for x in sorted(c[1])) + "}"
            return t + "{" + str(c) + "}"
        if s[0] == "N":
            return f"N({s[1]})"
        return s[0] + "(" + ",".join(str(x) for x in s[1:]) + ")"
    return str(s)


def show(r):
    k = r[0]
    if k == "void":
        return "∅"
    if k == "eps":
        return "ε"
    if k == "ev":
        return show_sym(r[1])
    if k == "seq":
        return " ".join(show(x) for x in r[1])
    if k == "alt":
        parts = sorted(show(x) for x in r[1])
        return "(" + " | ".join(parts) + ")"
    if k == "star":
        return "[" + show(r[1]) + "]*"
    return "?"


# ---------------------------------------------------------------------------
# NFA (Thompson construction), epsilon closure, containment

class NFA:
    def __init__(self):
        self.eps = []    # state -> set of states
        self.tr = []     # state -> list of (sym, state)
        self.start = 0
        self.final = 0

    def new(self):
        self.eps.append(set())
        self.tr.append([])
        return len(self.eps) - 1


def to_nfa(r):
    n = NFA()

    def build(r):
        k = r[0]
        s = n.new()
        f = n.new()
        if k == "void":
            pass
        elif k == "eps":
            n.eps[s].add(f)
        elif k == "ev":
            n.tr[s].append((r[1], f))
        elif k == "seq":
            cur = s
            for x in r[1]:
                a, b = build(x)
                n.eps[cur].add(a)
                cur = b
            n.eps[cur].add(f)
        elif k == "alt":
            for x in r[1]:
                a, b = build(x)
                n.eps[s].add(a)
                n.eps[b].add(f)
        elif k == "star":
            a, b = build(r[1])
            n.eps[s].add(a)
            n.eps[s].add(f)
            n.eps[b].add(a)
            n.eps[b].add(f)
        return s, f

    n.start, n.final = build(r)
    return n


def _closure(n, states):
    out = set(states)
    stack = list(states)
    while stack:
        s = stack.pop()
        for t in n.eps[s]:
            if t not in out:
                out.add(t)
                stack.append(t)
    return frozenset(out)


def _step(n, S, sym):
    nxt = set()
    for s in S:
        for (y, t) in n.tr[s]:
            if y == sym:
                nxt.add(t)
    return _closure(n, nxt)


def contains(a, b, limit=200000):
    """L(a) ⊆ L(b)?  returns (True, None) or (False, shortest word of a not in b) ; (None, None) if too large"""
    na, nb = to_nfa(a), to_nfa(b)
    sa = _closure(na, {na.start})
    sb = _closure(nb, {nb.start})
    seen = {(sa, sb)}
    q = deque([(sa, sb, ())])
    count = 0
    while q:
        A, B, w = q.popleft()
        count += 1
        if count > limit:
            return None, None
        if na.final in A and nb.final not in B:
            return False, list(w)
        syms = set()
        for s in A:
            for (y, _) in na.tr[s]:
                syms.add(y)
        for y in sorted(syms, key=repr):
            A2 = _step(na, A, y)
            if not A2:
                continue
            B2 = _step(nb, B, y)
            key = (A2, B2)
            if key not in seen:
                seen.add(key)
                q.append((A2, B2, w + (y,)))
    return True, None


def is_empty(r):
    k = r[0]
    if k == "void":
        return True
    if k in ("eps", "ev", "star"):
        return False
    if k == "seq":
        return any(is_empty(x) for x in r[1])
    if k == "alt":
        return all(is_empty(x) for x in r[1])
    return False


def some_word(r):
    """a shortest word of L(r) or None"""
    ok, w = contains(r, VOID)
    return w if ok is False else None


def equal(a, b):
    ok1, w1 = contains(a, b)
    if ok1 is not True:
        return ok1, ("left-not-in-right", w1)
    ok2, w2 = contains(b, a)
    if ok2 is not True:
        return ok2, ("right-not-in-left", w2)
    return True, None


# ---------------------------------------------------------------------------
# constrained byte events:  ('B', width, cell, endian) with cell = ('in', S) | ('notin', S)

ANY = ("notin", frozenset())


def cell_in(*vals):
    return ("in", frozenset(vals))


def cell_notin(*vals):
    return ("notin", frozenset(vals))


def minterm_expand(regexes):
    """rewrites all ('B', w, cell, e) symbols of the given regexes over a common minterm alphabet so that
    plain symbol equality decides containment exactly."""
    consts = {}
    for r in regexes:
        for s in symbols(r):
            if isinstance(s, tuple) and s[0] == "B":
                consts.setdefault((s[1], s[3]), set()).update(s[2][1])

    def f(s):
        if isinstance(s, tuple) and s[0] == "B":
            w, cell, e = s[1], s[2], s[3]
            C = consts.get((w, e), set())
            if not C:
                return ev(("B", w, "*", e))
            if cell[0] == "in":
                ms = [("B", w, c, e) for c in cell[1]]
            else:
                ms = [("B", w, c, e) for c in C if c not in cell[1]] + [("B", w, "other", e)]
            return alt(*[ev(m) for m in ms])
        return ev(s)

    return [subst(r, f) for r in regexes]


def show_word(w):
    if w is None:
        return "?"
    if not w:
        return "ε (empty)"
    return " ".join(show_sym(s) if not (isinstance(s, tuple) and s[0] == "B" and not isinstance(s[2], tuple))
                    else f"B{s[1]}{'' if s[3]=='LE' else s[3]}" + ("" if s[2] == "*" else "{" + str(s[2]) + "}")
                    for s in w)


# ---------------------------------------------------------------------------
# JSON round trip (for the frozen specification)

def to_json(r):
    if isinstance(r, frozenset):
        return {"set": sorted((to_json(x) for x in r), key=repr)}
    if isinstance(r, tuple):
        return [to_json(x) for x in r]
    return r


def from_json(j):
    if isinstance(j, dict) and "set" in j:
        return frozenset(from_json(x) for x in j["set"])
    if isinstance(j, list):
        return tuple(from_json(x) for x in j)
    return j


def strip_payload(r):
    """('A', n, literal bytes) -> ('A', n, None): compare fixed-size byte blocks by length only"""
    def f(s):
        if isinstance(s, tuple) and s[0] == "A":
            return ev(("A", s[1], None))
        return ev(s)
    return subst(r, f)


def find_word(r, init, step, bad_at_end, limit=200000):
    """shortest word of L(r) that drives the monitor (init, step(state, sym) -> state) into a state with
    bad_at_end(state) true when the word ends; None if there is none"""
    n = to_nfa(r)
    start = [(s, init) for s in _closure(n, {n.start})]
    seen = set(start)
    q = deque([(s, m, ()) for (s, m) in start])
    count = 0
    while q:
        s, m, w = q.popleft()
        count += 1
        if count > limit:
            return None
        if s == n.final and bad_at_end(m):
            return list(w)
        for (y, t) in n.tr[s]:
            m2 = step(m, y)
            for t2 in _closure(n, {t}):
                if (t2, m2) not in seen:
                    seen.add((t2, m2))
                    q.append((t2, m2, w + (y,)))
    return None
