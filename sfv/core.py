"""Obligations, rule registry, evidence and known-findings plumbing."""
import hashlib
import json
import os
import time

VERIF = os.path.dirname(os.path.dirname(os.path.abspath(__file__)))


class Ob(dict):
    """one obligation: {props, rule, key, status, where, detail, nontrivial, data}"""


def ob(props, rule, key, status, where="", detail="", nontrivial=True, **data):
    assert status in ("pass", "violation", "undecided")
    return Ob(props=list(props), rule=rule, key=f"{rule}:{key}", status=status, where=where, detail=detail,
              nontrivial=nontrivial, data=data)


RULES = []
CORPUS_RULES = {"W5", "W6", "H1", "H2", "P2", "P6", "W9", "N3", "N4", "S1", "P3", "A1", "P5", "A3", "A6", "W7d", "N5", "N6", "A8", "N8", "N9", "P8", "X5", "N10", "H3", "L6"}


def rule(name, props, floor=0, tiers=("quick", "thorough"), doc=""):
    """registers a rule; `floor` is the number of instances confirmed by hand on the pinned tree:
    a run that produces fewer obligations fails closed (ANCHOR-LOST)."""
    def deco(fn):
        RULES.append({"name": name, "props": list(props), "floor": floor, "fn": fn, "tiers": tiers,
                      "doc": doc or (fn.__doc__ or "").strip()})
        return fn
    return deco


def where(fn, node=None):
    ln = node.get("ln") if isinstance(node, dict) and node.get("ln") else fn.get("line")
    return f"{fn.get('file', '?')}:{ln}"


def run_rules(facts, tier, only_props=None, log=None):
    out = []
    stats = {}
    for r in RULES:
        if tier not in r["tiers"]:
            continue
        if only_props and not (set(only_props) & set(r["props"])):
            continue
        t0 = time.time()
        try:
            obs = list(r["fn"](facts, tier))
        except Exception as e:  # a crashing rule must not pass silently
            import traceback
            obs = [ob(r["props"], r["name"], "RULE-CRASHED", "violation", "",
                      f"rule {r['name']} crashed: {e!r}\n{traceback.format_exc()[-1500:]}")]
        n = len(obs)
        if n < r["floor"] and getattr(facts, "corpus_build_error", None) and r["name"] in CORPUS_RULES:
            pass   # reported once by rule CB
        elif n < r["floor"]:
            obs.append(ob(r["props"], r["name"], "ANCHOR-LOST", "violation", "",
                          f"rule {r['name']} matched {n} instances, fewer than the floor {r['floor']} confirmed by hand: "
                          f"the anchors it depends on are gone (fail closed)"))
        stats[r["name"]] = {"instances": n, "floor": r["floor"], "wall_s": round(time.time() - t0, 3)}
        out.extend(obs)
    return out, stats


def load_known():
    p = os.path.join(VERIF, "known_findings.json")
    if not os.path.exists(p):
        return {"known": [], "fixed": []}
    return json.load(open(p))


def key_hash(k):
    return hashlib.sha1(k.encode()).hexdigest()[:12]
