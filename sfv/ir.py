"""Loader and helpers for the fact files exported by the driver."""
import json
import os
import re
import sys

sys.setrecursionlimit(20000)


class Crate:
    def __init__(self, path):
        with open(path) as f:
            d = json.load(f)
        self.name = d["crate"]
        self.types = d["types"]
        self.fns = d["fns"]
        self.adts = d["adts"]
        self.statics = d["statics"]
        self.impls = d["impls"]
        self.traits = d["traits"]
        self.layouts = d["layouts"]
        self.thir_failed = d["thir_failed"]
        tys = self.types

        def fix(n):
            # resolve interned type indices in place
            stack = [n]
            while stack:
                x = stack.pop()
                if isinstance(x, dict):
                    t = x.get("ty")
                    if isinstance(t, int):
                        x["ty"] = tys[t]
                    for v in x.values():
                        if isinstance(v, (dict, list)):
                            stack.append(v)
                elif isinstance(x, list):
                    for v in x:
                        if isinstance(v, (dict, list)):
                            stack.append(v)

        for f in self.fns:
            f["body"] = normalise(f["body"])
            t = f.get("ret")
            if isinstance(t, int):
                f["ret"] = tys[t]
            fix(f["params"])
            fix(f["body"])
            f["crate"] = self.name


def _is_tc(n, name):
    return isinstance(n, dict) and n.get("k") == "Call" and n.get("fn") == name


def normalise(n):
    """fold the `?`, `for` and `.await` desugarings back into single nodes (Try / For / Await)"""
    if isinstance(n, list):
        return [normalise(x) for x in n]
    if not isinstance(n, dict):
        return n
    for key in ("val", "int"):
        # integers beyond the JSON-safe range are exported as "#<decimal>"
        if isinstance(n.get(key), str) and n[key].startswith("#") and n[key][1:].lstrip("-").isdigit():
            n[key] = int(n[key][1:])
    for key, v in list(n.items()):
        if isinstance(v, (dict, list)) and key != "pat":
            n[key] = normalise(v)
    if n.get("k") == "Match":
        src = n.get("src")
        if src == "TryDesugar" and _is_tc(n["e"], "core::ops::try_trait::Try::branch"):
            return {"k": "Try", "ty": n["ty"], "ln": n["ln"], "e": n["e"]["args"][0],
                    "rty": n["e"]["self_ty"]}
        if src == "ForLoopDesugar" and _is_tc(n["e"], "core::iter::traits::collect::IntoIterator::into_iter"):
            try:
                loop = peel_block(n["arms"][0]["body"])
                inner = peel_block(loop["body"])
                while inner.get("k") == "Block" and len(inner["stmts"]) == 1 and not inner.get("e"):
                    inner = inner["stmts"][0]["e"]
                some = [a for a in inner["arms"] if a["pat"].get("variant") == "Some"][0]
                return {"k": "For", "ty": n["ty"], "ln": n["ln"], "iter": n["e"]["args"][0],
                        "iter_ty": n["e"]["self_ty"], "pat": some["pat"]["subs"][0]["p"], "body": some["body"],
                        "sc": loop.get("sc")}
            except (KeyError, IndexError, AttributeError):
                return n
        if src == "AwaitDesugar":
            inner = n["e"]
            if _is_tc(inner, "core::future::into_future::IntoFuture::into_future"):
                inner = inner["args"][0]
            return {"k": "Await", "ty": n["ty"], "ln": n["ln"], "e": inner}
    return n


class Facts:
    def __init__(self, d, crates=("savefile", "savefile_abi", "sfcorpus")):
        self.dir = d
        self.crates = {}
        self.fns = {}
        self.adts = {}
        self.layouts = {}
        self.impls = []
        self.statics = []
        self.traits = {}
        for c in crates:
            p = os.path.join(d, c + ".json")
            if not os.path.exists(p):
                continue
            cr = Crate(p)
            self.crates[c] = cr
            for f in cr.fns:
                self.fns[f["id"]] = f
            for a in cr.adts:
                self.adts[a["id"]] = a
            for l in cr.layouts:
                self.layouts.setdefault(l["ty"], l)
            for i in cr.impls:
                i["crate"] = c
                self.impls.append(i)
            for s in cr.statics:
                s["crate"] = c
                self.statics.append(s)
            for t in cr.traits:
                self.traits[t["id"]] = t
        ep = os.path.join(d, "corpus_build_error.txt")
        self.corpus_build_error = open(ep).read() if os.path.exists(ep) else None
        mp = os.path.join(d, "corpus_meta.json")
        self.corpus_meta = json.load(open(mp)) if os.path.exists(mp) else {}
        if self.corpus_build_error:
            self.corpus_n_types = len(self.corpus_meta.get("types", []))
            self.corpus_meta = {}   # no derived code to analyse: rule CB reports the build failure once

    def fn(self, fid):
        return self.fns.get(fid)

    def fns_of_crate(self, c):
        return self.crates[c].fns if c in self.crates else []

    def impl_fns(self, trait, method, crate=None):
        """all fns that are `method` of an impl of `trait`"""
        out = []
        for f in self.fns.values():
            im = f.get("impl")
            if im and im.get("trait") == trait and f.get("name") == method:
                if crate is None or f["crate"] == crate:
                    out.append(f)
        return out

    def closure(self, cid):
        return self.fns.get(cid)


# ----------------------------------------------------------------------------
# generic traversal

CHILD_KEYS = ("c", "t", "f", "e", "l", "r", "i", "body", "guard", "init", "else", "fun", "base", "cond", "sub")
LIST_KEYS = ("args", "es", "stmts", "arms", "fields", "upvars")


def children(n):
    """direct sub-expressions (and statements / arms) of a node, in evaluation order"""
    k = n.get("k")
    if k == "Block":
        for s in n["stmts"]:
            yield s
        if n.get("e"):
            yield n["e"]
        return
    if k == "LetS":
        if n.get("init"):
            yield n["init"]
        if n.get("else"):
            yield n["else"]
        return
    if k == "ExprS":
        yield n["e"]
        return
    if k == "Match":
        yield n["e"]
        for a in n["arms"]:
            if a.get("guard"):
                yield a["guard"]
            yield a["body"]
        return
    if k == "Adt":
        for f in n["fields"]:
            yield f["e"]
        if isinstance(n.get("base"), dict):
            yield n["base"]
        return
    if k == "Call":
        if isinstance(n.get("fun"), dict):
            yield n["fun"]
        for a in n["args"]:
            yield a
        return
    if k == "If":
        yield n["c"]
        yield n["t"]
        if n.get("f"):
            yield n["f"]
        return
    for key in ("iter", "e", "l", "r", "i", "body"):
        v = n.get(key)
        if isinstance(v, dict):
            yield v
    for key in ("es", "upvars"):
        v = n.get(key)
        if isinstance(v, list):
            for x in v:
                yield x


def walk(n):
    """pre-order traversal of all nodes"""
    stack = [n]
    while stack:
        x = stack.pop()
        yield x
        cs = list(children(x))
        cs.reverse()
        stack.extend(cs)


def calls(n):
    for x in walk(n):
        if x.get("k") == "Call":
            yield x


def peel(n):
    """strip reference / deref / coercion / cast-free wrappers"""
    while isinstance(n, dict) and n.get("k") in ("Ref", "Deref", "Coerce", "RawRef") and isinstance(n.get("e"), dict):
        n = n["e"]
    return n


def peel_block(n):
    """a block with no statements and a tail expression is that expression"""
    while isinstance(n, dict) and n.get("k") == "Block" and not n["stmts"] and n.get("e") and not n.get("labelled"):
        n = n["e"]
    return n


def base_name(path):
    """strip generic arguments from a path: savefile::Serializer<'a, W>::write_u8 -> savefile::Serializer::write_u8"""
    out = []
    depth = 0
    i = 0
    while i < len(path):
        ch = path[i]
        if ch == "<" and i > 0 and out:
            depth += 1
        elif ch == ">" and depth > 0:
            depth -= 1
        elif depth == 0:
            out.append(ch)
        i += 1
    return "".join(out)


def callee(n):
    """stable callee name of a Call node (generic arguments removed), or None"""
    f = n.get("fn")
    if f is None:
        return None
    if f.startswith("<"):
        return f
    b = base_name(f)
    for a, c in CANON_PREFIX:
        if b.startswith(a):
            return c + b[len(a):]
    return b


# inherent methods are printed with the re-exported type path; normalise to the defining crate
CANON_PREFIX = (("std::result::Result::", "core::result::Result::"), ("std::option::Option::", "core::option::Option::"))


def is_call(n, *names):
    if not isinstance(n, dict) or n.get("k") != "Call":
        return False
    c = callee(n)
    return c in names


def path_of(n):
    """access path of a place expression as a tuple: ('a','fields','*'), or None"""
    n0 = n
    parts = []
    while True:
        if not isinstance(n, dict):
            return None
        k = n.get("k")
        if k in ("Ref", "Deref", "Coerce", "RawRef"):
            n = n["e"]
        elif k == "Field":
            parts.append(n["f"])
            n = n["e"]
        elif k == "Index":
            parts.append("*")
            n = n["e"]
        elif k == "Var":
            parts.append(n["v"])
            break
        elif k == "Call" and len(n.get("args", [])) >= 1 and callee(n) in DEREF_LIKE:
            n = n["args"][0]
        else:
            return None
    parts.reverse()
    return tuple(parts)


DEREF_LIKE = {
    "core::ops::deref::Deref::deref", "core::ops::deref::DerefMut::deref_mut",
    "core::clone::Clone::clone", "core::convert::AsRef::as_ref", "core::borrow::Borrow::borrow",
    "alloc::vec::Vec::as_slice", "alloc::string::String::as_str",
}


# ----------------------------------------------------------------------------
# pretty printer (debugging aid; rules never look at the text)

def pp_pat(p):
    k = p.get("k")
    if k == "Wild":
        return "_"
    if k == "Bind":
        s = p["v"].split("#")[0]
        if "sub" in p:
            s += " @ " + pp_pat(p["sub"])
        return s
    if k == "Variant":
        subs = ", ".join(f"{s['f']}: {pp_pat(s['p'])}" for s in p["subs"])
        return f"{p['adt'].split('::')[-1]}::{p['variant']}" + (f"{{{subs}}}" if subs else "")
    if k == "Leaf":
        subs = ", ".join(f"{s['f']}: {pp_pat(s['p'])}" for s in p["subs"])
        return (p.get("adt", "").split("::")[-1]) + f"{{{subs}}}"
    if k == "Const":
        return repr(p.get("int", p.get("str")))
    if k == "Range":
        return f"{p['lo']}..{'=' if p['incl'] else ''}{p['hi']}"
    if k == "Or":
        return " | ".join(pp_pat(x) for x in p["pats"])
    return k


def pp(n, ind=0):
    sp = "  " * ind
    if n is None:
        return ""
    k = n.get("k")
    if k == "Block":
        out = ("unsafe " if n.get("unsafe") else "") + "{\n"
        for s in n["stmts"]:
            out += sp + "  " + pp(s, ind + 1) + ";\n"
        if n.get("e"):
            out += sp + "  " + pp(n["e"], ind + 1) + "\n"
        return out + sp + "}"
    if k == "LetS":
        s = "let " + pp_pat(n["pat"])
        if n.get("init"):
            s += " = " + pp(n["init"], ind)
        if n.get("else"):
            s += " else " + pp(n["else"], ind)
        return s
    if k == "ExprS":
        return pp(n["e"], ind)
    if k == "Call":
        f = n.get("fn") or ("(" + pp(n.get("fun"), ind) + ")")
        ta = n.get("targs")
        if n.get("trait"):
            f = f"<{n['self_ty']} as {n['trait']}>::{f.split('::')[-1]}"
        elif ta:
            f += "::<" + ",".join(ta) + ">"
        return f + "(" + ", ".join(pp(a, ind) for a in n["args"]) + ")"
    if k == "If":
        s = "if " + pp(n["c"], ind) + " " + pp(n["t"], ind)
        if n.get("f"):
            s += " else " + pp(n["f"], ind)
        return s
    if k == "Match":
        s = f"match[{n['src']}] " + pp(n["e"], ind) + " {\n"
        for a in n["arms"]:
            s += sp + "  " + pp_pat(a["pat"])
            if a.get("guard"):
                s += " if " + pp(a["guard"], ind + 1)
            s += " => " + pp(a["body"], ind + 1) + ",\n"
        return s + sp + "}"
    if k == "Try":
        return pp(n["e"], ind) + "?"
    if k == "Await":
        return pp(n["e"], ind) + ".await"
    if k == "For":
        return "for " + pp_pat(n["pat"]) + " in " + pp(n["iter"], ind) + " " + pp(n["body"], ind)
    if k == "Let":
        return "let " + pp_pat(n["pat"]) + " = " + pp(n["e"], ind)
    if k == "Loop":
        return "loop " + pp(n["body"], ind)
    if k in ("Bin", "Logic", "AssignOp"):
        return "(" + pp(n["l"], ind) + f" {n['op']} " + pp(n["r"], ind) + ")"
    if k == "Assign":
        return pp(n["l"], ind) + " = " + pp(n["r"], ind)
    if k == "Un":
        return f"{n['op']}(" + pp(n["e"], ind) + ")"
    if k == "Cast":
        return "(" + pp(n["e"], ind) + " as " + n["ty"] + ")"
    if k == "Coerce":
        return pp(n["e"], ind)
    if k == "Deref":
        return "*" + pp(n["e"], ind)
    if k == "Ref":
        return ("&mut " if n["m"] else "&") + pp(n["e"], ind)
    if k == "RawRef":
        return ("&raw mut " if n["m"] else "&raw const ") + pp(n["e"], ind)
    if k == "Field":
        return pp(n["e"], ind) + "." + n["f"]
    if k == "Index":
        return pp(n["e"], ind) + "[" + pp(n["i"], ind) + "]"
    if k == "Var":
        return n["v"].split("#")[0]
    if k == "Lit":
        for key in ("int", "str", "float", "bytes"):
            if key in n:
                return repr(n[key])
        return "lit"
    if k == "Break":
        return "break " + (pp(n["e"], ind) if n.get("e") else "")
    if k == "Continue":
        return "continue"
    if k == "Return":
        return "return " + (pp(n["e"], ind) if n.get("e") else "")
    if k in ("Array", "Tuple"):
        o, c = ("[", "]") if k == "Array" else ("(", ")")
        return o + ", ".join(pp(x, ind) for x in n["es"]) + c
    if k == "Repeat":
        return "[" + pp(n["e"], ind) + "; " + str(n["n"]) + "]"
    if k == "Adt":
        fs = ", ".join(f"{f['f']}: {pp(f['e'], ind)}" for f in n["fields"])
        b = ", .." + pp(n["base"], ind) if isinstance(n.get("base"), dict) else ""
        return f"{n['adt']}::{n['variant']}{{{fs}{b}}}"
    if k == "Closure":
        return f"|closure {n['id']}|"
    if k == "Zst":
        return n.get("fn") or "zst:" + n["ty"]
    if k == "Const":
        return f"{n['id']}" + (f"(={n['val']})" if n.get("val") is not None else "")
    if k == "ConstBlock":
        return f"const{{{n['id']}}}" + (f"(={n['val']})" if n.get("val") is not None else "")
    if k == "ConstParam":
        return n["name"]
    if k == "Static":
        return "static " + n["id"]
    if k == "Yield":
        return "yield " + pp(n["e"], ind)
    return f"<{k}:{n.get('what','')}>"


def pp_fn(f):
    ps = ", ".join((pp_pat(p["pat"]) if p.get("pat") else "_") + ": " + str(p["ty"]) for p in f["params"])
    return f"fn {f['id']}({ps}) -> {f['ret']} " + pp(f["body"])


if __name__ == "__main__":
    import glob
    d = sys.argv[1]
    pat = sys.argv[2]
    facts = Facts(d)
    for fid, f in facts.fns.items():
        if re.search(pat, fid):
            print(f"// {f['file']}:{f['line']}")
            print(pp_fn(f))
            print()
