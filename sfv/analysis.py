"""Runs the rustc driver over /repo's *current working tree* (+ the witness corpus)
and caches the exported facts keyed by a hash of everything that influences them."""
import fcntl
import hashlib
import json
import os
import shutil
import subprocess
import sys
import time

VERIF = os.path.dirname(os.path.dirname(os.path.abspath(__file__)))
REPO = os.environ.get("SFV_REPO", "/repo")
CACHE = os.path.join(VERIF, ".cache")
TARGET = os.path.join(VERIF, ".target")
DRIVER = os.path.join(VERIF, "driver", "target", "release", "sfa")
HARNESS = os.path.join(VERIF, "harness")
if REPO != "/repo":
    # analysing a scratch copy (seeded-change experiments): private harness + target so that /repo's runs are undisturbed
    _tag = hashlib.sha1(REPO.encode()).hexdigest()[:8]
    _alt = os.path.join(VERIF, ".harness-" + _tag)
    os.makedirs(os.path.join(_alt, "sfcorpus", "src"), exist_ok=True)
    for rel in ("Cargo.toml", os.path.join("sfcorpus", "Cargo.toml")):
        with open(os.path.join(HARNESS, rel)) as _f:
            _t = _f.read().replace('"/repo/', '"' + REPO.rstrip("/") + "/")
        with open(os.path.join(_alt, rel), "w") as _f:
            _f.write(_t)
    HARNESS = _alt
    TARGET = os.path.join(VERIF, ".target-alt-" + _tag)
    CACHE = os.path.join(VERIF, ".cache", "alt-" + _tag)

SRC_DIRS = ["savefile", "savefile-derive", "savefile-abi"]


def _sha(paths):
    h = hashlib.sha256()
    for p in sorted(paths):
        h.update(p.encode())
        try:
            with open(p, "rb") as f:
                h.update(f.read())
        except OSError:
            h.update(b"<missing>")
    return h.hexdigest()


def repo_files():
    out = []
    for d in SRC_DIRS:
        for root, dirs, files in os.walk(os.path.join(REPO, d)):
            dirs[:] = [x for x in dirs if x not in ("target", ".git")]
            for f in files:
                if f.endswith((".rs", ".toml")):
                    out.append(os.path.join(root, f))
    out.append(os.path.join(REPO, "Cargo.toml"))
    out.append(os.path.join(REPO, "Cargo.lock"))
    return out


def machinery_files():
    out = []
    for root, dirs, files in os.walk(os.path.join(VERIF, "driver", "src")):
        for f in files:
            out.append(os.path.join(root, f))
    for root, dirs, files in os.walk(os.path.join(VERIF, "corpus")):
        dirs[:] = [x for x in dirs if x != "__pycache__"]
        for f in files:
            if f.endswith((".py", ".rs", ".json", ".toml")):
                out.append(os.path.join(root, f))
    return out


def sysroot():
    return subprocess.check_output(["rustc", "+nightly", "--print", "sysroot"], text=True).strip()


def tree_key(tier, seed, config="default"):
    key = _sha(repo_files()) + _sha(machinery_files()) + f"{tier}/{seed if tier == 'thorough' else 0}/{config}"
    return hashlib.sha256(key.encode()).hexdigest()[:24]


class AnalysisError(Exception):
    pass


def ensure_driver():
    if not os.path.exists(DRIVER):
        env = dict(os.environ, CARGO_NET_OFFLINE="true")
        r = subprocess.run(["cargo", "build", "--release", "--offline"], cwd=os.path.join(VERIF, "driver"), env=env,
                           stdout=subprocess.PIPE, stderr=subprocess.STDOUT, text=True)
        if r.returncode != 0:
            raise AnalysisError("driver build failed:\n" + r.stdout[-4000:])


def facts_dir(tier="quick", seed=0, config="default", log=sys.stderr):
    """Returns the directory holding fresh fact files for the current /repo tree."""
    os.makedirs(CACHE, exist_ok=True)
    lock = open(os.path.join(CACHE, "lock"), "w")
    fcntl.flock(lock, fcntl.LOCK_EX)
    try:
        key = tree_key(tier, seed, config)
        d = os.path.join(CACHE, key)
        stamp = os.path.join(d, "OK")
        if os.path.exists(stamp):
            return d
        if os.path.exists(d):
            shutil.rmtree(d)
        _gc_cache()
        os.makedirs(d)
        t0 = time.time()
        ensure_driver()
        _run_driver(d, tier, seed, config, log)
        meta = {"key": key, "tier": tier, "seed": seed, "config": config, "wall_s": round(time.time() - t0, 1)}
        with open(stamp, "w") as f:
            json.dump(meta, f)
        return d
    finally:
        fcntl.flock(lock, fcntl.LOCK_UN)
        lock.close()


def _gc_cache(keep=6):
    ents = []
    for n in os.listdir(CACHE):
        p = os.path.join(CACHE, n)
        if os.path.isdir(p) and len(n) == 24:
            ents.append((os.path.getmtime(p), p))
    ents.sort()
    for _, p in ents[:-keep]:
        shutil.rmtree(p, ignore_errors=True)


def _run_driver(out, tier, seed, config, log):
    # (re)generate the witness corpus
    gen = os.path.join(VERIF, "corpus", "gen.py")
    if os.path.exists(gen):
        r = subprocess.run([sys.executable, gen, "--tier", tier, "--seed", str(seed), "--out", HARNESS],
                           stdout=subprocess.PIPE, stderr=subprocess.STDOUT, text=True)
        if r.returncode != 0:
            raise AnalysisError("corpus generation failed:\n" + r.stdout[-4000:])
        meta = os.path.join(HARNESS, "corpus_meta.json")
        if os.path.exists(meta):
            shutil.copy(meta, os.path.join(out, "corpus_meta.json"))
    shutil.copy(os.path.join(REPO, "Cargo.lock"), os.path.join(HARNESS, "Cargo.lock"))
    # cargo's freshness cache would skip the driver for unchanged path crates: remove their fingerprints
    target = TARGET if config == "default" else TARGET + "-" + config
    fp = os.path.join(target, "debug", ".fingerprint")
    if os.path.isdir(fp):
        for n in os.listdir(fp):
            if n.startswith(("savefile-", "sfcorpus-")):
                shutil.rmtree(os.path.join(fp, n), ignore_errors=True)
    env = dict(os.environ)
    env.update({
        "LD_LIBRARY_PATH": sysroot() + "/lib" + (":" + env["LD_LIBRARY_PATH"] if env.get("LD_LIBRARY_PATH") else ""),
        "RUSTC_WRAPPER": DRIVER,
        "SFA_OUT": out,
        "CARGO_TARGET_DIR": target,
        "CARGO_NET_OFFLINE": "true",
        "RUSTFLAGS": env.get("SFV_RUSTFLAGS", ""),
    })
    env.pop("RUSTC_WORKSPACE_WRAPPER", None)
    if config == "nightly":
        env["SFA_KEEP_NIGHTLY"] = "1"
    if config.startswith("randlayout"):
        env["RUSTFLAGS"] = (env["RUSTFLAGS"] + " -Zrandomize-layout -Zlayout-seed=" + config[len("randlayout"):]).strip()
    t0 = time.time()
    r = subprocess.run(["cargo", "+nightly", "check", "--offline", "-q"], cwd=HARNESS, env=env,
                       stdout=subprocess.PIPE, stderr=subprocess.STDOUT, text=True)
    with open(os.path.join(out, "cargo.log"), "w") as f:
        f.write(r.stdout)
    if r.returncode != 0 and "could not compile `sfcorpus`" in r.stdout:
        # the witness corpus (documented uses of the derive / ABI macros) no longer builds against /repo: keep the
        # compiler's message as a finding and analyse the library alone
        with open(os.path.join(out, "corpus_build_error.txt"), "w") as f:
            f.write(r.stdout[-8000:])
        with open(os.path.join(HARNESS, "sfcorpus", "src", "lib.rs"), "w") as f:
            f.write("#![allow(warnings)]\n// corpus failed to build; see corpus_build_error.txt\n")
        r = subprocess.run(["cargo", "+nightly", "check", "--offline", "-q"], cwd=HARNESS, env=env,
                           stdout=subprocess.PIPE, stderr=subprocess.STDOUT, text=True)
    if r.returncode != 0:
        raise AnalysisError("cargo check under the driver failed (does /repo still compile?):\n" + r.stdout[-6000:])
    for c in ("savefile", "savefile_abi", "sfcorpus"):
        p = os.path.join(out, c + ".json")
        if not os.path.exists(p) or os.path.getmtime(p) < t0 - 1:
            raise AnalysisError(f"fact file for crate {c} was not produced by this run (stale cargo cache?)")
    print(f"[sfv] analysed /repo under the driver in {time.time()-t0:.1f}s -> {out}", file=log)
