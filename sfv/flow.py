"""E4 helpers: parent maps, the fate of a value (result discipline), dominating guards."""
from .ir import callee, children, peel, walk

def is_err_type(e):
    e = e.strip()
    return e in ("std::io::error::Error", "savefile::SavefileError") or (e.startswith("ring::error::") and e.endswith("Unspecified"))


def is_err_result(t):
    if not (isinstance(t, str) and t.startswith("core::result::Result<") and t.endswith(">")):
        return False
    from .tys import split_top
    parts = split_top(t[len("core::result::Result<"):-1])
    return len(parts) == 2 and is_err_type(parts[1])


def parent_map(body):
    pm = {}
    for x in walk(body):
        for ch in children(x):
            pm[id(ch)] = x
    return pm


PROPAGATING = {"core::result::Result::map_err", "core::result::Result::map", "core::result::Result::and_then",
               "core::result::Result::or_else", "core::convert::Into::into", "core::convert::From::from",
               "core::result::Result::map_or_else"}
SWALLOWING = {"core::result::Result::ok": "ok()", "core::result::Result::unwrap_or": "unwrap_or",
              "core::result::Result::unwrap_or_default": "unwrap_or_default", "core::result::Result::unwrap_or_else": "unwrap_or_else",
              "core::result::Result::is_ok": "is_ok", "core::result::Result::is_err": "is_err", "core::result::Result::err": "err()",
              "core::mem::drop": "drop", "core::result::Result::unwrap_or_else": "unwrap_or_else"}
PANICKING = {"core::result::Result::unwrap": "unwrap", "core::result::Result::expect": "expect",
             "core::result::Result::unwrap_unchecked": "unwrap_unchecked"}


def arm_handles_err(arm):
    """an Err arm (or catch-all) is a handler if it produces an Err value or returns"""
    for x in walk(arm["body"]):
        k = x.get("k")
        if k == "Adt" and x.get("adt") == "core::result::Result" and x.get("variant") == "Err":
            return True
        if k in ("Return", "Try"):
            return True
        if k == "Call" and callee(x) == "core::ops::try_trait::FromResidual::from_residual":
            return True
    return False


def pat_covers_err(p):
    k = p.get("k")
    if k in ("Wild", "Bind"):
        return True
    if k == "Variant" and p.get("adt") == "core::result::Result":
        return p.get("variant") == "Err"
    if k == "Or":
        return any(pat_covers_err(q) for q in p["pats"])
    return False


def fate(node, pm, fn, depth=0):
    """what happens to the Result produced by `node`: returns (kind, consumer node)
    kinds: propagated | returned | dropped | swallowed:<how> | panics:<how> | matched-ok | matched-swallow | bound:<var> | passed | unknown"""
    p = pm.get(id(node))
    if p is None:
        return ("returned", None)
    k = p.get("k")
    if k == "Try":
        return ("propagated", p)
    if k == "Return":
        return ("returned", p)
    if k == "ExprS":
        return ("dropped", p)
    if k == "LetS":
        if p.get("init") is node:
            pat = p["pat"]
            if pat.get("k") == "Wild":
                return ("dropped", p)
            if pat.get("k") == "Bind":
                return ("bound:" + pat["v"], p)
            if p.get("else") and pat.get("k") == "Variant":
                # let Ok(x) = e else { .. }
                eb = p["else"]
                ok = any(x.get("k") in ("Return", "Try") or (x.get("k") == "Adt" and x.get("variant") == "Err") for x in walk(eb))
                return ("matched-ok" if ok else "matched-swallow", p)
            return ("unknown", p)
        return fate(p, pm, fn, depth + 1)
    if k == "Block":
        if p.get("e") is node:
            return fate(p, pm, fn, depth + 1)
        return ("dropped", p)
    if k == "If":
        if p.get("c") is node:
            return ("unknown", p)
        return fate(p, pm, fn, depth + 1)
    if k == "Let":
        # `if let Ok(x) = e {..} else {..}` : handled if the else branch deals with the error
        pp = pm.get(id(p))
        while pp is not None and pp.get("k") == "Logic":
            pp = pm.get(id(pp))
        if pp is not None and pp.get("k") == "If":
            pat = p["pat"]
            wants_ok = pat.get("k") == "Variant" and pat.get("variant") == "Ok"
            other = pp.get("f") if wants_ok else pp.get("t")
            if other is None:
                return ("matched-swallow", pp)
            ok = any(x.get("k") in ("Return", "Try") or (x.get("k") == "Adt" and x.get("variant") == "Err") for x in walk(other))
            return ("matched-ok" if ok else "matched-swallow", pp)
        return ("unknown", p)
    if k == "Match":
        if p.get("e") is node:
            arms = [a for a in p["arms"] if pat_covers_err(a["pat"])]
            if arms and all(arm_handles_err(a) for a in arms):
                return ("matched-ok", p)
            return ("matched-swallow", p)
        return fate(p, pm, fn, depth + 1)
    if k in ("Ref", "Deref", "Coerce", "Cast"):
        return fate(p, pm, fn, depth + 1)
    if k == "Adt":
        return fate(p, pm, fn, depth + 1)
    if k == "Call":
        c = callee(p)
        args = p.get("args", [])
        is_recv = bool(args) and (args[0] is node or peel(args[0]) is node)
        if is_recv and c in PROPAGATING:
            return fate(p, pm, fn, depth + 1)
        if is_recv and c in ("core::result::Result::is_err", "core::result::Result::is_ok"):
            # `if r.is_err() { return Err(..) }` / `if !r.is_ok() {..}` / `if r.is_ok() {..} else { Err(..) }`: the error branch
            # of the test leaves with an error - that is handling, not swallowing
            q, child, neg = pm.get(id(p)), p, False
            while q is not None and (q.get("k") in ("Ref", "Deref", "Coerce", "Block") or (q.get("k") == "Un" and q.get("op") == "Not")):
                if q.get("k") == "Un":
                    neg = not neg
                child, q = q, pm.get(id(q))
            if q is not None and q.get("k") == "If" and q.get("c") is child:
                err_when_true = c.endswith("is_err") != neg
                branch = q.get("t") if err_when_true else q.get("f")
                if branch is not None and any(x.get("k") in ("Return", "Try") or (x.get("k") == "Adt" and x.get("variant") == "Err")
                                              for x in walk(branch)):
                    return ("matched-ok", q)
        if is_recv and c in SWALLOWING:
            return ("swallowed:" + SWALLOWING[c], p)
        if is_recv and c in PANICKING:
            return ("panics:" + PANICKING[c], p)
        return ("passed", p)
    if k in ("Assign",):
        l = peel(p["l"])
        if l.get("k") == "Var":
            return ("bound:" + l["v"], p)
        return ("unknown", p)
    if k in ("Break",):
        return ("unknown", p)
    return ("unknown", p)


def var_fates(var, body, pm, fn):
    out = []
    for x in walk(body):
        if x.get("k") == "Var" and x["v"] == var:
            out.append(fate(x, pm, fn))
    return out


def enclosing_fn_of(facts, f):
    """closures: the function they are written in"""
    seen = 0
    while f is not None and f.get("kind") == "Closure" and seen < 8:
        f = facts.fns.get(f.get("parent"))
        seen += 1
    return f


def short(fid):
    return fid
