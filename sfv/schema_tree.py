"""Reads the schema value that a `WithSchema::schema` body constructs off the THIR (constructor tree) and translates
it into the wire language that a generic schema-driven reader would parse (rule W7, property C12)."""
from . import rx
from .ir import callee, peel, peel_block
from .rx import ANY, EPS, alt, ev, seq, star
from .shape import subst_ty

PRIM = {"schema_i8": 1, "schema_u8": 1, "schema_i16": 2, "schema_u16": 2, "schema_i32": 4, "schema_u32": 4,
        "schema_i64": 8, "schema_u64": 8, "schema_f32": 4, "schema_f64": 8, "schema_bool": 1, "schema_canary1": 4,
        "schema_i128": 16, "schema_u128": 16, "schema_char": 4}

SCHEMA = "savefile::Schema"


class Undecided(Exception):
    pass


class SchemaReader:
    def __init__(self, facts, an, tsub=None, ver=None):
        self.facts = facts
        self.an = an
        self.tsub = tsub or {}
        self.ver = ver
        self.depth = 0
        self.verenv = {}

    def vec_items_env(self, n, env):
        """(item, environment at the time the item was pushed) - None where the items are not from a simulated push sequence"""
        pn = peel_block(peel(n))
        if pn.get("k") == "Var" and ("vec", pn["v"]) in env:
            return list(env[("vec", pn["v"])])
        return [(it, None) for it in self.vec_items(n, env)]

    def vec_items(self, n, env):
        pn = peel_block(peel(n))
        if pn.get("k") == "Block" and pn.get("e") is not None:
            env = dict(env)
            self.simulate(pn["stmts"], env)
            pn = peel_block(peel(pn["e"]))
        if pn.get("k") == "Var" and ("vec", pn["v"]) in env:
            return [it for it, _ in env[("vec", pn["v"])]]
        n = self.resolve(n, env)
        k = n.get("k")
        if k == "Call" and (callee(n) or "").endswith("::collect") and n["args"]:
            # derive: vec![(from, to, Variant{..}), ..].into_iter().filter_map(|(f,t,x)| version in f..=t).collect()
            inner = n
            for _ in range(6):
                if inner.get("k") == "Call" and inner["args"]:
                    c0 = callee(inner) or ""
                    if c0.endswith("box_assume_init_into_vec_unsafe") or c0.endswith("::into_vec"):
                        break
                    inner = peel(inner["args"][0])
            items = self.vec_items(inner, env)
            out = []
            for it in items:
                t = peel(it)
                if t.get("k") != "Tuple" or len(t["es"]) != 3:
                    raise Undecided("variant list entry")
                lo, hi = self.lit(t["es"][0], env), self.lit(t["es"][1], env)
                if lo is None or hi is None or self.ver is None:
                    raise Undecided("variant version range")
                if lo <= self.ver <= hi:
                    out.append(t["es"][2])
            return out
        if k == "Call":
            c = callee(n) or ""
            if c.endswith("box_assume_init_into_vec_unsafe") and n["args"]:
                inner = peel(n["args"][0])
                if inner.get("k") == "Call" and inner["args"]:
                    arr = peel(inner["args"][-1])
                    if arr.get("k") == "Array":
                        return arr["es"]
            if c.endswith("::into_vec") and n["args"]:
                b = peel(n["args"][0])
                if b.get("k") == "Call" and b["args"]:
                    arr = peel(b["args"][0])
                    if arr.get("k") == "Array":
                        return arr["es"]
            if c.endswith("Vec::new") or c.endswith("vec::Vec::new"):
                return []
        if k == "Array":
            return n["es"]
        raise Undecided(f"vector literal not recognised ({k} {callee(n) if k == 'Call' else ''})")

    def simulate(self, stmts, env):
        """statement-level simulation of the derive's schema builder: let-bindings and conditional Vec::push sequences"""
        for st in stmts:
            if st["k"] == "LetS" and st["pat"].get("k") == "Bind" and st.get("init") is not None:
                init = st["init"]
                pi = peel_block(peel(init))
                if pi.get("k") == "Call" and (callee(pi) or "").endswith("Vec::new"):
                    env[("vec", st["pat"]["v"])] = []
                if pi.get("k") == "Var" and pi["v"] in self.verenv:
                    self.verenv[st["pat"]["v"]] = ("ver",)
                # `let d = variants.len() as u8`: the number of elements pushed so far (under the version being simulated)
                pl = pi
                cast_ty = None
                if pl.get("k") == "Cast":
                    cast_ty = pl.get("ty")
                    pl = peel_block(peel(pl["e"]))
                if pl.get("k") == "Call" and (callee(pl) or "").endswith("::len") and pl.get("args"):
                    tv = peel(pl["args"][0])
                    if tv.get("k") == "Var" and ("vec", tv["v"]) in env:
                        n_ = len(env[("vec", tv["v"])])
                        bits = {"u8": 8, "u16": 16, "u32": 32}.get(cast_ty)
                        init = {"k": "Lit", "int": n_ & ((1 << bits) - 1) if bits else n_, "ty": cast_ty or "usize"}
                env[st["pat"]["v"]] = init
            elif st["k"] == "ExprS":
                self.sim_expr(st["e"], env)

    def sim_expr(self, e, env):
        e = peel_block(e) if e.get("k") != "Block" else e
        k = e.get("k")
        if k == "Call" and (callee(e) or "").endswith("Vec::push") and len(e["args"]) == 2:
            tgt = peel(e["args"][0])
            if tgt.get("k") == "Var" and ("vec", tgt["v"]) in env:
                env[("vec", tgt["v"])] = env[("vec", tgt["v"])] + [(e["args"][1], dict(env))]
            return
        if k == "If":
            v = self.an.val(e["c"], {"$ver": self.ver, "$tsub": self.tsub, "$guards": {}, **{kk: vv for kk, vv in self.verenv.items()}})
            c = self.an.cond(v, {"$ver": self.ver, "$guards": {}})
            if c is None:
                raise Undecided("version condition in schema builder not evaluable")
            br = e["t"] if c else e.get("f")
            if br is not None:
                self.sim_expr(br, env)
            return
        if k == "Block":
            self.simulate(e["stmts"], env)
            if e.get("e") is not None:
                self.sim_expr(e["e"], env)
            return

    def resolve(self, n, env):
        n = peel_block(peel(n))
        seen = 0
        while isinstance(n, dict) and n.get("k") == "Var" and n["v"] in env and seen < 10:
            n = peel_block(peel(env[n["v"]]))
            seen += 1
        return n

    def field(self, adt_node, name):
        for f in adt_node["fields"]:
            if f["f"] == name:
                return f["e"]
        raise Undecided(f"field {name} missing")

    def lit(self, n, env):
        n = self.resolve(n, env)
        if n.get("k") == "Lit" and "int" in n:
            return n["int"]
        if n.get("k") == "Cast":
            v = self.lit(n["e"], env)
            bits = {"u8": 8, "u16": 16, "u32": 32, "u64": 64, "usize": 64}.get(n.get("ty"))
            return v if v is None or bits is None else v & ((1 << bits) - 1)
        if n.get("k") == "Call" and (callee(n) or "").endswith("::len") and n.get("args"):
            tv = peel(n["args"][0])
            if tv.get("k") == "Var" and ("vec", tv["v"]) in env:
                return len(env[("vec", tv["v"])])       # elements pushed so far (the snapshot taken when this element was pushed)
        v = self.an.val(n, {"$ver": self.ver, "$tsub": self.tsub, "$guards": {}})
        if v and v[0] == "int":
            return v[1]
        return None

    def lang(self, n, env):
        """wire language described by the schema expression n"""
        self.depth += 1
        if self.depth > 60:
            raise Undecided("too deep")
        try:
            return self._lang(n, env)
        finally:
            self.depth -= 1

    def fields_lang(self, n, env):
        out = []
        for f in self.vec_items(n, env):
            f = self.resolve(f, env)
            if f.get("k") == "Call" and (callee(f) or "").endswith("Field::unsafe_new") or (f.get("k") == "Call" and (callee(f) or "") == "savefile::Field::new"):
                out.append(self.lang(f["args"][1], env))
                continue
            if f.get("k") != "Adt" or not f["adt"].endswith("::Field"):
                raise Undecided("field constructor not recognised")
            out.append(self.lang(self.field(f, "value"), env))
        return seq(*out)

    def _lang(self, n, env):
        n = self.resolve(n, env)
        k = n.get("k")
        if k == "Call":
            c = callee(n) or ""
            if c == "savefile::WithSchema::schema":
                return ev(("N", subst_ty(n["self_ty"], self.tsub)))
            if c.endswith("Box::new") or c.endswith("boxed::Box::new"):
                return self.lang(n["args"][0], env)
            if c.endswith("WithSchemaContext::possible_recursion"):
                cl = peel(n["args"][-1])
                if cl.get("k") == "Closure":
                    cf = self.facts.fns.get(cl["id"])
                    if cf:
                        return self.lang(cf["body"], env)
                raise Undecided("possible_recursion closure")
            # local helper returning a Schema: inline with parameter binding
            target = (n.get("res") or {}).get("fn") or n.get("fn")
            f = self.facts.fns.get(target)
            if f is not None and "savefile::Schema" in (f.get("ret") or ""):
                env2 = dict(env)
                for p, a in zip(f["params"], n["args"]):
                    if p.get("pat") and p["pat"].get("k") == "Bind":
                        env2[p["pat"]["v"]] = a
                targs = (n.get("res") or {}).get("targs") or n.get("targs") or []
                old = self.tsub
                self.tsub = {g: subst_ty(t, old) for g, t in zip(f.get("generics", []), targs)}
                try:
                    return self.lang(f["body"], env2)
                finally:
                    self.tsub = old
            raise Undecided(f"call {c}")
        if k == "Block":
            env2 = dict(env)
            self.simulate(n["stmts"], env2)
            if n.get("e") is None:
                raise Undecided("block without value")
            return self.lang(n["e"], env2)
        if k == "If":
            v = self.an.val(n["c"], {"$ver": self.ver, "$tsub": self.tsub, "$guards": {}})
            c = self.an.cond(v, {"$ver": self.ver, "$guards": {}})
            if c is True:
                return self.lang(n["t"], env)
            if c is False and n.get("f"):
                return self.lang(n["f"], env)
            raise Undecided("conditional schema")
        if k == "Match":
            sv = self.an.val(n["e"], {"$ver": self.ver, "$tsub": self.tsub, "$guards": {}})
            if sv and sv[0] == "sizeof":
                sz = self.an.size_of(sv[1])
                sv = ("int", sz) if sz is not None else None
            if sv and sv[0] == "int":
                for a in n["arms"]:
                    acc = self.an.pat_accepts(a["pat"], sv, {})
                    if acc is True:
                        return self.lang(a["body"], env)
                    if acc is None:
                        break
            raise Undecided("match in schema constructor")
        if k != "Adt":
            raise Undecided(f"node {k}")
        if n["adt"] != SCHEMA:
            raise Undecided(f"adt {n['adt']}")
        v = n["variant"]
        a0 = n["fields"][0]["e"] if n["fields"] else None
        if v == "Primitive":
            p = self.resolve(a0, env)
            if p.get("k") != "Adt":
                raise Undecided("primitive kind")
            if p["variant"] == "schema_string":
                return seq(ev(("B", 8, ANY, "LE")), ev(("BYTES",)))
            w = PRIM.get(p["variant"])
            if w is None:
                raise Undecided(p["variant"])
            return ev(("B", w, ANY, "LE"))
        if v in ("Vector", "Slice"):
            return seq(ev(("B", 8, ANY, "LE")), star(self.lang(a0, env)))
        if v in ("Boxed", "Reference"):
            return self.lang(a0, env)
        if v == "SchemaOption":
            inner = self.lang(a0, env)
            return alt(ev(("B", 1, ("in", frozenset([0])), "LE")), seq(ev(("B", 1, ("in", frozenset([1])), "LE")), inner))
        if v == "Array":
            arr = self.resolve(a0, env)
            item = self.lang(self.field(arr, "item_type"), env)
            cnt = self.lit(self.field(arr, "count"), env)
            if cnt is not None and cnt <= 64:
                return seq(*[item] * cnt)
            return star(item)
        if v in ("ZeroSize",):
            return EPS
        if v == "Str":
            return seq(ev(("B", 8, ANY, "LE")), ev(("BYTES",)))
        if v == "UtcTimestamp":
            return ev(("B", 8, ANY, "LE"))
        if v == "StdIoError":
            return ev(("N", "std::io::error::Error"))
        if v == "Struct":
            st = self.resolve(a0, env)
            if st.get("k") == "Call" and (callee(st) or "").endswith("SchemaStruct::new_unsafe"):
                return self.fields_lang(st["args"][1], env)
            return self.fields_lang(self.field(st, "fields"), env)
        if v == "Enum":
            en = self.resolve(a0, env)
            if en.get("k") == "Call" and (callee(en) or "").endswith("SchemaEnum::new_unsafe"):
                w = self.lit(en["args"][2], env)
                if w is None:
                    raise Undecided("discriminant_size")
                alts = []
                for vr, venv in self.vec_items_env(en["args"][1], env):
                    vr = self.resolve(vr, env)
                    d = self.lit(self.field(vr, "discriminant"), venv or env)
                    if d is None:
                        raise Undecided("discriminant")
                    alts.append(seq(ev(("B", w, ("in", frozenset([d])), "LE")), self.fields_lang(self.field(vr, "fields"), env)))
                return alt(*alts)
            w = self.lit(self.field(en, "discriminant_size"), env)
            if w is None:
                raise Undecided("discriminant_size")
            alts = []
            for vr, venv in self.vec_items_env(self.field(en, "variants"), env):
                vr = self.resolve(vr, env)
                d = self.lit(self.field(vr, "discriminant"), venv or env)
                if d is None:
                    raise Undecided("discriminant")
                alts.append(seq(ev(("B", w, ("in", frozenset([d])), "LE")), self.fields_lang(self.field(vr, "fields"), env)))
            return alt(*alts)
        raise Undecided(f"schema variant {v}")
