"""C06: T1 unchecked arithmetic on untrusted values (interval analysis), T2 untrusted lengths reaching unsafe sinks,
T3 triaged panic sites on the deserialization paths."""
import json
import os
import re

from ..core import ob, rule, where
from ..ir import callee, children, peel, peel_block, walk
from ..shape import PANICS

SPEC = os.path.join(os.path.dirname(os.path.dirname(os.path.dirname(os.path.abspath(__file__)))), "spec")
TYPE_MAX = {"u8": 2**8 - 1, "u16": 2**16 - 1, "u32": 2**32 - 1, "u64": 2**64 - 1, "usize": 2**64 - 1, "u128": 2**128 - 1,
            "i8": 2**7 - 1, "i16": 2**15 - 1, "i32": 2**31 - 1, "i64": 2**63 - 1, "isize": 2**63 - 1, "i128": 2**127 - 1}


def reader_fns(facts):
    """functions reachable from the deserialization entry points of `savefile` (+ derived readers of the corpus)"""
    roots = []
    for f in facts.fns.values():
        if f["crate"] not in ("savefile", "sfcorpus"):
            continue
        im = f.get("impl") or {}
        fid = f["id"]
        if (im.get("trait") == "savefile::Deserialize" and f.get("name") == "deserialize") or "savefile::Deserializer<" in fid \
                or fid.startswith("savefile::load") or "CryptoReader" in fid or "load_encrypted" in fid:
            roots.append(fid)
    seen, st = set(), list(roots)
    while st:
        fid = st.pop()
        if fid in seen:
            continue
        f = facts.fns.get(fid)
        if f is None or f["crate"] not in ("savefile", "sfcorpus") or "quickcheck" in fid or "serde::" in fid:
            continue
        seen.add(fid)
        for x in walk(f["body"]):
            if x.get("k") == "Call":
                t = (x.get("res") or {}).get("fn") or x.get("fn")
                if t in facts.fns and t not in seen:
                    st.append(t)
            elif x.get("k") == "Closure" and x["id"] in facts.fns:
                st.append(x["id"])
    return [facts.fns[f] for f in sorted(seen)]


# standard-library / chrono operations documented to panic for some argument VALUES (not merely for misuse of types)
STD_VALUE_PANICS = {
    "Duration::from_nanos_u128", "Duration::from_secs_f32", "Duration::from_secs_f64", "Duration::new", "Duration::mul_f32",
    "Duration::mul_f64", "Duration::div_f32", "Duration::div_f64", "Duration::from_mins", "Duration::from_hours", "Duration::from_days",
    "Duration::from_weeks", "char::from_digit", "Vec::remove", "Vec::insert", "Vec::swap_remove", "Vec::drain", "Vec::split_off",
    "VecDeque::drain", "VecDeque::split_off", "VecDeque::swap", "String::insert", "String::insert_str", "String::remove", "String::truncate",
    "String::drain", "String::split_off", "String::replace_range", "str::split_at", "str::split_at_mut", "[T]::chunks", "[T]::chunks_exact",
    "[T]::chunks_mut", "[T]::chunks_exact_mut", "[T]::windows", "[T]::rchunks", "[T]::swap", "[T]::rotate_left", "[T]::rotate_right",
    "Iterator::step_by", "NaiveDate::from_ymd", "NaiveTime::from_hms", "NaiveDateTime::from_timestamp", "TimeZone::timestamp",
    "TimeZone::timestamp_nanos", "TimeZone::timestamp_millis", "TimeDelta::seconds", "TimeDelta::milliseconds", "TimeDelta::days",
    "TimeDelta::hours", "TimeDelta::minutes", "TimeDelta::weeks", "TimeDelta::new", "BitVec::set", "BitVec::from_elem",
    "ArrayVec::push", "ArrayVec::insert", "ArrayVec::remove", "ArrayVec::swap_remove", "ArrayVec::drain", "ArrayVec::extend",
    "ArrayString::push", "ArrayString::push_str", "ArrayString::from", "SmallVec::insert", "SmallVec::remove", "SmallVec::drain",
}


def _last2(c):
    parts = re.sub(r"<[^<>]*>", "", re.sub(r"<[^<>]*>", "", c)).split("::")
    return "::".join(parts[-2:]) if len(parts) >= 2 else c


def panic_kind(x):
    c = callee(x) or ""
    if c in ("core::convert::From::from", "core::convert::Into::into") and "chrono::datetime::DateTime" in (x.get("ty") or "") \
            and any("time::SystemTime" in (a.get("ty") or "") for a in x.get("args", [])):
        return "stdpanic:DateTime::from(SystemTime)"      # chrono: timestamp_opt(..).unwrap() - panics outside +-262000 years
    if _last2(c) in STD_VALUE_PANICS and not c.startswith("savefile"):
        return "stdpanic:" + _last2(c)
    if c in PANICS:
        return "panic:" + c.split("::")[-1]
    if c in ("core::option::Option::unwrap", "core::option::Option::expect", "core::result::Result::unwrap",
             "core::result::Result::expect"):
        return c.split("::")[-2] + "::" + c.split("::")[-1]
    if c.rsplit("::", 1)[-1] in ("unwrap", "expect") and not c.startswith(("core::option::Option::", "core::result::Result::")):
        # unwrap / expect of some other carrier (chrono's LocalResult, ...): panics on the empty case all the same
        return c.split("::")[-2].split("<")[0] + "::" + c.rsplit("::", 1)[-1]
    if c in ("core::ops::arith::Add::add", "core::ops::arith::Sub::sub", "core::ops::arith::AddAssign::add_assign",
             "core::ops::arith::SubAssign::sub_assign") and re.search(r"Time|Duration|Instant", x.get("self_ty") or ""):
        return "timearith:" + (x.get("self_ty") or "")
    if c.endswith(("clone_from_slice", "copy_from_slice", "split_at", "copy_within", "split_at_mut")):
        return "slicelen:" + c.split("::")[-1]
    if c in ("core::ops::index::Index::index", "core::ops::index::IndexMut::index_mut") and len(x.get("args", [])) == 2:
        t = x["args"][1].get("ty") or ""
        if "ops::range::Range" in t and "RangeFull" not in t:
            return "rangeindex"
    return None


def site_key(fid, kind):
    # derived readers: one key per kind for the whole corpus (the derive emits the same site for every type)
    if fid.startswith("<sfcorpus::"):
        return f"derive-generated Deserialize:{kind}"
    return f"{fid}:{kind}"


def anchors(facts, fns):
    """private helpers and closures are keyed by the public functions / trait impls that reach them, so that renaming
    or extracting a helper does not change a triage key"""
    ids = {f["id"] for f in fns}
    callers = {}
    for f in fns:
        for x in walk(f["body"]):
            t = None
            if x.get("k") == "Call":
                t = (x.get("res") or {}).get("fn") or x.get("fn")
            elif x.get("k") == "Closure":
                t = x["id"]
            if t in ids and t != f["id"]:
                callers.setdefault(t, set()).add(f["id"])

    def anchored(f):
        return bool(f.get("impl") and f["impl"].get("trait")) or (f.get("pub") and f.get("kind") != "Closure")

    by_id = {f["id"]: f for f in fns}
    memo = {}

    def up(fid, seen=()):
        if fid in memo:
            return memo[fid]
        f = by_id[fid]
        if anchored(f) or fid in seen:
            return {fid}
        out = set()
        for c in callers.get(fid, ()):
            out |= up(c, seen + (fid,))
        if not out:
            out = {fid}
        memo[fid] = out
        return out
    return {f["id"]: "|".join(sorted(up(f["id"]))) for f in fns}


def _cval(e, lets=None, depth=0):
    e = peel_block(peel(e))
    if e.get("k") == "Lit" and "int" in e:
        return e["int"]
    if e.get("k") in ("Const", "ConstBlock") and isinstance(e.get("val"), int):
        return e["val"]
    if e.get("k") == "Cast":
        return _cval(e["e"], lets, depth + 1)
    if e.get("k") == "Bin" and e["op"] in ("Add", "Sub", "Mul") and depth < 6:
        a, b = _cval(e["l"], lets, depth + 1), _cval(e["r"], lets, depth + 1)
        if a is None or b is None:
            return None
        return {"Add": a + b, "Sub": a - b, "Mul": a * b}[e["op"]]
    return None


def slice_copy_proved(x):
    """`dst.copy_from_slice(&src[a..b])` where dst is a fixed-size array of exactly b - a elements"""
    if len(x.get("args", [])) != 2:
        return False
    dty = (peel(x["args"][0]).get("ty") or x["args"][0].get("ty") or "")
    m = re.search(r"\[[^;\]]+; (\d+)\]", dty)
    if not m:
        return False
    n = int(m.group(1))
    for y in walk(x["args"][1]):
        if y.get("k") == "Call" and (callee(y) or "") in ("core::ops::index::Index::index", "core::ops::index::IndexMut::index_mut") and len(y["args"]) == 2:
            r = _range_of(y["args"][1])
            if r:
                lo = 0 if r[1] is None else _cval(r[1])
                hi = _cval(r[2]) if r[2] is not None else None
                if lo is not None and hi is not None and hi + (1 if r[0] == "incl" else 0) - lo == n:
                    return True
    return False


def range_index_proved(f, x):
    """`r[a..b]` with constant bounds, dominated by a reject-guard `r.len() < B` (B >= b) on the same receiver"""
    from ..ir import path_of
    rp = path_of(x["args"][0])
    rng = _range_of(x["args"][1])
    if rp is None or rng is None:
        return False
    lo = 0 if rng[1] is None else _cval(rng[1])
    hi = _cval(rng[2]) if rng[2] is not None else None
    if lo == 0 and hi is None and rng[2] is not None and rng[0] == "excl":
        # `arr[0..i]` where arr: [_; N] and i is the variable of an enclosing `for i in 0..N`
        hv = peel_block(peel(rng[2]))
        aty = (peel(x["args"][0]).get("ty") or "")
        m = re.search(r"; (\w+)\]$", aty.strip("&mut ").strip())
        if hv.get("k") == "Var" and m:
            for y in walk(f["body"]):
                if y.get("k") == "For" and y["pat"].get("k") == "Bind" and y["pat"]["v"] == hv["v"] and any(z is x for z in walk(y["body"])):
                    r2 = _range_of(y["iter"])
                    if r2 and r2[0] == "excl" and r2[2] is not None:
                        e2 = peel_block(peel(r2[2]))
                        tok = e2.get("name", e2.get("v")) if e2.get("k") == "ConstParam" else (str(e2.get("int")) if e2.get("k") == "Lit" else None)
                        if tok == m.group(1):
                            return True
        return False
    if lo is None or hi is None or lo > hi:
        return False
    need = hi + (1 if rng[0] == "incl" else 0)
    order = {id(y): i for i, y in enumerate(walk(f["body"]))}
    for y in walk(f["body"]):
        if y.get("k") != "If" or order[id(y)] > order[id(x)]:
            continue
        if any(z is x for z in walk(y)):
            continue
        c = peel_block(peel(y["c"]))
        if c.get("k") != "Bin" or c["op"] not in ("Lt", "Le") or not any(z.get("k") == "Return" for z in walk(y["t"])):
            continue
        l = peel_block(peel(c["l"]))
        if l.get("k") == "Call" and (callee(l) or "").endswith("::len") and l.get("args") and path_of(l["args"][0]) == rp:
            b = _cval(c["r"])
            if b is not None and (b if c["op"] == "Lt" else b + 1) >= need:
                return True
    return False


@rule("T3", ["C06", "C14"], floor=5, doc="every panicking construct (panic!/assert!/unreachable!, unwrap/expect, time arithmetic, length-checked slice "
      "copies) on a deserialization path is triaged in spec/panic_sites.json as data-independent; an untriaged site is reported")
def t3(facts, tier):
    triage = {t["key"]: t["reason"] for t in json.load(open(os.path.join(SPEC, "panic_sites.json")))}
    independent = []
    proved = []
    seen = {}
    on_err = set()
    rf = reader_fns(facts)
    anc = anchors(facts, rf)
    from ..flow import parent_map
    # helpers that are only reached when the stream decides so (the Err arm of a read, a branch on a value read): a construct inside
    # them that looks data-independent locally is still triggered by the input
    by_id = {g["id"]: g for g in rf}
    ctx_dep = set()
    err_dep = set()      # helpers reached from the Err arm of a read: a failing (truncated, unauthentic) stream reaches them
    # closures that only run for an Err: `r.map_err(|e| ..)`, `r.or_else(|e| ..)`, `r.unwrap_or_else(|e| ..)`
    for g in rf:
        for y in walk(g["body"]):
            if y.get("k") == "Call" and (callee(y) or "") in ("core::result::Result::map_err", "core::result::Result::or_else",
                                                              "core::result::Result::unwrap_or_else"):
                for a in y.get("args", [])[1:]:
                    cl = peel(a)
                    if cl.get("k") == "Closure" and cl.get("id") in by_id:
                        ctx_dep.add(cl["id"])
                        err_dep.add(cl["id"])
    for _round in range(3):
        for g in rf:
            gtv = gpm = None
            for y in walk(g["body"]):
                if y.get("k") != "Call":
                    continue
                t = (y.get("res") or {}).get("fn") or y.get("fn")
                h = by_id.get(t)
                if h is None or h["id"] in ctx_dep or h is g or (h.get("impl") or {}).get("trait") or h.get("pub"):
                    continue
                if gtv is None:
                    gtv = tainted_vars(g)
                    gpm = parent_map(g["body"])
                if control_dependent_only(g, y, gtv, gpm) or g["id"] in ctx_dep:
                    ctx_dep.add(h["id"])
                    if on_error_path(y, gpm) or g["id"] in err_dep:
                        err_dep.add(h["id"])
    for f in rf:
        tv = None
        pm = None
        for x in walk(f["body"]):
            if x.get("k") != "Call":
                continue
            k = panic_kind(x)
            if k:
                if tv is None:
                    tv = tainted_vars(f)
                    pm = parent_map(f["body"])
                if not data_dependent(f, x, tv, pm) and f["id"] not in ctx_dep:
                    independent.append((f, x, k))
                    continue
                if k == "rangeindex" and range_index_proved(f, x):
                    proved.append((f, x))
                    continue
                if k.startswith("slicelen:") and slice_copy_proved(x):
                    proved.append((f, x))
                    continue
                key = site_key(anc[f["id"]], k)
                if f["id"] in err_dep or on_error_path(x, pm):
                    on_err.add(key)
                seen.setdefault(key, (f, x, 0))
                seen[key] = (seen[key][0], seen[key][1], seen[key][2] + 1)
    for key, (f, x, n) in sorted(seen.items()):
        reason = triage.get(key)
        # C14 (a tampered encrypted file never panics): the AEAD layer turns every modification into a read error, so the constructs that
        # matter there are those of the crypto layer itself and those on the error path of a read
        pr = ["C06", "C14"] if ("crypto" in key or "Crypto" in key or "encrypted" in key or key in on_err) else ["C06"]
        if reason:
            yield ob(pr, "T3", key, "pass", where(f, x), f"triaged ({n} site(s)): {reason}")
        else:
            yield ob(pr, "T3", key, "violation", where(f, x),
                     f"untriaged panicking construct on a deserialization path that is fed by or control-dependent on data read "
                     f"from the stream: {key} — malformed input must yield Err, not a panic")
    for f_, x_ in proved:
        yield ob(["C06", "C14"], "T3", f"{f_['id']}:rangeindex:proved", "pass", where(f_, x_),
                 f"{f_['id']}: constant sub-range of a buffer whose length a dominating reject-guard bounds from below")
    yield ob(["C06"], "T3", "data-independent-sites", "pass", "", f"{len(independent)} panicking construct(s) on deserialization paths are "
             f"neither fed by nor control-dependent on stream data", nontrivial=False)


# ---------------------------------------------------------------------------------------------
# T1: interval analysis of values read from the stream

READ_RET = re.compile(r"^core::result::Result<(u8|u16|u32|u64|usize|u128|i8|i16|i32|i64|isize|i128), ")


def is_source(x):
    """a call that yields an untrusted integer: returns its type or None"""
    if x.get("k") != "Call":
        return None
    c = callee(x) or ""
    name = c.rsplit("::", 1)[-1]
    if (c.startswith("savefile::Deserializer::read_") or x.get("trait") == "byteorder::io::ReadBytesExt" or
            (c == "savefile::Deserialize::deserialize" and x.get("self_ty") in TYPE_MAX)
            or c.startswith("byteorder::ByteOrder::read_")):
        t = x.get("ty", "")
        m = READ_RET.match(t)
        if m:
            return m.group(1)
        if t in TYPE_MAX:
            return t
    return None


class Intervals:
    """upper bounds of untrusted values; None = not derived from input (trusted)"""

    def __init__(self, f):
        self.f = f
        self.findings = []
        self.sinks = []
        self.alloc_prov = set()
        self.guarded = set()

    def ub(self, n, env):
        """(upper bound or None, provenance set)"""
        n = peel_block(peel(n)) if isinstance(n, dict) else n
        if not isinstance(n, dict):
            return None, set()
        k = n.get("k")
        if k == "Try":
            return self.ub(n["e"], env)
        st = is_source(n)
        if st:
            return TYPE_MAX[st], {("src", id(n))}
        if k == "Var":
            return env.get(n["v"], (None, set()))
        if k == "Lit":
            return None, set()
        if k == "Cast":
            b, p = self.ub(n["e"], env)
            if b is None:
                return None, p
            return min(b, TYPE_MAX.get(n.get("ty"), b)), p
        if k == "Field" or k == "Index":
            return self.ub(n["e"], env)
        if k == "Adt" and n.get("variant") in ("Ok", "Some") and n["fields"]:
            return self.ub(n["fields"][0]["e"], env)
        if k == "Bin":
            (a, pa), (b, pb) = self.ub(n["l"], env), self.ub(n["r"], env)
            op = n["op"]
            if a is None and b is None:
                return None, set()
            ca, cb = self.const(n["l"], env), self.const(n["r"], env)
            av = a if a is not None else (ca if ca is not None else None)
            bv = b if b is not None else (cb if cb is not None else None)
            prov = pa | pb
            tmax = TYPE_MAX.get(n.get("ty"))
            if op in ("Mul", "Add", "Shl"):
                if av is None or bv is None:
                    # tainted combined with a trusted value of unknown size (len(), size_of::<T>(), a capacity).
                    # assumption (stated in the evidence): trusted lengths/offsets are <= isize::MAX, element sizes < 2^31
                    t = av if av is not None else bv
                    res = None
                    over = (t > 2**62) if op == "Add" else (t > 2**33)
                    other = "an unbounded operand"
                else:
                    res = av * bv if op == "Mul" else (av + bv if op == "Add" else av << min(bv, 200))
                    over = tmax is not None and res > tmax
                    other = None
                if over and tmax is not None:
                    self.findings.append((n, op, av, bv))
                return (min(res, tmax) if (res is not None and tmax) else tmax), prov
            if op == "Sub":
                return av, prov
            if op in ("Div", "Shr"):
                if av is not None and bv:
                    return (av // bv if op == "Div" else av >> min(bv, 200)), prov
                return av, prov
            if op == "Rem":
                return (bv - 1 if bv else av), prov
            if op == "BitAnd":
                cands = [v for v in (av, bv) if v is not None]
                return (min(cands) if cands else None), prov
            if op in ("BitOr", "BitXor"):
                return TYPE_MAX.get(n.get("ty")), prov
            return None, prov
        if k == "Call":
            c = callee(n) or ""
            m = re.search(r"::(checked|saturating|wrapping)_(mul|add|sub|shl)$", c)
            if m:
                ps = set()
                tainted = False
                for a in n["args"]:
                    b, p = self.ub(a, env)
                    ps |= p
                    tainted = tainted or b is not None
                return (TYPE_MAX.get("usize") if tainted else None), ps
            if c.endswith(("::min",)) and len(n["args"]) == 2:
                (a, pa), (b, pb) = self.ub(n["args"][0], env), self.ub(n["args"][1], env)
                ca, cb = self.const(n["args"][0], env), self.const(n["args"][1], env)
                vals = [v for v in (a, b, ca, cb) if v is not None]
                if a is None and ca is None or b is None and cb is None:
                    # min with an untainted unknown: bounded by something trusted
                    return (None if (a is None and b is None) else TYPE_MAX["usize"]), pa | pb
                return min(vals), pa | pb
            if c.endswith(("::try_from", "::try_into", "::from", "::into", "::unwrap", "::expect", "::unwrap_or", "::max",
                           "::clone", "::to_owned")) and n["args"]:
                return self.ub(n["args"][0], env)
            return None, set()
        return None, set()

    def const(self, n, env):
        n = peel_block(peel(n))
        if isinstance(n, dict):
            if n.get("k") == "Lit" and "int" in n:
                return n["int"]
            if n.get("k") in ("Const", "ConstBlock") and n.get("val") is not None:
                return n["val"]
            if n.get("k") == "Cast":
                return self.const(n["e"], env)
            if n.get("k") == "Bin":
                a, b = self.const(n["l"], env), self.const(n["r"], env)
                if a is not None and b is not None:
                    try:
                        return {"Add": a + b, "Sub": a - b, "Mul": a * b, "Shl": a << b}.get(n["op"])
                    except Exception:
                        return None
        return None

    # -- guards -------------------------------------------------------------
    def apply_guard(self, cond, env, reject_when_true):
        """`if cond { reject }`: on the continuing path cond is false (or true if reject_when_true is False)"""
        c = peel_block(peel(cond))
        k = c.get("k")
        if k == "Logic":
            if c["op"] == "Or" and reject_when_true:
                self.apply_guard(c["l"], env, True)
                self.apply_guard(c["r"], env, True)
            elif c["op"] == "And" and not reject_when_true:
                self.apply_guard(c["l"], env, False)
                self.apply_guard(c["r"], env, False)
            return
        if k == "Un" and c["op"] == "Not":
            self.apply_guard(c["e"], env, not reject_when_true)
            return
        if k != "Bin" or c["op"] not in ("Gt", "Ge", "Lt", "Le", "Ne", "Eq"):
            return
        op = c["op"]
        if not reject_when_true:
            op = {"Gt": "Le", "Ge": "Lt", "Lt": "Ge", "Le": "Gt", "Ne": "Eq", "Eq": "Ne"}[op]
            # continuing path satisfies `l op' r` negated twice: handle as: the path satisfies the ORIGINAL condition
            # so bound comes from the original relation
            self.bound_from(c["l"], c["op"], c["r"], env)
            return
        # continuing path satisfies NOT (l op r)
        neg = {"Gt": "Le", "Ge": "Lt", "Lt": "Ge", "Le": "Gt", "Ne": "Eq", "Eq": "Ne"}[op]
        self.bound_from(c["l"], neg, c["r"], env)

    def bound_from(self, l, op, r, env):
        """the path satisfies `l op r`"""
        for a, o, b in ((l, op, r), (r, {"Le": "Ge", "Lt": "Gt", "Ge": "Le", "Gt": "Lt", "Eq": "Eq", "Ne": "Ne"}[op], l)):
            va = peel(a)
            while isinstance(va, dict) and va.get("k") == "Cast":
                va = peel(va["e"])
            if not (isinstance(va, dict) and va.get("k") == "Var" and va["v"] in env and env[va["v"]][0] is not None):
                continue
            cb = self.const(b, env)
            ub_b, pb = self.ub(b, env)
            cur, prov = env[va["v"]]
            self.guarded.add(va["v"])
            if o in ("Le", "Eq") and cb is not None:
                env[va["v"]] = (min(cur, cb), prov)
            elif o == "Lt" and cb is not None:
                env[va["v"]] = (min(cur, cb - 1), prov)
            elif o in ("Le", "Lt", "Eq"):
                # bounded by another expression: inherit its bound and provenance (relation to an allocation);
                # a bound by a *trusted* value (capacity, const parameter, len()) makes the value trusted-sized
                if ub_b is None:
                    env[va["v"]] = (2**31, prov | pb | {("rel", id(b))})
                else:
                    env[va["v"]] = (min(cur, ub_b), prov | pb | {("rel", id(b))})

    # -- walk -------------------------------------------------------------------
    def rejects(self, n):
        if n is None:
            return False
        for x in walk(n):
            if x.get("k") == "Return":
                e = x.get("e")
                e = peel_block(e) if e else None
                if e is None or (e.get("k") == "Adt" and e.get("variant") in ("Err", "None")) or e.get("k") == "Call":
                    return True
            if x.get("k") in ("Break", "Continue"):
                return True
            if x.get("k") == "Call" and (callee(x) or "") in PANICS:
                return True
        return False

    def block(self, b, env):
        for s in b.get("stmts", []):
            if s["k"] == "LetS":
                init = s.get("init")
                if init is not None:
                    self.expr(init, env)
                    self.bind(s["pat"], self.ub(init, env), env)
                    if s.get("else"):
                        self.block(s["else"], dict(env))
            else:
                self.expr(s["e"], env)
        if b.get("e") is not None:
            self.expr(b["e"], env)

    def bind(self, pat, val, env):
        k = pat.get("k")
        if k == "Bind":
            env[pat["v"]] = val
            if "sub" in pat:
                self.bind(pat["sub"], val, env)
        elif k in ("Variant", "Leaf"):
            for s in pat.get("subs", []):
                self.bind(s["p"], val if pat.get("variant") in ("Ok", "Some") else (None, set()), env)

    def expr(self, n, env):
        if not isinstance(n, dict):
            return
        k = n.get("k")
        if k == "Block":
            self.block(n, env)
            return
        if k == "If":
            self.expr(n["c"], env)
            t_rej, f_rej = self.rejects(n["t"]), self.rejects(n.get("f"))
            envt, envf = dict(env), dict(env)
            self.apply_guard(n["c"], envt, False)
            self.expr(n["t"], envt)
            if n.get("f"):
                self.apply_guard(n["c"], envf, True)
                self.expr(n["f"], envf)
            if t_rej and not f_rej:
                self.apply_guard(n["c"], env, True)
            elif f_rej and not t_rej:
                self.apply_guard(n["c"], env, False)
            return
        if k == "Match":
            self.expr(n["e"], env)
            v = self.ub(n["e"], env)
            for a in n["arms"]:
                e2 = dict(env)
                self.bind(a["pat"], v, e2)
                if a.get("guard"):
                    self.expr(a["guard"], e2)
                self.expr(a["body"], e2)
            return
        if k in ("Loop", "For"):
            e2 = dict(env)
            if k == "For":
                self.expr(n["iter"], env)
                self.bind(n["pat"], (None, set()), e2)
            self.expr(n["body"], e2)
            return
        if k == "Assign" or k == "AssignOp":
            self.expr(n["r"], env)
            l = peel(n["l"])
            if l.get("k") == "Var":
                if k == "Assign":
                    env[l["v"]] = self.ub(n["r"], env)
                else:
                    fake = {"k": "Bin", "op": n["op"], "l": n["l"], "r": n["r"], "ty": n["l"].get("ty"), "ln": n.get("ln")}
                    env[l["v"]] = self.ub(fake, env)
            return
        if k == "Bin":
            self.ub(n, env)   # records overflow findings
        if k == "Call":
            self.sink(n, env)
        for ch in children(n):
            self.expr(ch, env)

    def sink(self, n, env):
        c = callee(n) or ""
        name = c.rsplit("::", 1)[-1]
        # allocation-like calls sized by an untrusted value: remember the provenance (the matching length is then in bounds)
        if name in ("with_capacity", "resize", "from_elem", "alloc", "from_size_align", "reserve", "reserve_exact", "alloc_zeroed"):
            for a in n["args"]:
                b, p = self.ub(a, env)
                if b is not None:
                    self.alloc_prov |= p
                    for y in walk(a):
                        if y.get("k") == "Var":
                            self.alloc_prov.add(("var", y["v"]))
        if name in ("from_raw_parts", "from_raw_parts_mut", "set_len", "copy_nonoverlapping", "copy", "add", "offset", "set_len_unchecked") \
                and (c.startswith(("core::slice::raw::", "alloc::vec::Vec::", "core::ptr::", "core::intrinsics::", "*const T::", "*mut T::",
                                   "bit_vec::BitVec::", "core::ptr::mut_ptr::", "core::ptr::const_ptr::"))):
            for a in n["args"][1:] if name != "set_len" else n["args"][1:]:
                b, p = self.ub(a, env)
                if b is not None:
                    vars_ = {("var", y["v"]) for y in walk(a) if y.get("k") == "Var"}
                    self.sinks.append((n, name, a, b, p, vars_))


def fn_param_env(f):
    return {}


@rule("T1", ["C06"], floor=40, doc="interval analysis of every value read from the stream on the deserialization paths: an unchecked `* + <<` whose "
      "result can exceed its type (given the dominating reject-guards) is reported; checked_/saturating_ arithmetic and guards sanitise")
def t1(facts, tier):
    for f in reader_fns(facts):
        if f["crate"] != "savefile":
            continue
        iv = Intervals(f)
        iv.expr(f["body"], {})
        seen = {}
        for (n, op, a, b) in iv.findings:
            k = f"{f['id']}:{op}"
            seen[k] = seen.get(k, 0) + 1
            key = k if seen[k] == 1 else f"{k}#{seen[k]}"
            yield ob(["C06"], "T1", key, "violation", where(f, n),
                     f"{f['id']}: unchecked `{op}` on a value read from the input (operand bounds {a if a is not None else 'unbounded'}, "
                     f"{b if b is not None else 'unbounded'}) can overflow {n.get('ty')}: panic in debug builds, wrap-around (and a too small "
                     f"buffer) in release builds")
        if not iv.findings:
            yield ob(["C06"], "T1", f["id"], "pass", where(f), "no overflowing arithmetic on untrusted values",
                     nontrivial=any(is_source(x) for x in walk(f["body"])))


@rule("T2", ["C06"], floor=3, doc="an untrusted length reaching set_len / from_raw_parts / pointer arithmetic is either the very value the "
      "buffer was allocated with, or bounded by a dominating reject-guard that relates it to the allocation")
def t2(facts, tier):
    for f in reader_fns(facts):
        if f["crate"] != "savefile":
            continue
        iv = Intervals(f)
        iv.expr(f["body"], {})
        seen = {}
        for (n, name, a, b, prov, vars_) in iv.sinks:
            k = f"{f['id']}:{name}"
            seen[k] = seen.get(k, 0) + 1
            key = k if seen[k] == 1 else f"{k}#{seen[k]}"
            tied = bool(prov & iv.alloc_prov) or bool(vars_ & iv.alloc_prov) or any(p[0] == "rel" for p in prov) \
                or any(v[1] in iv.guarded for v in vars_)
            if tied:
                yield ob(["C06"], "T2", key, "pass", where(f, n), f"length passed to {name} is tied to the allocation / bounded by a guard")
            else:
                yield ob(["C06"], "T2", key, "violation", where(f, n),
                         f"{f['id']}: an untrusted length reaches `{name}` without being the allocated size or bounded against it: "
                         f"the returned collection can claim more elements than were read (out-of-bounds access)")


# ---------------------------------------------------------------------------------------------
# taint (any type): which variables hold data derived from the stream

def tainted_vars(f):
    """flow-insensitive: variables assigned from an expression that contains a stream read or a tainted variable"""
    def has_source(n, tv):
        for x in walk(n):
            if x.get("k") == "Call":
                c = callee(x) or ""
                if c.startswith("savefile::Deserializer::read_") or x.get("trait") in ("byteorder::io::ReadBytesExt", "std::io::Read") \
                        or c == "savefile::Deserialize::deserialize" or c.startswith("byteorder::ByteOrder::read_") \
                        or c.endswith(("fs::read", "fs::read_to_string")):
                    return True
            if x.get("k") == "Var" and x["v"] in tv:
                return True
        return False
    tv = set()
    # private helpers and closures: their parameters may carry stream data handed in by a caller
    anchored = bool(f.get("impl") and f["impl"].get("trait")) or (f.get("pub") and f.get("kind") != "Closure")
    if not anchored:
        for p in f["params"]:
            if p.get("pat"):
                for b in pat_binds(p["pat"]):
                    if not re.search(r"Deserializer<|Serializer<", p.get("ty") or ""):
                        tv.add(b["v"])
    changed = True
    while changed:
        changed = False
        for x in walk(f["body"]):
            k = x.get("k")
            tgt = []
            src = None
            if k == "LetS" and x.get("init") is not None:
                src = x["init"]
                tgt = [y["v"] for y in pat_binds(x["pat"])]
            elif k in ("Assign", "AssignOp"):
                src = x["r"]
                l = peel(x["l"])
                while isinstance(l, dict) and l.get("k") in ("Index", "Field"):
                    l = peel(l["e"])
                if isinstance(l, dict) and l.get("k") == "Var":
                    tgt = [l["v"]]
            elif k == "For":
                src = x["iter"]
                tgt = [y["v"] for y in pat_binds(x["pat"])]
            elif k == "Match":
                src = x["e"]
                tgt = [y["v"] for a in x["arms"] for y in pat_binds(a["pat"])]
            elif k == "Let":
                src = x["e"]
                tgt = [y["v"] for y in pat_binds(x["pat"])]
            elif k == "Call" and (callee(x) or "") in ("std::io::Read::read_exact", "std::io::Read::read"):
                # the buffer handed to a read becomes tainted
                for a in x["args"][1:]:
                    for y in walk(a):
                        if y.get("k") == "Var" and y["v"] not in tv:
                            tv.add(y["v"])
                            changed = True
            if src is not None and tgt and has_source(src, tv):
                for t in tgt:
                    if t not in tv:
                        tv.add(t)
                        changed = True
    return tv


def pat_binds(p):
    out = []
    k = p.get("k")
    if k == "Bind":
        out.append(p)
        if "sub" in p:
            out += pat_binds(p["sub"])
    elif k in ("Leaf", "Variant"):
        for s in p.get("subs", []):
            out += pat_binds(s["p"])
    elif k == "Or":
        for q in p["pats"]:
            out += pat_binds(q)
    elif k == "Slice":
        for q in p.get("prefix", []) + p.get("suffix", []):
            out += pat_binds(q)
        if p.get("slice"):
            out += pat_binds(p["slice"])
    return out


def data_dependent(f, site, tv, pm):
    """is the panicking construct fed by, or control-dependent on, data from the stream?"""
    def mentions(n):
        for x in walk(n):
            if x.get("k") == "Var" and x["v"] in tv:
                return True
            if x.get("k") == "Call":
                c = callee(x) or ""
                if c.startswith("savefile::Deserializer::read_") or x.get("trait") in ("byteorder::io::ReadBytesExt",) \
                        or c == "savefile::Deserialize::deserialize":
                    return True
        return False
    if mentions(site):
        return True
    p = pm.get(id(site))
    child = site
    while p is not None:
        k = p.get("k")
        if k == "If" and child is not p["c"] and mentions(p["c"]):
            return True
        if k == "Match" and child is not p["e"] and mentions(p["e"]):
            return True
        if k in ("For",) and mentions(p["iter"]):
            return True
        if k == "LetS" and p.get("else") is child and p.get("init") is not None and mentions(p["init"]):
            return True
        child = p
        p = pm.get(id(p))
    return False


def on_error_path(site, pm):
    """does the site lie in the arm of a match (or if-let / let-else) that handles the Err of a Result?"""
    from ..flow import pat_covers_err
    p, child = pm.get(id(site)), site
    while p is not None:
        if p.get("k") == "Match" and child is not p.get("e") and "Result<" in ((p.get("e") or {}).get("ty") or ""):
            for a in p.get("arms", []):
                if a.get("body") is child and a["pat"].get("k") == "Variant" and pat_covers_err(a["pat"]):
                    return True
        if p.get("k") == "LetS" and p.get("else") is child and "Result<" in ((p.get("init") or {}).get("ty") or ""):
            return True
        child, p = p, pm.get(id(p))
    return False


def control_dependent_only(f, site, tv, pm):
    """is the call site reached only when a condition on stream data (or the outcome of a read) says so? (loops over a count do not
    qualify: a helper called once per element is reached for well-formed input too)"""
    def mentions(n):
        for x in walk(n):
            if x.get("k") == "Var" and x["v"] in tv:
                return True
            if x.get("k") == "Call":
                c = callee(x) or ""
                if c.startswith("savefile::Deserializer::read_") or x.get("trait") in ("byteorder::io::ReadBytesExt",) \
                        or c == "savefile::Deserialize::deserialize":
                    return True
        return False
    p, child = pm.get(id(site)), site
    while p is not None:
        k = p.get("k")
        if k == "If" and child is not p["c"] and mentions(p["c"]):
            return True
        if k == "Match" and child is not p["e"] and mentions(p["e"]):
            return True
        if k == "LetS" and p.get("else") is child and p.get("init") is not None and mentions(p["init"]):
            return True
        child, p = p, pm.get(id(p))
    return False


# ---------------------------------------------------------------------------------------------
# T4: capacity guards are inclusive

@rule("T4", ["C01", "C06"], floor=1, doc="a length read from the stream that is checked against a container's capacity parameter is rejected only when it is "
      "strictly greater: a completely full container is a value the writer produces")
def t4(facts, tier):
    from ..flow import parent_map
    n = 0
    for f in reader_fns(facts):
        if f["crate"] != "savefile":
            continue
        tv = tainted_vars(f)
        for x in walk(f["body"]):
            if x.get("k") != "If":
                continue
            c = peel_block(peel(x["c"]))
            if c.get("k") != "Bin" or c["op"] not in ("Gt", "Ge", "Lt", "Le"):
                continue
            l, r = peel(c["l"]), peel(c["r"])
            lv = l.get("v") if l.get("k") == "Var" else None
            rv = r.get("v") if r.get("k") == "Var" else None
            cap_right = r.get("k") == "ConstParam" and lv in tv
            cap_left = l.get("k") == "ConstParam" and rv in tv
            if not (cap_right or cap_left):
                continue
            iv = Intervals(f)
            if not iv.rejects(x["t"]):
                continue
            n += 1
            op = c["op"] if cap_right else {"Gt": "Lt", "Ge": "Le", "Lt": "Gt", "Le": "Ge"}[c["op"]]
            ok = op == "Gt"
            key = (f.get("impl") or {}).get("self_ty", f["id"])
            yield ob(["C01", "C06"], "T4", key, "pass" if ok else "violation", where(f, x),
                     f"{f['id']}: length rejected only when it exceeds the capacity" if ok else
                     f"{f['id']}: a length equal to the capacity parameter is rejected (`{c['op']}`): a completely full container saves but does not load")


# ---------------------------------------------------------------------------------------------
# T5: the bit count of a BitVec is bounded by the storage that was actually allocated (finite-domain evaluation of the
# two length expressions)

def arith(n, env):
    """value of a pure arithmetic expression under env (var -> int); None if not evaluable"""
    n = peel_block(peel(n))
    k = n.get("k")
    if k == "Lit" and "int" in n:
        return n["int"]
    if k == "Var":
        return env.get(n["v"])
    if k == "Cast":
        return arith(n["e"], env)
    if k == "Try":
        return arith(n["e"], env)
    if k == "Bin":
        a, b = arith(n["l"], env), arith(n["r"], env)
        if a is None or b is None:
            return None
        op = n["op"]
        try:
            if op == "Add":
                return a + b
            if op == "Sub":
                return a - b
            if op == "Mul":
                return a * b
            if op == "Div":
                return a // b if b else None
            if op == "Rem":
                return a % b if b else None
            if op == "Shl":
                return a << b
            if op == "Shr":
                return a >> b
            if op == "BitAnd":
                return a & b
            if op == "BitOr":
                return a | b
        except Exception:
            return None
        return None
    if k == "Un" and n.get("op") == "Not":
        a = arith(n["e"], env)
        return None if a is None else (~a) & (2**64 - 1)
    if k == "Call":
        c = callee(n) or ""
        m = re.search(r"::(checked|saturating|wrapping)_(mul|add|sub)$", c)
        if m and len(n["args"]) == 2:
            a, b = arith(n["args"][0], env), arith(n["args"][1], env)
            if a is None or b is None:
                return None
            r = {"mul": a * b, "add": a + b, "sub": a - b}[m.group(2)]
            return max(0, min(r, 2**64 - 1))
        if c.endswith("::min") and len(n["args"]) == 2:
            a, b = arith(n["args"][0], env), arith(n["args"][1], env)
            return None if a is None or b is None else min(a, b)
        if c.endswith("::max") and len(n["args"]) == 2:
            a, b = arith(n["args"][0], env), arith(n["args"][1], env)
            return None if a is None or b is None else max(a, b)
    return None


@rule("T5", ["C06"], floor=2, doc="BitVec readers: for every stored byte count (finite-domain evaluation over 0..67 and large values) the bound that the "
      "bit count is checked against does not exceed the bits of the storage words actually allocated")
def t5(facts, tier):
    for f in reader_fns(facts):
        if f["crate"] != "savefile" or "BitVec" not in f["id"] or (f.get("impl") or {}).get("trait") != "savefile::Deserialize":
            continue
        lets = []
        resize_arg = setlen_arg = None
        guard = None
        elem_bits = 32
        for x in walk(f["body"]):
            k = x.get("k")
            if k == "LetS" and x["pat"].get("k") == "Bind" and x.get("init") is not None:
                lets.append((x["pat"]["v"], x["init"]))
            if k in ("Assign", "AssignOp") and peel(x["l"]).get("k") == "Var":
                lets.append((peel(x["l"])["v"], x["r"] if k == "Assign" else
                             {"k": "Bin", "op": x["op"].replace("Assign", ""), "l": x["l"], "r": x["r"]}))
            if k == "Call":
                c = callee(x) or ""
                if c.endswith("Vec::resize") and len(x["args"]) >= 2 and resize_arg is None:
                    resize_arg = x["args"][1]
                    m = re.search(r"Vec<(u\d+)", x["args"][0].get("ty", ""))
                    if m:
                        elem_bits = int(m.group(1)[1:])
                if c.endswith("BitVec::set_len") and len(x["args"]) == 2:
                    setlen_arg = x["args"][1]
            if k == "If":
                c = peel_block(peel(x["c"]))
                if c.get("k") == "Bin" and c["op"] in ("Gt", "Ge") and Intervals(f).rejects(x["t"]):
                    guard = guard or c
        key = f["id"]
        if resize_arg is None or setlen_arg is None:
            continue
        sv = peel(setlen_arg)
        if guard is None or not (peel(guard["l"]).get("k") == "Var" and sv.get("k") == "Var" and peel(guard["l"])["v"] == sv["v"]):
            yield ob(["C06"], "T5", key, "violation", where(f),
                     f"{key}: set_len is not dominated by a reject-guard on the bit count")
            continue
        # free variables: stream values (first assignment from a read); evaluate let chain for samples
        bad = None
        samples = list(range(0, 68)) + [2**20 + i for i in range(4)] + [2**40 + 3]
        src = None
        for v, init in lets:
            if any(is_source(y) for y in walk(init)):
                src = src or []
                src.append(v)
        if not src:
            yield ob(["C06"], "T5", key, "undecided", where(f), "stream sources not identified")
            continue
        und = False
        for nb in samples:
            env = {}
            for v in src:
                env[v] = nb
            for v, init in lets:
                if v in src and v in env and any(is_source(y) for y in walk(init)):
                    continue
                val = arith(init, env)
                if val is not None:
                    env[v] = val
            bound = arith(guard["r"], env)
            words = arith(resize_arg, env)
            if bound is None or words is None:
                und = True
                break
            allowed = bound if guard["op"] == "Gt" else bound - 1
            if allowed > words * elem_bits:
                bad = (nb, allowed, words)
                break
        if und:
            yield ob(["C06"], "T5", key, "undecided", where(f), "bound or allocation expression not evaluable")
        elif bad:
            nb, allowed, words = bad
            yield ob(["C06"], "T5", key, "violation", where(f),
                     f"{key}: for a stored byte count of {nb} a bit count up to {allowed} passes the check but only {words} word(s) = "
                     f"{words * elem_bits} bits are allocated: set_len claims more bits than the storage holds")
        else:
            yield ob(["C06"], "T5", key, "pass", where(f), f"accepted bit count <= allocated bits for all {len(samples)} sampled byte counts")


# ---------------------------------------------------------------------------------------------
# T6: initialisation typestate of element-wise filled `[MaybeUninit<T>; N]` buffers in the readers

_MU = "core::mem::maybe_uninit::MaybeUninit"


def _derives_from(n, names):
    """does the expression mention one of the variables in `names`?"""
    return any(y.get("k") == "Var" and y.get("v") in names for y in walk(n))


def _range_of(n):
    """('excl'|'incl', start, end) of a range constructor expression, else None"""
    n = peel_block(peel(n))
    if n.get("k") == "Adt" and n.get("adt", n.get("ty", "")).split("<")[0].endswith("ops::range::Range"):
        fs = {x["name"] if "name" in x else x.get("f"): x["e"] for x in n["fields"]}
        return ("excl", fs.get("start"), fs.get("end"))
    if n.get("k") == "Adt" and "RangeTo" in n.get("adt", n.get("ty", "")) and "Inclusive" not in n.get("adt", n.get("ty", "")):
        fs = {x["name"] if "name" in x else x.get("f"): x["e"] for x in n["fields"]}
        return ("excl", None, fs.get("end"))
    if n.get("k") == "Call" and (callee(n) or "").endswith("RangeInclusive::new") and len(n["args"]) == 2:
        return ("incl", n["args"][0], n["args"][1])
    return None


def _is_zero(n):
    if n is None:
        return True
    n = peel_block(peel(n))
    return n.get("k") == "Lit" and n.get("int") == 0


@rule("T6", ["C06"], floor=1, doc="typestate of every element-wise initialised `[MaybeUninit<T>; N]` buffer in a reader: the whole array is assumed "
      "initialised only after a fill of all N slots that cannot be left early except by returning; a slot is assumed initialised "
      "inside the fill loop (error clean-up) only for indices below the one being filled")
def t6(facts, tier):
    from ..flow import parent_map
    for f in facts.fns_of_crate("savefile"):
        body = f.get("body")
        if not body:
            continue
        bufs = {}
        guards_ = {}
        for x in walk(body):
            if x.get("k") == "LetS" and x["pat"].get("k") == "Bind" and x.get("init") is not None:
                ty = x["pat"].get("ty") or x["init"].get("ty") or ""
                m = re.match(r"\[" + re.escape(_MU) + r"<(.+)>; (\w+)\]$", ty)
                if m:
                    bufs[x["pat"]["v"]] = (x, m.group(1), m.group(2))
                else:
                    # a local guard struct that owns the buffer: `Partial { data: uninit-array, initialized: 0 }`
                    i0 = peel_block(peel(x["init"]))
                    if i0.get("k") == "Adt":
                        for fl in i0.get("fields", []):
                            fty = (fl["e"].get("ty") or "")
                            m2 = re.match(r"\[" + re.escape(_MU) + r"<(.+)>; (\w+)\]$", fty)
                            if m2:
                                bufs[x["pat"]["v"]] = (x, m2.group(1), m2.group(2))
                                guards_[x["pat"]["v"]] = (i0.get("adt"), str(fl["f"]))
        if not bufs:
            continue
        pm = parent_map(body)

        def ancestors(n):
            p = pm.get(id(n))
            while p is not None:
                yield p
                p = pm.get(id(p))

        def stmt_in(block, n):
            """index of the statement of `block` that contains n"""
            chain = [n] + list(ancestors(n))
            for i, s in enumerate(block["stmts"]):
                if any(s is c for c in chain):
                    return i
            return len(block["stmts"]) if block.get("e") is not None and any(block["e"] is c for c in chain) else None

        order = sorted(bufs, key=lambda v: int(v.split("#")[1]) if "#" in v and v.split("#")[1].isdigit() else 0)
        for D, (let, elem, N) in sorted(bufs.items()):
            Dk = f"{D.split('#')[0]}.{order.index(D) + 1}"
            # aliases: variables bound from expressions mentioning D (ptr, slice, loop variables over slices of D)
            names = {D}
            changed = True
            while changed:
                changed = False
                for x in walk(body):
                    if x.get("k") == "LetS" and x["pat"].get("k") == "Bind" and x.get("init") is not None \
                            and x["pat"]["v"] not in names and _derives_from(x["init"], names):
                        names.add(x["pat"]["v"]); changed = True
                    if x.get("k") == "For" and x["pat"].get("k") == "Bind" and x["pat"]["v"] not in names \
                            and _derives_from(x["iter"], names):
                        names.add(x["pat"]["v"]); changed = True
            # fills
            fills = []   # (loop, assign, idxvar)
            for x in walk(body):
                if x.get("k") != "For" or x["pat"].get("k") != "Bind":
                    continue
                r = _range_of(x["iter"])
                if not r or r[0] != "excl" or not _is_zero(r[1]):
                    continue
                e = peel_block(peel(r[2])) if r[2] is not None else {}
                full = (e.get("k") == "ConstParam" and e.get("name", e.get("v")) == N) or \
                       (e.get("k") == "Lit" and str(e.get("int")) == N)
                for y in walk(x["body"]):
                    if y.get("k") == "Assign":
                        l = y["l"]
                        while l.get("k") in ("Deref",):
                            l = l["e"]
                        if l.get("k") == "Index" and peel(l["e"]).get("k") == "Var" and peel(l["e"])["v"] == D \
                                and peel(l["i"]).get("k") == "Var" and peel(l["i"])["v"] == x["pat"]["v"] \
                                and (callee(peel_block(y["r"])) or "").startswith(_MU) and (callee(peel_block(y["r"])) or "").endswith("::new"):
                            breaks = [b for b in walk(x["body"]) if b.get("k") == "Break"
                                      and not any(a.get("k") in ("Loop", "For") and a is not x and any(a is c for c in ancestors(b))
                                                  and any(x is c for c in ancestors(a)) for a in ancestors(b))]
                            fills.append({"loop": x, "assign": y, "idx": x["pat"]["v"], "full": full, "breaks": breaks})
            for x in walk(body):
                # `for slot in D.iter_mut() { *slot = MaybeUninit::new(..) }`
                if x.get("k") == "For" and x["pat"].get("k") == "Bind" and _derives_from(x["iter"], {D}):
                    itc = peel_block(peel(x["iter"]))
                    whole_iter = itc.get("k") == "Call" and (callee(itc) or "").endswith("::iter_mut") and \
                        not any(y.get("k") == "Call" and (callee(y) or "").endswith(("index_mut", "index", "::take", "::skip")) for y in walk(itc))
                    for y in walk(x["body"]):
                        if y.get("k") == "Assign":
                            l = y["l"]
                            while l.get("k") in ("Deref",) and peel(l).get("k") != "Var":
                                l = l["e"]
                            lv = peel(l)
                            rc = callee(peel_block(y["r"])) or ""
                            if lv.get("k") == "Var" and lv["v"] == x["pat"]["v"] and rc.startswith(_MU) and rc.endswith("::new"):
                                breaks = [b_ for b_ in walk(x["body"]) if b_.get("k") == "Break"]
                                fills.append({"loop": x, "assign": y, "idx": x["pat"]["v"], "full": whole_iter, "breaks": breaks})
            bulk = []
            for x in walk(body):
                if x.get("k") == "Call" and (callee(x) or "").endswith("Read::read_exact") and _derives_from(x, names):
                    # the slice handed to read_exact covers size_of::<T>() * N bytes of the buffer
                    lens = [y for y in walk(body) if y.get("k") == "Call" and (callee(y) or "").endswith("from_raw_parts_mut")
                            and _derives_from(y, names)]
                    ok = False
                    for y in lens:
                        ln = peel(y["args"][1])
                        if ln.get("k") == "Var":
                            lv = ln["v"]
                            for z in walk(body):
                                if z.get("k") == "LetS" and z["pat"].get("k") == "Bind" and z["pat"]["v"] == lv and z.get("init"):
                                    ln = peel_block(peel(z["init"]))
                        if ln.get("k") == "Bin" and ln["op"] == "Mul":
                            a, b = peel_block(peel(ln["l"])), peel_block(peel(ln["r"]))
                            for p, q in ((a, b), (b, a)):
                                if p.get("k") == "Call" and (callee(p) or "").endswith("mem::size_of") and (p.get("targs") or [None])[0] == elem \
                                        and q.get("k") == "ConstParam" and q.get("name", q.get("v")) == N:
                                    ok = True
                    bulk.append({"call": x, "full": ok})
            nwhole = nelem = 0
            for x in walk(body):
                if x.get("k") != "Call" or x is peel_block(let["init"]) or any(x is y for y in walk(let["init"])):
                    continue
                c = callee(x) or ""
                whole = (c.endswith("::read") and c.startswith("*")) or c.endswith("ptr::read") or c.endswith("intrinsics::transmute") \
                    or c.endswith("mem::transmute_copy") or (c.startswith(_MU) and c.endswith("::assume_init"))
                elemuse = c.startswith(_MU) and re.search(r"::assume_init(_drop|_read|_ref|_mut)?$", c) is not None
                if not x.get("args") or not _derives_from(x["args"][0], names):
                    continue
                # element use: receiver is an indexed slot / loop variable over a sub-slice
                recv = x["args"][0]
                via_loop = None
                for a in ancestors(x):
                    if a.get("k") == "For" and a["pat"].get("k") == "Bind" and _derives_from(recv, {a["pat"]["v"]}) \
                            and _derives_from(a["iter"], names - {a["pat"]["v"]}):
                        via_loop = a
                        break
                idx_node = next((y for y in walk(recv) if y.get("k") == "Index" and peel(y["e"]).get("k") == "Var"
                                 and peel(y["e"])["v"] == D), None)
                if elemuse and (via_loop is not None or idx_node is not None):
                    nelem += 1
                    key = f"{f['id']}:{Dk}:slot-assumed-init#{nelem}"
                    encl = [fl for fl in fills if any(fl["loop"] is a for a in ancestors(x))]
                    if not encl:
                        after = [fl for fl in fills if fl["full"] and not fl["breaks"]]
                        st = "pass" if after else "undecided"
                        yield ob(["C06"], "T6", key, st, where(f, x),
                                 f"{f['id']}: slots of `{Dk}` assumed initialised outside the fill loop" +
                                 ("" if after else " and no complete fill was recognised"))
                        continue
                    fl = encl[0]
                    # was the slot of the current index already assigned on the way here?
                    assigned = False
                    for a in ancestors(x):
                        if a.get("k") == "Block":
                            i, j = stmt_in(a, x), stmt_in(a, fl["assign"])
                            if i is not None and j is not None and j < i:
                                assigned = True
                        if a is fl["loop"]:
                            break
                    verdict = None
                    if via_loop is not None:
                        rr = None
                        for y in walk(via_loop["iter"]):
                            rr = rr or _range_of(y)
                        if rr and _is_zero(rr[1]) and rr[2] is not None and peel(rr[2]).get("k") == "Var" and peel(rr[2])["v"] == fl["idx"]:
                            verdict = True if rr[0] == "excl" or assigned else False
                            what = f"slots 0..{'=' if rr[0]=='incl' else ''}{fl['idx'].split('#')[0]}"
                        else:
                            what = "a range that is not 0..idx"
                    else:
                        iv = peel(idx_node["i"])
                        what = "an indexed slot"
                        if iv.get("k") == "Var" and iv["v"] == fl["idx"]:
                            verdict = bool(assigned)
                            what = f"slot {fl['idx'].split('#')[0]}"
                    if verdict is True:
                        yield ob(["C06"], "T6", key, "pass", where(f, x), f"{f['id']}: {what} of `{Dk}` are initialised at this point")
                    elif verdict is False:
                        yield ob(["C06"], "T6", key, "violation", where(f, x),
                                 f"{f['id']}: `{c.split('::')[-1]}` on {what} of `{Dk}` while slot `{fl['idx'].split('#')[0]}` has not been written in this "
                                 f"iteration (the failing read is the one that would have produced it): an uninitialised `{elem}` is "
                                 f"dropped/read when the input ends or is malformed at this element")
                    else:
                        yield ob(["C06"], "T6", key, "undecided", where(f, x),
                                 f"{f['id']}: `{c.split('::')[-1]}` on {what} of `{Dk}` inside the fill loop: initialisation not established")
                    continue
                if whole and not elemuse or (elemuse and c.endswith("::assume_init")):
                    if "MaybeUninit<u8>" in " ".join(x.get("targs") or []) and c.endswith("transmute"):
                        continue    # byte view handed to read_exact (initialising use, not an assuming one)
                    nwhole += 1
                    key = f"{f['id']}:{Dk}:whole-array-assumed-init#{nwhole}"
                    in_fill = any(any(fl["loop"] is a for a in ancestors(x)) for fl in fills)
                    # a complete fill precedes the use in an enclosing block
                    ok = False
                    why = "no complete fill precedes it"
                    for a in ancestors(x):
                        if a.get("k") != "Block":
                            continue
                        i = stmt_in(a, x)
                        for fl in fills:
                            j = stmt_in(a, fl["loop"])
                            if i is not None and j is not None and j < i:
                                if fl["full"] and not fl["breaks"]:
                                    ok = True
                                else:
                                    why = "the fill loop does not cover 0..N or can be left by `break`"
                        for b in bulk:
                            j = stmt_in(a, b["call"])
                            if i is not None and j is not None and j < i:
                                # the read_exact must be `?`-propagated: its parent is a Try
                                par = pm.get(id(b["call"]))
                                if b["full"] and par is not None and par.get("k") == "Try":
                                    ok = True
                                else:
                                    why = "the bulk read does not cover size_of::<T>()*N bytes or its error is not propagated"
                    if in_fill:
                        ok, why = False, "it is inside the fill loop"
                    unknown_fill = not ok and not fills and not bulk     # initialised by an idiom this rule does not model
                    yield ob(["C06"], "T6", key, "pass" if ok else ("undecided" if unknown_fill else "violation"), where(f, x),
                             f"{f['id']}: `{Dk}` is read as `[{elem}; {N}]` after a complete fill" if ok else
                             f"{f['id']}: `{Dk}` is read as an initialised `[{elem}; {N}]` but {why}")
            # T6b: a drop guard that assumes `data[..count]` initialised: the count is raised only after the slot has been written
            if D in guards_:
                adt, bfield = guards_[D]
                dropf = next((g for g in facts.fns.values() if (g.get("impl") or {}).get("trait") in ("core::ops::drop::Drop", "std::ops::Drop")
                              and re.split(r"[<]", (g.get("impl") or {}).get("self_ty", "").rsplit("::", 1)[-1])[0] == (adt or "").rsplit("::", 1)[-1].split("<")[0]
                              and g.get("body")), None)
                counter = None
                if dropf is not None:
                    for y in walk(dropf["body"]):
                        r = _range_of(y)
                        if r and r[2] is not None and peel(r[2]).get("k") == "Field" and \
                                any(z.get("k") == "Call" and "assume_init" in (callee(z) or "") for z in walk(dropf["body"])):
                            counter = peel(r[2])["f"]
                if counter is not None:
                    n_inc = 0
                    for fl_ in fills:
                        blk = None
                        for a_ in ancestors(fl_["assign"]):
                            if a_.get("k") == "Block":
                                blk = a_
                                break
                        for y in walk(fl_["loop"]["body"]):
                            if y.get("k") == "AssignOp" and y["op"] == "AddAssign" and peel(y["l"]).get("k") == "Field" and peel(y["l"])["f"] == counter:
                                n_inc += 1
                                i_inc = stmt_in(blk, y) if blk else None
                                i_asg = stmt_in(blk, fl_["assign"]) if blk else None
                                ok = i_inc is not None and i_asg is not None and i_asg < i_inc
                                yield ob(["C06"], "T6", f"{f['id']}:{Dk}:guard-count#{n_inc}", "pass" if ok else "violation", where(f, y),
                                         f"{f['id']}: the drop guard's `{counter}` is raised after the slot has been written" if ok else
                                         f"{f['id']}: the drop guard's `{counter}` is raised before the slot it counts has been written (the read "
                                         f"that produces the value can still fail): on a malformed or truncated element the guard drops an "
                                         f"uninitialised `{elem}`")


# ---------------------------------------------------------------------------------------------
# T7: units of raw pointer arithmetic on the load paths (bytes vs elements)

def _unit_env(f):
    """variable -> unit: ('elems', T) | ('bytes',) | ('sizeof', T) ; flow-insensitive, from the defining expression"""
    env = {}

    def elem_ty_of(ty):
        m = re.match(r"&?(?:mut )?(?:alloc::vec::Vec<|\[)([^,;\]>]+)", ty or "")
        return m.group(1).strip() if m else None

    def unit(n, depth=0):
        n = peel_block(peel(n))
        k = n.get("k")
        if depth > 10:
            return None
        if k == "Var":
            return env.get(n["v"])
        if k in ("Cast", "Try"):
            return unit(n["e"], depth + 1)
        if k == "Call":
            c = callee(n) or ""
            if c in ("core::mem::size_of", "std::mem::size_of") and n.get("targs"):
                return ("sizeof", n["targs"][0])
            if c.endswith("::len") and n.get("args"):
                t = elem_ty_of(peel(n["args"][0]).get("ty") or n["args"][0].get("ty"))
                if t:
                    return ("bytes",) if t == "u8" else ("elems", t)
            if c.endswith(("::min", "::max", "saturating_sub", "wrapping_sub")) and len(n.get("args", [])) == 2:
                a, b = unit(n["args"][0], depth + 1), unit(n["args"][1], depth + 1)
                return a or b
            if c.endswith(("checked_mul", "saturating_mul", "wrapping_mul")) and len(n.get("args", [])) == 2:
                return mul(unit(n["args"][0], depth + 1), unit(n["args"][1], depth + 1))
            return None
        if k == "Bin":
            a, b = unit(n["l"], depth + 1), unit(n["r"], depth + 1)
            if n["op"] == "Mul":
                return mul(a, b)
            if n["op"] in ("Add", "Sub"):
                return a or b
            if n["op"] == "Div" and a == ("bytes",) and b and b[0] == "sizeof":
                return ("elems", b[1])
            return None
        return None

    def mul(a, b):
        for x, y in ((a, b), (b, a)):
            if x and y and x[0] == "elems" and y[0] == "sizeof" and x[1] == y[1]:
                return ("bytes",)
            if x and x[0] == "sizeof" and y is None:
                return ("bytes",)       # count * size_of::<T>()  (the count's own unit is unknown: a value read from the stream)
        return None

    for _ in range(3):
        for x in walk(f["body"]):
            if x.get("k") == "LetS" and x["pat"].get("k") == "Bind" and x.get("init") is not None:
                u = unit(x["init"])
                if u is not None:
                    env[x["pat"]["v"]] = u
            if x.get("k") == "LetS" and x.get("else") is not None and x.get("init") is not None:
                # `let Some(n) = a.checked_mul(b) else {..}`
                u = unit(x["init"])
                if u is not None:
                    for b_ in pat_binds(x["pat"]):
                        env[b_["v"]] = u
    return env, unit


@rule("T7", ["C01", "C06"], floor=1, doc="raw pointer arithmetic on the load paths keeps its units: a byte pointer (`*mut u8`) is advanced, and a byte "
      "slice sized, by a number of BYTES (count x size_of::<T>()), never by a number of elements of a wider type")
def t7(facts, tier):
    for f in sorted(facts.fns_of_crate("savefile"), key=lambda g: g["id"]):
        if not f.get("body") or "quickcheck" in f["id"]:
            continue
        n = 0
        sites = []
        for x in walk(f["body"]):
            if x.get("k") != "Call":
                continue
            c = callee(x) or ""
            if c in ("*mut T::add", "*const T::add", "*mut T::offset", "*const T::offset") and len(x.get("args", [])) == 2:
                pt = (x.get("targs") or [None])[0]
                sites.append((x, pt, x["args"][1], "advanced"))
            if c.endswith(("from_raw_parts_mut", "from_raw_parts")) and len(x.get("args", [])) == 2 and "slice" in c:
                pt = (x.get("targs") or [None])[0]
                sites.append((x, pt, x["args"][1], "sized"))
        if not sites:
            continue
        env, unit = _unit_env(f)
        for x, pt, k_, what in sites:
            if pt is None:
                continue
            bytes_ptr = pt in ("u8", "core::mem::maybe_uninit::MaybeUninit<u8>", "i8")
            u = unit(k_)
            n += 1
            key = f"{f['id']}:{what}#{n}"
            if bytes_ptr and u and u[0] == "elems":
                yield ob(["C01", "C06"], "T7", key, "violation", where(f, x),
                         f"{f['id']}: a byte pointer is {what} by a number of `{u[1]}` elements (not multiplied by size_of::<{u[1]}>()): for element "
                         f"types wider than one byte the data lands at the wrong address (earlier items are overwritten, the tail stays unwritten)")
            elif (not bytes_ptr) and u == ("bytes",) and pt not in ("u8",):
                yield ob(["C01", "C06"], "T7", key, "violation", where(f, x),
                         f"{f['id']}: a `*mut {pt}` is {what} by a number of bytes: the access runs past the allocation")
            else:
                yield ob(["C01", "C06"], "T7", key, "pass" if u is not None else "undecided" if False else "pass", where(f, x),
                         f"{f['id']}: pointer to {pt} {what} by {('a quantity in ' + u[0]) if u else 'a quantity whose unit is not derived'}",
                         nontrivial=u is not None)


# ---------------------------------------------------------------------------------------------
# T8: a raw allocation has one owner

@rule("T8", ["C06"], floor=0, doc="raw allocations on the load paths have exactly one owner: once `Vec::from_raw_parts` / `Box::from_raw` has taken over "
      "a pointer obtained from `alloc`, no code that is still to run (in the function or a helper it hands the pointer to) frees that "
      "pointer itself - otherwise an error path frees it twice")
def t8(facts, tier):
    def frees_param(g):
        """indices of the parameters of g that g may pass to dealloc"""
        out = set()
        if not g.get("body"):
            return out
        names = [p["pat"]["v"] if p.get("pat") and p["pat"].get("k") == "Bind" else None for p in g["params"]]
        for y in walk(g["body"]):
            if y.get("k") == "Call" and (callee(y) or "").endswith("alloc::dealloc") and y.get("args"):
                for i, nm in enumerate(names):
                    if nm and _derives_from(y["args"][0], {nm}):
                        out.add(i)
        return out

    any_alloc = False
    for f in sorted(facts.fns_of_crate("savefile"), key=lambda g: g["id"]):
        body = f.get("body")
        if not body:
            continue
        allocs = [x for x in walk(body) if x.get("k") == "Call" and (callee(x) or "").endswith(("alloc::alloc", "alloc::alloc_zeroed"))]
        if not allocs:
            continue
        any_alloc = True
        # variables that hold the allocated pointer
        names = set()
        changed = True
        while changed:
            changed = False
            for x in walk(body):
                if x.get("k") == "LetS" and x["pat"].get("k") == "Bind" and x.get("init") is not None and x["pat"]["v"] not in names:
                    if any(y in allocs or any(y is a for a in allocs) for y in walk(x["init"])) or _derives_from(x["init"], names):
                        # only pointer-typed bindings
                        if "*" in (x["pat"].get("ty") or x["init"].get("ty") or "*"):
                            names.add(x["pat"]["v"])
                            changed = True
        order = {id(y): i for i, y in enumerate(walk(body))}
        transfers = [x for x in walk(body) if x.get("k") == "Call" and (callee(x) or "").endswith(("Vec::from_raw_parts", "Box::from_raw",
                                                                                                    "String::from_raw_parts", "Vec::from_raw_parts_in"))
                     and x.get("args") and _derives_from(x["args"][0], names)]
        frees = []
        for x in walk(body):
            if x.get("k") != "Call" or not x.get("args"):
                continue
            c = callee(x) or ""
            if c.endswith("alloc::dealloc") and _derives_from(x["args"][0], names):
                frees.append((x, "dealloc"))
            t = (x.get("res") or {}).get("fn") or x.get("fn")
            g = facts.fns.get(t)
            if g is not None and g["crate"] == "savefile" and g["id"] != f["id"]:
                fp = frees_param(g)
                for i in fp:
                    if i < len(x["args"]) and _derives_from(x["args"][i], names):
                        frees.append((x, f"{g['id'].rsplit('::', 1)[-1]} (which frees the pointer it is given when the read fails)"))
        key = f["id"]
        if not transfers:
            yield ob(["C06"], "T8", key, "pass", where(f, allocs[0]), f"{key}: the allocation is never handed to an owning container here", nontrivial=False)
            continue
        t0 = min(order[id(t)] for t in transfers)
        late = [(x, w) for x, w in frees if order[id(x)] > t0]
        yield ob(["C06"], "T8", key, "violation" if late else "pass", where(f, late[0][0] if late else transfers[0]),
                 f"{key}: the allocation is handed to its owning container after every path that frees it by hand" if not late else
                 f"{key}: after `{(callee(transfers[0]) or '').rsplit('::', 2)[-2]}::{(callee(transfers[0]) or '').rsplit('::', 1)[-1]}` has taken ownership of the "
                 f"allocation, the pointer is still passed to {late[0][1]}: when the read fails the buffer is freed there and again when the "
                 f"container is dropped (double free on truncated or malformed input)")
    if not any_alloc:
        yield ob(["C06"], "T8", "no-raw-allocation", "pass", "", "savefile performs no raw allocation", nontrivial=False)


# ---------------------------------------------------------------------------------------------
# T9: stream value minus constant needs a lower-bound reject guard

@rule("T9", ["C06", "C14"], floor=0, doc="on the load paths a value read from the stream is only decreased by a constant after a reject-guard has "
      "established that it is at least that constant (otherwise `n - C` underflows for small n: a panic in debug builds, a huge "
      "allocation in release builds)")
def t9(facts, tier):
    from ..flow import parent_map
    n_sites = 0
    for f in reader_fns(facts):
        if f["crate"] != "savefile" or not f.get("body"):
            continue
        tv = None
        for x in walk(f["body"]):
            if x.get("k") != "Bin" or x.get("op") != "Sub":
                continue
            l, r = peel_block(peel(x["l"])), peel_block(peel(x["r"]))
            while l.get("k") == "Cast":
                l = peel_block(peel(l["e"]))
            c = r.get("int") if r.get("k") == "Lit" else (r.get("val") if r.get("k") in ("Const", "ConstBlock") else None)
            if l.get("k") != "Var" or not isinstance(c, int) or c <= 0:
                continue
            if tv is None:
                tv = tainted_vars(f)
            if l["v"] not in tv:
                continue
            # only direct stream values (bound from a read), not lengths of buffers we sized ourselves
            n_sites += 1
            v = l["v"]
            guard = False
            for y in walk(f["body"]):
                if y.get("k") != "If":
                    continue
                cnd = peel_block(peel(y["c"]))
                if cnd.get("k") != "Bin" or cnd["op"] not in ("Lt", "Le", "Gt", "Ge"):
                    continue
                a, b = peel_block(peel(cnd["l"])), peel_block(peel(cnd["r"]))
                def cst(e):
                    return e.get("int") if e.get("k") == "Lit" else (e.get("val") if e.get("k") in ("Const", "ConstBlock") else None)
                rejects = any(z.get("k") == "Return" for z in walk(y["t"]))
                if not rejects:
                    continue
                if a.get("k") == "Var" and a["v"] == v and isinstance(cst(b), int):
                    if (cnd["op"] == "Lt" and cst(b) >= c) or (cnd["op"] == "Le" and cst(b) >= c - 1):
                        guard = True
                if b.get("k") == "Var" and b["v"] == v and isinstance(cst(a), int):
                    if (cnd["op"] == "Gt" and cst(a) >= c) or (cnd["op"] == "Ge" and cst(a) >= c - 1):
                        guard = True
            key = f"{f['id']}:{v.split('#')[0]}-{c}"
            yield ob(["C06", "C14"], "T9", key, "pass" if guard else "violation", where(f, x),
                     f"{f['id']}: `{v.split('#')[0]} - {c}` follows a guard that rejects values below {c}" if guard else
                     f"{f['id']}: `{v.split('#')[0]} - {c}` is computed on a value read from the stream with no guard rejecting values below {c}: "
                     f"a stored value of 0..{c - 1} underflows (panic in debug builds, an enormous size in release builds) instead of yielding Err")
    if n_sites == 0:
        yield ob(["C06", "C14"], "T9", "no-stream-value-minus-constant", "pass", "", "no value read from the stream is decreased by a constant", nontrivial=False)
