"""Q5 (ledger persists what it compares), F1 (header/schema gate before the payload), W2 (tag tables)."""
from .. import bitprov, rx, wire
from ..core import ob, rule, where
from ..ir import callee, calls, children, peel, peel_block, walk
from ..rx import ev
from ..shape import Analyzer, Ex


def const_of(an, n):
    v = an.val(n, {"$guards": {}, "$tsub": {}})
    return v[1] if v and v[0] == "int" else None


@rule("Q5", ["C15"], floor=2, doc="the ledger stores an interface definition at a data version at which every field its comparison reads is "
      "written (async flag, receiver), and loads it with a version at least as high; otherwise the second run compares against a lossy record")
def q5(facts, tier):
    f = facts.fns.get("savefile_abi::verify_compatiblity")
    if f is None:
        return
    W = wire.WireAnalysis(facts)
    gates = set()
    for ty in ("savefile::AbiTraitDefinition", "savefile::AbiMethod", "savefile::AbiMethodInfo", "savefile::AbiMethodArgument"):
        wf = facts.fns.get(f"<{ty} as savefile::Serialize>::serialize")
        if wf:
            lits, _ = W.probe([wf])
            # a literal l is a gate if the writer's language differs between l-1 and l
            for l in lits:
                for cand in (l, l + 1):
                    if cand >= 1:
                        a, _, _, _ = W.lang(wf, cand - 1, {}, {})
                        b, _, _, _ = W.lang(wf, cand, {}, {})
                        if a != b:
                            gates.add(cand)
    need = max(gates) if gates else 0
    an = Analyzer(facts, wire.wire_classifier)
    save_v = load_v = None
    sx = lx = None
    for x in calls(f["body"]):
        c = callee(x) or ""
        if c == "savefile::save_file_noschema" and len(x["args"]) >= 2:
            save_v, sx = const_of(an, x["args"][1]), x
        if c == "savefile::load_file_noschema" and len(x["args"]) >= 2:
            load_v, lx = const_of(an, x["args"][1]), x
    if sx is None or lx is None:
        yield ob(["C15"], "Q5", "ledger-version", "violation", where(f), "the ledger no longer saves/loads through save_file_noschema/load_file_noschema (anchor lost)")
        return
    ok = save_v is not None and save_v >= need
    yield ob(["C15"], "Q5", "ledger-save-version", "pass" if ok else "violation", where(f, sx),
             f"definitions are stored at data version {save_v}; the definition writer gates fields at version(s) {sorted(gates)}" +
             ("" if ok else f": fields compared later (async flag, receiver) are not persisted, so the second run of an unchanged async "
              f"interface reports a breaking change"))
    ok2 = load_v is not None and save_v is not None and load_v >= save_v
    yield ob(["C15"], "Q5", "ledger-load-version", "pass" if ok2 else "violation", where(f, lx),
             f"definitions are loaded with memory version {load_v} (stored at {save_v})" + ("" if ok2 else ": stored files are newer than the loader accepts"))


# ---------------------------------------------------------------------------------------------
# F1: every path of load_impl that reaches the payload deserialization has passed the header and schema checks

def gate_classifier(an, n, argvals, env):
    c = callee(n) or ""
    if c == "savefile::Deserialize::deserialize":
        t = n.get("self_ty")
        return Ex(ev(("DESER", "schema" if t == "savefile::Schema" else "payload"))), None
    if c == "savefile::diff_schema":
        return Ex(ev(("DIFF",))), ("diffres",)
    if c == "std::io::Read::read_exact" and len(n["args"]) == 2:
        a = peel(n["args"][1])
        m = wire.arr_len(n["args"][1].get("ty")) or wire.arr_len(a.get("ty"))
        if m and m > 1 and a.get("k") == "Var":
            env[a["v"]] = ("arr", m)
            return Ex(ev(("A", m, None))), None
    r = wire.wire_classifier(an, n, argvals, env)
    if r is not None and (n.get("trait") == "byteorder::io::ReadBytesExt"):
        name = c.rsplit("::", 1)[-1]
        w = wire.BO_W.get(name[5:])
        ex, v = r
        if v and v[0] == "slot":
            an.slot_w[v[1]] = w
        return ex, v
    return r


def gate_hook(an, cond, vc, env):
    """emit which check a reject-branch belongs to"""
    kinds = set()
    for x in walk(cond):
        if x.get("k") == "Var":
            v = env.get(x["v"])
            if v and v[0] == "arr" and v[1] == 9:
                kinds.add("magic")
            if v and v[0] == "slot":
                w = an.slot_w.get(v[1])
                if w == 2:
                    kinds.add("format-version")
                if w == 4:
                    kinds.add("data-version")
            if v and v[0] == "diffres":
                kinds.add("schema-diff")
        if x.get("k") == "Call" and callee(x) == "savefile::diff_schema":
            kinds.add("schema-diff")
    if not kinds:
        return None
    k = sorted(kinds)[0]
    # the branch taken when the condition is TRUE is the rejecting one for all four checks (`if bad { return Err }`)
    return (ev(("REJECT-BRANCH", k)), ev(("PASSED", k)))


@rule("F1", ["C05"], floor=2, doc="in Deserializer::load_impl every path that reaches the payload's deserialize has passed (i) the comparison of the "
      "9 magic bytes, (ii) format version <= library version, (iii) file data version <= caller's version and, where a schema is expected, "
      "(iv) the schema read and a diff_schema whose Some result returns an error")
def f1(facts, tier):
    f = facts.fns.get("savefile::Deserializer<'_, TR>::load_impl")
    if f is None:
        return
    an = Analyzer(facts, gate_classifier)
    an.slot_w = {}
    an.branch_hook = gate_hook
    # a `let`-bound diff_schema result that is tested with `if let Some(err) = ..`
    e = an.function(f, {})
    acc = wire.finalize(an.accept(e))
    required = ["magic", "format-version", "data-version"]
    for k in required + ["schema-diff"]:
        def step(m, y, k=k):
            if y == ("PASSED", k):
                return "ok" if m in ("start", "schema") else m
            if k == "schema-diff" and y == ("DESER", "schema") and m == "start":
                return "schema"
            if y == ("DESER", "payload") and m != "ok":
                return "bad" if (k != "schema-diff" or m == "schema") else m
            return m
        w = rx.find_word(acc, "start", step, lambda m: m == "bad")
        if k == "schema-diff":
            # also: a path that read a schema must have compared it
            pass
        if w is None:
            yield ob(["C05"], "F1", k, "pass", where(f), f"every accepting path passes the {k} check before the payload is interpreted")
        else:
            trace = " ".join(s[0] + (":" + str(s[1]) if len(s) > 1 and isinstance(s[1], str) else "") for s in w)
            yield ob(["C05"], "F1", k, "violation", where(f), f"load_impl has an accepting path that reaches the payload without the {k} check: [{trace}]")
    # the magic comparison is a whole-value (in)equality against a literal of the full header length, equal to what save_impl writes
    wf = facts.fns.get("savefile::Serializer<'a, W>::save_impl")
    written = None
    if wf is not None:
        anw = Analyzer(facts, wire.wire_classifier)
        lw = wire.finalize(anw.accept(anw.function(wf, {})))
        for sym in rx.symbols(lw):
            if isinstance(sym, tuple) and sym[0] == "A" and sym[2]:
                written = tuple(sym[2])
    found = None
    # load_impl and the private helpers it is split into (`read_container_header(..)`)
    scope, frontier = [f], [f]
    for _ in range(2):
        nxt = []
        for g in frontier:
            for y in walk(g["body"]):
                if y.get("k") == "Call":
                    h = facts.fns.get((y.get("res") or {}).get("fn") or y.get("fn"))
                    if h is not None and h["crate"] == "savefile" and h.get("body") and not (h.get("impl") or {}).get("trait") \
                            and not h.get("pub") and h not in scope:
                        scope.append(h)
                        nxt.append(h)
        frontier = nxt
    for x in (y for g in scope for y in walk(g["body"])):
        if x.get("k") == "If":
            arrs = set()
            for y in walk(x["c"]):
                if y.get("k") == "Var" and y.get("ty", "").replace("&", "").strip().startswith("[u8; 9]"):
                    arrs.add(y["v"])
            if not arrs:
                continue
            c = peel_block(peel(x["c"]))
            while c.get("k") == "Un" and c.get("op") == "Not":
                c = peel_block(peel(c["e"]))
            is_eq = (c.get("k") == "Bin" and c["op"] in ("Ne", "Eq")) or \
                    (c.get("k") == "Call" and callee(c) in ("core::cmp::PartialEq::ne", "core::cmp::PartialEq::eq"))
            lits = []
            anv = Analyzer(facts, wire.wire_classifier)
            for y in walk(x["c"]):
                v = anv.val(y, {"$guards": {}, "$tsub": {}})
                if v and v[0] == "bytes":
                    lits.append(tuple(v[1]))
            found = (is_eq, lits)
    if found is None:
        yield ob(["C05"], "F1", "magic-literal", "violation", where(f), "no comparison of the 9 header bytes found in load_impl")
    else:
        is_eq, lits = found
        full = [l for l in lits if len(l) == 9]
        ok = is_eq and bool(full) and (written is None or full[0] == written)
        status = "pass" if ok else ("undecided" if (is_eq and not lits) else "violation")
        yield ob(["C05"], "F1", "magic-literal", status, where(f),
                 "the 9 header bytes are compared as a whole with the 9-byte magic that save_impl writes" if ok else
                 f"the header comparison is not an (in)equality of all 9 bytes with the written magic "
                 f"(equality test: {is_eq}; literal lengths compared: {[len(l) for l in lits]}): files with a damaged magic are accepted")
    # the rejecting branches really reject: no accepted word goes through a REJECT-BRANCH
    rej = [s for s in rx.symbols(acc) if isinstance(s, tuple) and s[0] == "REJECT-BRANCH"]
    yield ob(["C05"], "F1", "rejecting-branches", "violation" if rej else "pass", where(f),
             "a failed header/schema check still leads to Ok: " + str(rej) if rej else "all four checks end in Err when they fail")


# ---------------------------------------------------------------------------------------------
# W2: tag tables are inverse partial functions

def self_adt(f):
    im = f.get("impl") or {}
    t = im.get("self_ty", "")
    return t.split("<")[0]


def writer_table(facts, f):
    """{variant: literal} from `match self { V => lit / write(lit) .. }`"""
    adt = self_adt(f)
    ps = f["params"]
    selfv = ps[0]["pat"]["v"] if ps and ps[0].get("pat") and ps[0]["pat"].get("k") == "Bind" else None
    out = {}
    for x in walk(f["body"]):
        if x.get("k") != "Match" or not x["arms"]:
            continue
        sc = peel(x["e"])
        if not (sc.get("k") == "Var" and sc["v"] == selfv):
            continue
        for a in x["arms"]:
            p = a["pat"]
            vs = [p] if p.get("k") == "Variant" else (p.get("pats", []) if p.get("k") == "Or" else [])
            for pv in vs:
                if pv.get("k") != "Variant" or pv.get("adt") != adt:
                    continue
                an = Analyzer(facts, wire.wire_classifier)
                env = {"$guards": {}, "$tsub": {}}
                ex, v = an.expr(a["body"], env)
                lit = None
                if v and v[0] == "int":
                    lit = v[1]
                else:
                    lang = wire.finalize(rx.alt(ex.n, ex.nok, ex.rok))
                    firsts = first_symbols(lang)
                    lits = set()
                    for s in firsts:
                        if isinstance(s, tuple) and s[0] == "B" and s[2][0] == "in" and len(s[2][1]) == 1:
                            lits |= set(s[2][1])
                        else:
                            lits.add(None)
                    if len(lits) == 1 and None not in lits:
                        lit = next(iter(lits))
                if lit is not None:
                    out[pv["variant"]] = lit
    return out


def first_symbols(r):
    k = r[0]
    if k == "ev":
        return {r[1]}
    if k == "seq":
        out = set()
        for x in r[1]:
            out |= first_symbols(x)
            if not nullable(x):
                break
        return out
    if k == "alt":
        out = set()
        for x in r[1]:
            out |= first_symbols(x)
        return out
    if k == "star":
        return first_symbols(r[1])
    return set()


def nullable(r):
    k = r[0]
    if k in ("eps", "star"):
        return True
    if k == "seq":
        return all(nullable(x) for x in r[1])
    if k == "alt":
        return any(nullable(x) for x in r[1])
    return False


def reader_table(facts, f):
    """{literal: variant} from `match tag { lit => <constructs V> }`"""
    adt = self_adt(f)
    out = {}
    for x in walk(f["body"]):
        if x.get("k") != "Match":
            continue
        for a in x["arms"]:
            p = a["pat"]
            lits = [p["int"]] if p.get("k") == "Const" and "int" in p else \
                [q["int"] for q in p.get("pats", []) if q.get("k") == "Const" and "int" in q] if p.get("k") == "Or" else []
            if not lits:
                continue
            vs = {y["variant"] for y in walk(a["body"]) if y.get("k") == "Adt" and y.get("adt") == adt}
            if len(vs) == 1:
                for l in lits:
                    out[l] = next(iter(vs))
    if out:
        return out
    # `let flag = d.read_bool()?; if flag { Ok(V1(..)) } else { Ok(V2(..)) }`: read_bool is `read_u8()? == LIT`
    rb = facts.fns.get("savefile::Deserializer<'_, TR>::read_bool")
    lit = None
    if rb is not None:
        for y in walk(rb["body"]):
            if y.get("k") == "Bin" and y["op"] == "Eq":
                for side in (y["l"], y["r"]):
                    q = peel(side)
                    if q.get("k") == "Lit" and "int" in q:
                        lit = q["int"]
    flags = set()
    for x in walk(f["body"]):
        if x.get("k") == "LetS" and x["pat"].get("k") == "Bind" and x.get("init") is not None:
            i = x["init"]
            while i.get("k") in ("Try", "Ref", "Deref"):
                i = i["e"]
            if i.get("k") == "Call" and (callee(i) or "").endswith("::read_bool"):
                flags.add(x["pat"]["v"])

    def returned_variant(n):
        n = peel_block(peel(n))
        if n.get("k") == "Block":
            n = peel_block(n["e"]) if n.get("e") is not None else {}
        if n.get("k") == "Adt" and n.get("adt") == "core::result::Result" and n.get("variant") == "Ok" and n.get("fields"):
            inner = peel_block(peel(n["fields"][0]["e"]))
            if inner.get("k") == "Adt" and inner.get("adt") == adt:
                return inner["variant"]
        return None
    if lit is not None:
        for x in walk(f["body"]):
            if x.get("k") == "If" and peel(x["c"]).get("k") == "Var" and peel(x["c"])["v"] in flags and x.get("f") is not None:
                t, e = returned_variant(x["t"]), returned_variant(x["f"])
                if t and e:
                    out[lit] = t
                    out["else"] = e
    return out


@rule("W2", ["C01", "C02", "C13"], floor=5, doc="for every enum-like type with a hand-written tag: variant→literal in the writer and literal→constructed variant "
      "in the reader are inverse partial functions (a swap of two same-shaped variants is invisible to the language check)")
def w2(facts, tier):
    from .wire_rules import impl_pairs
    sers, des = impl_pairs(facts)
    des_by_ty = {ty: v for (ty, fid), v in des.items()}
    for (ty, fid), (wf, wts) in sorted(sers.items()):
        if "~" in fid or ty not in des_by_ty:
            continue
        wt = writer_table(facts, wf)
        if len(wt) < 2:
            continue
        rf, _ = des_by_ty[ty]
        rt = reader_table(facts, rf)
        if not rt:
            yield ob(["C01", "C13"], "W2", ty, "undecided", where(wf), f"writer tags {wt}; reader table not recognised")
            continue
        bad = []
        if len(set(wt.values())) != len(wt):
            bad.append(f"two variants share a tag: {wt}")
        for v, l in sorted(wt.items(), key=lambda kv: kv[1]):
            if l in rt and rt[l] != v:
                bad.append(f"variant {v} is written as {l} but {l} is read back as {rt[l]}")
            elif l not in rt and "else" in rt:
                if rt["else"] != v:
                    bad.append(f"variant {v} is written as {l} but every tag other than {[k for k in rt if k != 'else']} is read back as {rt['else']}")
            elif l not in rt:
                bad.append(f"variant {v} is written as {l} which the reader does not map to a variant")
        yield ob(["C01", "C02", "C13"], "W2", ty, "violation" if bad else "pass", where(wf),
                 f"{ty}: " + ("; ".join(bad[:4]) if bad else f"{len(wt)} tags map back to their variants"), tags=len(wt))


# ---------------------------------------------------------------------------------------------
# X: type-level facts that rustc itself enforces (the static counterpart of the compile_fail witnesses in /verif/witness)

@rule("X1", ["C04"], floor=3, doc="the bulk-copy token cannot be forged from safe code: IsPacked::yes and Packed::repr_c_optimization_safe are "
      "`unsafe fn`, and IsPacked's field is private")
def x1(facts, tier):
    for fid in ("savefile::IsPacked::yes", "savefile::Packed::repr_c_optimization_safe"):
        f = facts.fns.get(fid)
        ok = bool(f) and f.get("unsafe") is True
        yield ob(["C04"], "X1", fid, "pass" if ok else "violation", where(f) if f else "",
                 f"{fid} is an unsafe fn" if ok else f"{fid} is not (or no longer) an `unsafe fn`: safe code can claim a type is bulk-copyable")
    a = facts.adts.get("savefile::IsPacked")
    priv = bool(a) and all(not fl["pub"] for v in a["variants"] for fl in v["fields"])
    yield ob(["C04"], "X1", "savefile::IsPacked.0", "pass" if priv else "violation", f"{a['file']}:{a['line']}" if a else "",
             "IsPacked's field is private" if priv else "IsPacked can be constructed directly (public field or type missing)")


@rule("X3", ["C11"], floor=1, doc="layout facts can only be injected into a schema through an unsafe constructor (Field::unsafe_new)")
def x3(facts, tier):
    f = facts.fns.get("savefile::Field::unsafe_new")
    ok = bool(f) and f.get("unsafe") is True
    a = facts.adts.get("savefile::Field")
    off_priv = bool(a) and all(not fl["pub"] for v in a["variants"] for fl in v["fields"] if fl["name"] == "offset")
    yield ob(["C11"], "X3", "savefile::Field::unsafe_new", "pass" if ok and off_priv else "violation", where(f) if f else "",
             "Field::unsafe_new is unsafe and Field.offset is private" if ok and off_priv else
             "a field offset can be set from safe code: layout_compatible can then be made to answer yes for a wrong layout")


@rule("X2", ["C16"], floor=2, doc="AbiConnection<T> is Send/Sync only if the trait object T is")
def x2(facts, tier):
    for tr in ("core::marker::Send", "core::marker::Sync"):
        hit = [im for im in facts.impls if im.get("trait") == tr and im["self_ty"].startswith("savefile_abi::AbiConnection<")]
        if not hit:
            yield ob(["C16"], "X2", tr, "pass", "", f"no explicit {tr} impl for AbiConnection (auto trait rules apply)", nontrivial=False)
            continue
        im = hit[0]
        ok = any(w.replace(" ", "") == f"T:{tr}" for w in im["where"])
        yield ob(["C16"], "X2", tr, "pass" if ok else "violation", f"{im['file']}:{im['line']}",
                 f"unsafe impl {tr} for AbiConnection<T> requires T: {tr}" if ok else
                 f"unsafe impl {tr} for AbiConnection<T> has no `T: {tr}` bound: a connection to a non-thread-safe implementation can cross threads")


# ---------------------------------------------------------------------------------------------
# W11: primitives are written and read unmodified

PRIMS = {"u8", "i8", "u16", "i16", "u32", "i32", "u64", "i64", "u128", "i128", "usize", "isize", "f32", "f64", "bool", "char"}
ALTERING_OPS = {"Add", "Sub", "Mul", "Div", "Rem", "BitXor", "BitAnd", "BitOr", "Shl", "Shr"}
ALTERING_CALLS = ("wrapping_", "saturating_", "overflowing_", "swap_bytes", "reverse_bits", "rotate_", "to_be", "from_be", "to_bits_be",
                  "swap", "not", "neg", "abs", "pow", "leading_", "trailing_", "count_", "checked_add", "checked_sub", "checked_mul")


def prim_value_fns(facts):
    out = []
    for f in facts.fns_of_crate("savefile"):
        im = f.get("impl") or {}
        fid = f["id"]
        st = im.get("self_ty", "")
        base = st[len("core::sync::atomic::Atomic<"):-1] if st.startswith("core::sync::atomic::Atomic<") else st
        if im.get("trait") in ("savefile::Serialize", "savefile::Deserialize") and base in PRIMS:
            out.append(f)
        name = f.get("name") or ""
        if (fid.startswith("savefile::Serializer<") and name.startswith("write_") and name[6:] in PRIMS) or \
                (fid.startswith("savefile::Deserializer<") and name.startswith("read_") and name[5:] in PRIMS):
            out.append(f)
    return out


@rule("W11", ["C01", "C02", "C04"], floor=60, doc="primitive values travel unmodified: the Serialize/Deserialize impls of the primitive and atomic types and the "
      "Serializer/Deserializer primitive helpers contain no arithmetic, bit manipulation or byte swapping on the value; bool is exactly 1/0 and `== 1`")
def w11(facts, tier):
    for f in prim_value_fns(facts):
        bad = []
        for x in walk(f["body"]):
            k = x.get("k")
            if k in ("Bin", "AssignOp") and x.get("op") in ALTERING_OPS:
                bad.append(f"`{x['op']}`")
            if k == "Un" and x.get("op") in ("Neg",):
                bad.append("negation")
            if k == "Call":
                name = (callee(x) or "").rsplit("::", 1)[-1]
                if name.startswith(ALTERING_CALLS) and not name.startswith(("to_bits", "from_bits")):
                    bad.append(f"call {name}")
                if name in ("to_be_bytes", "to_ne_bytes", "from_be_bytes", "from_ne_bytes"):
                    bad.append(f"call {name}")
            if k == "Lit" and "int" in x and x["int"] not in (0, 1) and x.get("ty") in PRIMS and not f["id"].endswith(("read_usize", "read_isize")):
                bad.append(f"literal {x['int']}")
        key = f["id"]
        # bool: writer `if v {1} else {0}`, reader `== 1`
        if key.endswith("::write_bool"):
            ok = any(x.get("k") == "If" and peel_block(x["t"]).get("int") == 1 and x.get("f") and peel_block(x["f"]).get("int") == 0 for x in walk(f["body"]))
            if not ok:
                bad.append("bool is not written as `if v {1} else {0}`")
        if key.endswith("::read_bool"):
            ok = any(x.get("k") == "Bin" and x["op"] == "Eq" and peel(x["r"]).get("int") == 1 for x in walk(f["body"]))
            if not ok:
                bad.append("bool is not read as `byte == 1`")
        proved = None
        nm = f.get("name") or ""
        if (key.startswith("savefile::Serializer<") or key.startswith("savefile::Deserializer<")) and nm.split("_", 1)[-1] in bitprov.WIDTH \
                and nm.split("_", 1)[-1] not in ("bool", "char"):
            # arithmetic on the value: decide by exact bit provenance whether the composition is the identity
            prim = nm.split("_", 1)[-1]
            try:
                be = bitprov.BitEval(facts)
                if nm.startswith("write_"):
                    same, bits = be.writer(f, prim)
                    want = [("v", i) for i in range(bitprov.WIDTH[prim])]
                else:
                    same, bits = be.reader(f, prim)
                    want = [("s", i) for i in range(bitprov.WIDTH[prim])]
                if same:
                    bad, proved = [], "bit provenance: every bit i of the value is bit i of the little-endian stream (whatever pieces the body composes it from)"
                else:
                    bad = [f"bit provenance: {bitprov.describe(bits, want)}"]
            except bitprov.Unknown:
                pass
        if proved:
            yield ob(["C01", "C02", "C04"], "W11", key, "pass", where(f), proved, nontrivial=True)
            continue
        yield ob(["C01", "C02", "C04"], "W11", key, "violation" if bad else "pass", where(f),
                 f"{key}: value-altering construct(s) {sorted(set(bad))}: a primitive no longer round-trips / is no longer encoded as documented" if bad
                 else "value passes unmodified between memory and the byte sink")


# ---------------------------------------------------------------------------------------------
# W18: hand-written composite impls pass each component between memory and the stream unmodified: no call on the data path is a
# known value-altering operation (re-normalisation, rounding, case folding, trimming, clamping, lossy conversion ...).
# The table is a deny list of library operations that return something other than their input for some input; an operation the
# table does not know is not judged (no alarm).

VALUE_ALTERING = {
    "from_quaternion", "new_normalize", "try_new", "renormalize", "renormalize_fast", "normalize", "normalize_mut", "try_normalize",
    "from_euler_angles", "from_axis_angle", "from_scaled_axis", "from_rotation_matrix", "from_matrix", "from_basis_unchecked",
    "inverse", "try_inverse", "conjugate", "transpose", "round", "trunc", "floor", "ceil", "fract", "abs", "signum", "sqrt", "recip",
    "to_degrees", "to_radians", "rem_euclid", "div_euclid", "to_lowercase", "to_uppercase", "to_ascii_lowercase", "to_ascii_uppercase",
    "make_ascii_lowercase", "make_ascii_uppercase", "trim", "trim_start", "trim_end", "trim_matches", "trim_start_matches",
    "trim_end_matches", "strip_prefix", "strip_suffix", "to_string_lossy", "from_utf8_lossy", "dedup", "dedup_by", "dedup_by_key",
    "retain", "retain_mut", "filter", "filter_map", "skip_while", "take_while", "step_by", "clamp", "min", "max", "swap_bytes",
    "reverse_bits", "rotate_left", "rotate_right", "wrapping_neg", "wrapping_abs", "unsigned_abs", "canonicalize", "with_nanosecond",
    "trunc_subsecs", "round_subsecs", "duration_trunc", "duration_round", "date_naive", "with_timezone_lossy", "to_owned_lossy",
}
# size arithmetic on counts is not component data
_W18_COUNT_TYS = {"usize"}


def _w18_data_vars(f, reader):
    """variables carrying component data: reader - bound from an expression containing a read; writer - self and what is bound from it"""
    from .taint_rules import pat_binds
    data = set()
    if not reader:
        for p in f.get("params", []):
            if p.get("self") and (p.get("pat") or {}).get("k") == "Bind":
                data.add(p["pat"]["v"])
    changed = True
    while changed:
        changed = False
        for s in walk(f["body"]):
            if s.get("k") == "LetS" and s.get("init") is not None:
                if _w18_is_data(s["init"], data, reader):
                    for b in pat_binds(s["pat"]):
                        if b["v"] not in data:
                            data.add(b["v"])
                            changed = True
            if s.get("k") == "For" and s.get("iter") is not None and _w18_is_data(s["iter"], data, reader):
                for b in pat_binds(s["pat"]):
                    if b["v"] not in data:
                        data.add(b["v"])
                        changed = True
            if s.get("k") == "Match":
                if s.get("e") is not None and _w18_is_data(s["e"], data, reader):
                    for a in s["arms"]:
                        for b in pat_binds(a["pat"]):
                            if b["v"] not in data:
                                data.add(b["v"])
                                changed = True
    return data


def _w18_is_data(e, data, reader):
    for y in walk(e):
        if y.get("k") == "Var" and y.get("v") in data:
            return True
        if reader and y.get("k") == "Call" and is_read(y):
            return True
    return False


@rule("W18", ["C01"], floor=60, doc="hand-written composite impls move every component between memory and the stream unmodified: no call on "
      "the data path is a known value-altering operation (normalisation, rounding, case folding, trimming, clamping, filtering, lossy conversion)")
def w18(facts, tier):
    from .wire_rules import impl_pairs
    sers, des = impl_pairs(facts)
    for reader, table in ((False, sers), (True, des)):
        for (ty, fid), (f, _) in sorted(table.items()):
            if "~" in fid:
                continue
            st = (f.get("impl") or {}).get("self_ty", "")
            base = st[len("core::sync::atomic::Atomic<"):-1] if st.startswith("core::sync::atomic::Atomic<") else st
            if base in PRIMS:
                continue  # W11
            data = _w18_data_vars(f, reader)
            bad = []
            for x in walk(f["body"]):
                if x.get("k") != "Call":
                    continue
                name = (callee(x) or "").rsplit("::", 1)[-1]
                if name not in VALUE_ALTERING:
                    continue
                if not any(_w18_is_data(a, data, reader) for a in x.get("args", [])):
                    continue
                if name in ("min", "max", "clamp") and (x.get("ty") or "") in _W18_COUNT_TYS:
                    continue
                bad.append(f"{name} (line {x.get('ln')})")
            key = f["id"]
            yield ob(["C01"], "W18", key, "violation" if bad else "pass", where(f),
                     f"{key}: component data passes through value-altering operation(s) {sorted(set(bad))[:3]}: what is "
                     f"{'loaded' if reader else 'written'} is no longer what was {'written' if reader else 'held in memory'} for inputs the operation changes" if bad
                     else "no known value-altering operation on the component data path")


# ---------------------------------------------------------------------------------------------
# W13: value flow of hand-written composite impls: the k-th value written comes from the component that the k-th value
# read is put back into (a swap of two same-typed components is invisible to the language check)

CTOR_PARAMS = {
    "core::net::socket_addr::SocketAddrV4::new": ["ip", "port"],
    "core::net::socket_addr::SocketAddrV6::new": ["ip", "port", "flowinfo", "scope_id"],
    "nalgebra::geometry::point::OPoint::new": ["x", "y", "z"],
    "nalgebra::base::matrix::Matrix::new": ["x", "y", "z"],
    "nalgebra::geometry::quaternion::Quaternion::new": ["w", "x", "y", "z"],
}
WRITE_CALLS = ("savefile::Serialize::serialize",)
READ_CALLS = ("savefile::Deserialize::deserialize",)


def is_write(x):
    c = callee(x) or ""
    return c in WRITE_CALLS or (c.startswith("savefile::Serializer::write_") and len(x.get("args", [])) == 2)


def is_read(x):
    c = callee(x) or ""
    return c in READ_CALLS or (c.startswith("savefile::Deserializer::read_") and len(x.get("args", [])) == 1)


def source_name(n):
    """distinguishing accessor chain of a written value: fields and nullary methods applied to the base variable"""
    chain = []
    n = peel(n)
    while isinstance(n, dict):
        k = n.get("k")
        if k in ("Ref", "Deref", "Coerce", "Cast"):
            n = n["e"]
        elif k == "Field":
            chain.append(n["f"])
            n = n["e"]
        elif k == "Call" and len(n.get("args", [])) == 1:
            name = (callee(n) or "").rsplit("::", 1)[-1]
            if name not in ("deref", "to_bits", "as_ref", "clone", "into", "borrow", "load", "get"):
                chain.append(name + "()")
            n = n["args"][0]
        elif k == "Var":
            break
        else:
            return None
    chain.reverse()
    return chain


def linear_paths(body):
    """straight-line statement sequences: the function body and every match arm / if branch body"""
    out = [body]
    for x in walk(body):
        if x.get("k") == "Match":
            for a in x["arms"]:
                out.append(a["body"])
    return out


def ordered_calls(n, pred):
    return [x for x in walk(n) if x.get("k") == "Call" and pred(x)]


@rule("W13", ["C01", "C02"], floor=4, doc="hand-written composite impls: the k-th value the writer emits is taken from the component into which the "
      "reader puts the k-th value it reads (constructor parameter / struct field / tuple position)")
def w13(facts, tier):
    from .wire_rules import impl_pairs
    sers, des = impl_pairs(facts)
    des_by_ty = {ty: v for (ty, fid), v in des.items()}
    for (ty, fid), (wf, wts) in sorted(sers.items()):
        if "~" in fid or ty not in des_by_ty:
            continue
        rf, _ = des_by_ty[ty]
        # reader: destinations per linear path
        results = []
        for rpath in linear_paths(rf["body"]):
            reads = ordered_calls(rpath, is_read)
            if len(reads) < 2:
                continue
            order = {id(x): i for i, x in enumerate(reads)}
            var_of_read = {}
            for s in walk(rpath):
                if s.get("k") == "LetS" and s["pat"].get("k") == "Bind" and s.get("init") is not None:
                    rs = [y for y in walk(s["init"]) if id(y) in order]
                    if len(rs) == 1:
                        var_of_read[s["pat"]["v"]] = order[id(rs[0])]

            def ordinal(e):
                hits = set()
                for y in walk(e):
                    if id(y) in order:
                        hits.add(order[id(y)])
                    if y.get("k") == "Var" and y["v"] in var_of_read:
                        hits.add(var_of_read[y["v"]])
                return next(iter(hits)) if len(hits) == 1 else None
            dest = {}
            for y in walk(rpath):
                k = y.get("k")
                if k == "Call" and callee(y) in CTOR_PARAMS:
                    names = CTOR_PARAMS[callee(y)]
                    for nm, a in zip(names, y["args"]):
                        o = ordinal(a)
                        if o is not None:
                            dest.setdefault(o, []).append(nm)
                elif k == "Adt" and y.get("adt") == self_adt(rf) and len(y["fields"]) >= 2:
                    for fl in y["fields"]:
                        o = ordinal(fl["e"])
                        if o is not None and id(peel(fl["e"])) != id(y):
                            dest.setdefault(o, []).append(fl["f"])
                elif k == "Tuple" and len(y["es"]) >= 2 and ty.startswith("("):
                    for i, e in enumerate(y["es"]):
                        o = ordinal(e)
                        if o is not None:
                            dest.setdefault(o, []).append(str(i))
            if len(dest) >= 2:
                results.append((rpath, reads, dest))
        if not results:
            continue
        # writer: sources per linear path with the same number of writes
        bad = []
        matched = 0
        for rpath, reads, dest in results:
            for wpath in linear_paths(wf["body"]):
                writes = ordered_calls(wpath, is_write)
                # a literal tag written inside the arm has its read outside the reader's arm: not a component
                writes = [w for w in writes if peel(w["args"][0] if callee(w) in WRITE_CALLS else w["args"][1]).get("k") != "Lit"]
                if len(writes) != len(reads):
                    continue
                # tag literals must agree when both start with a literal (variant arms)
                srcs = []
                for w in writes:
                    arg = w["args"][0] if callee(w) in WRITE_CALLS else w["args"][1]
                    srcs.append(source_name(arg))
                ok_path = True
                mism = []
                for o, names in dest.items():
                    s = srcs[o] if o < len(srcs) else None
                    if not s:
                        ok_path = False
                        break
                    want = names[-1]
                    got = [p.rstrip("()") for p in s]
                    if want not in got and not (want in ("i", "j", "k") and {"i": "x", "j": "y", "k": "z"}[want] in got):
                        mism.append(f"value #{o + 1} is written from `{'.'.join(s)}` but read back into `{want}`")
                if ok_path:
                    matched += 1
                    bad += mism
                break
        key = ty
        if matched == 0:
            yield ob(["C01"], "W13", key, "undecided", where(wf), "writer/reader paths could not be aligned")
        else:
            yield ob(["C01", "C02"], "W13", key, "violation" if bad else "pass", where(wf),
                     f"{ty}: " + ("; ".join(sorted(set(bad))[:3]) if bad else f"components flow back into their places on {matched} path(s)"))


# ---------------------------------------------------------------------------------------------
# K3 (C14): both ends of the encrypted container derive the key the same way

TRANSPARENT = ("::as_ref", "::as_bytes", "::as_slice", "::deref", "::borrow", "::as_str", "::into", "::from", "::try_into", "::unwrap",
               "::clone", "::to_owned", "::to_vec", "::as_mut", "::expect")
LOSSY = ("trim", "trim_end", "trim_start", "trim_matches", "trim_end_matches", "trim_start_matches", "to_lowercase", "to_uppercase",
         "to_ascii_lowercase", "to_ascii_uppercase", "replace", "replacen", "split", "split_whitespace", "strip_prefix", "strip_suffix",
         "get", "chars", "truncate", "split_at", "lines", "len", "is_empty", "first", "last", "take", "skip", "nth", "filter",
         "eq_ignore_ascii_case", "min", "max")


class Provenance:
    """how a value is computed from the parameters of a function: a term over calls, constants and parameters (local helpers
    of the crate are inlined; views such as as_bytes/as_ref and copies into a fresh buffer are transparent)"""

    def __init__(self, facts):
        self.facts = facts

    def run(self, f, args=None, depth=0):
        env = {}
        for i, p in enumerate(f["params"]):
            pat = p.get("pat")
            if pat and pat.get("k") == "Bind":
                env[pat["v"]] = args[i] if args is not None and i < len(args) else ("param", pat["v"].split("#")[0])
        self.sites = getattr(self, "sites", [])
        if depth == 0:
            self.crate = f["crate"]
        ret = self.block(f["body"], env, depth)
        return ret

    def block(self, n, env, depth):
        n0 = n
        if n.get("k") != "Block":
            return self.term(n, env, depth)
        for s in n["stmts"]:
            if s["k"] == "LetS":
                if s.get("init") is not None and s["pat"].get("k") == "Bind":
                    env[s["pat"]["v"]] = self.term(s["init"], env, depth)
                elif s.get("init") is not None:
                    self.term(s["init"], env, depth)
            else:
                self.term(s["e"], env, depth)
        return self.term(n["e"], env, depth) if n.get("e") is not None else ("unit",)

    def term(self, n, env, depth):
        if not isinstance(n, dict):
            return ("?",)
        k = n.get("k")
        if k in ("Ref", "Deref", "Coerce", "RawRef", "Cast", "Try", "ExprS"):
            return self.term(n["e"], env, depth)
        if k == "Block":
            return self.block(n, dict(env) if False else env, depth)
        if k == "Var":
            return env.get(n["v"], ("var", n["v"].split("#")[0]))
        if k == "Lit":
            return ("const", n.get("int", n.get("str")))
        if k in ("Static", "Const"):
            return ("static", n.get("id"))
        if k == "Repeat":
            return ("fresh-buffer", n.get("n"))
        if k in ("If", "Match", "Loop"):
            for c in children(n):
                self.term(c, env, depth)
            return ("?", k)
        if k == "Assign":
            v = self.term(n["r"], env, depth)
            l = peel(n["l"])
            if l.get("k") == "Var":
                env[l["v"]] = v
            return ("unit",)
        if k == "For":
            it = self.term(n["iter"], env, depth)
            if n["pat"].get("k") == "Bind":
                env[n["pat"]["v"]] = ("loop", n["pat"]["v"].split("#")[0], it)
            self.term(n["body"], env, depth)
            return ("unit",)
        if k == "Adt":
            return ("adt", n.get("adt"), n.get("variant"), [self.term(f_["e"], env, depth) for f_ in n.get("fields", [])])
        if k in ("Array", "Tuple"):
            return ("tuple", [self.term(e_, env, depth) for e_ in n.get("es", [])])
        if k == "Index":
            return ("call", "index", [self.term(n["e"], env, depth), self.term(n["i"], env, depth)])
        if k == "Field":
            return ("field", n["f"], self.term(n["e"], env, depth))
        if k == "Call":
            c = callee(n) or "?"
            args = [self.term(a, env, depth) for a in n["args"]]
            name = c.rsplit("::", 1)[-1]
            if name in ("clone_from_slice", "copy_from_slice") and len(n["args"]) == 2:
                dst = peel(n["args"][0])
                if dst.get("k") == "Var":
                    env[dst["v"]] = args[1]
                return ("unit",)
            self.sites.append((c, args, n))
            target = (n.get("res") or {}).get("fn") or n.get("fn")
            h = self.facts.fns.get(target)
            if h is not None and h["crate"] == self.crate and h.get("body") and depth < 4 and not (h.get("impl") or {}).get("trait") \
                    and not c.endswith(("::new", "::load", "::save")):
                return Provenance.run(self, h, args, depth + 1)
            if any(c.endswith(t) for t in TRANSPARENT) and len(args) == 1:
                return args[0]
            return ("call", c, args)
        return ("?", k)


def show_term(t):
    if not isinstance(t, tuple):
        return str(t)
    if t[0] == "call":
        return t[1].rsplit("::", 1)[-1] + "(" + ", ".join(show_term(a) for a in t[2]) + ")"
    if t[0] == "param":
        return t[1]
    if t[0] == "static":
        return str(t[1]).rsplit("::", 1)[-1]
    return "<" + " ".join(str(x) for x in t[:2]) + ">"


def key_term(facts, f):
    pv = Provenance(facts)
    pv.sites = []
    pv.run(f)
    for c, args, n in pv.sites:
        if c.endswith(("CryptoWriter::new", "CryptoReader::new")) and len(args) == 2:
            return args[1]
    return None


def calls_in(t):
    if isinstance(t, tuple) and t and t[0] == "call":
        yield t[1]
        for a in t[2]:
            yield from calls_in(a)


@rule("K3", ["C14"], floor=2, doc="save_encrypted_file and load_encrypted_file derive the key as the same function of the password: a cryptographic "
      "digest of exactly the password bytes (helpers inlined; any other transformation of the password between the parameter and the "
      "digest maps distinct passwords to one key)")
def k3(facts, tier):
    a = facts.fns.get("savefile::crypto::save_encrypted_file")
    b = facts.fns.get("savefile::crypto::load_encrypted_file")
    if a is None or b is None:
        return
    ta, tb = key_term(facts, a), key_term(facts, b)
    ok = ta is not None and ta == tb
    yield ob(["C14"], "K3", "key-derivation:same-on-both-ends", "pass" if ok else "violation", where(b),
             f"both ends compute the key as {show_term(ta)}" if ok else
             f"key derivation differs between save ({show_term(ta)}) and load ({show_term(tb)}): a file cannot be read back with the "
             f"password it was written with")
    for name, f, t in (("save", a, ta), ("load", b, tb)):
        key = f"key-derivation:{name}:digest-of-the-password"
        if t is None:
            yield ob(["C14"], "K3", key, "undecided", where(f), f"{f['id']}: the key handed to the crypto stream was not found")
            continue
        cs = list(calls_in(t))
        digest = isinstance(t, tuple) and t[0] == "call" and t[1].startswith("ring::digest::") and any(a_ == ("param", "password") for a_ in t[2])
        lossy = [c for c in cs[1:] if c.rsplit("::", 1)[-1] in LOSSY] if cs else []
        if digest and len(cs) == 1:
            yield ob(["C14"], "K3", key, "pass", where(f), f"{f['id']}: key = {show_term(t)}")
        elif lossy or (cs and cs[0].rsplit("::", 1)[-1] in LOSSY):
            bad = (lossy or cs)[0]
            yield ob(["C14"], "K3", key, "violation", where(f),
                     f"{f['id']}: the password passes through `{bad.rsplit('::', 1)[-1]}` before it is hashed (key = {show_term(t)}): "
                     f"distinct passwords derive the same key, so a file opens with a password it was not saved with")
        else:
            yield ob(["C14"], "K3", key, "undecided", where(f),
                     f"{f['id']}: key = {show_term(t)}: not the plain digest of the password parameter; the derivation is not modelled")


# ---------------------------------------------------------------------------------------------
# W14: sequences are written and rebuilt in container order

ORDER_ALTERING = ("rev", "sort", "sort_by", "sort_by_key", "sort_unstable", "sort_unstable_by", "reverse",
                  "rotate_left", "rotate_right", "push_front", "rsplit", "rchunks")


def two_slices_out_of_order(g):
    """`let (front, back) = dq.as_slices()`: the halves must be visited front first"""
    from .taint_rules import pat_binds
    for x in walk(g["body"]):
        if x.get("k") == "LetS" and x.get("init") is not None and x["pat"].get("k") == "Leaf":
            i = peel(x["init"])
            if i.get("k") == "Call" and (callee(i) or "").rsplit("::", 1)[-1] in ("as_slices", "as_mut_slices"):
                vs = [b["v"] for b in pat_binds(x["pat"])]
                if len(vs) != 2:
                    continue
                first_use = {}
                for n, y in enumerate(walk(g["body"])):
                    if y.get("k") == "Var" and y["v"] in vs and y["v"] not in first_use:
                        first_use[y["v"]] = n
                if vs[0] in first_use and vs[1] in first_use and first_use[vs[1]] < first_use[vs[0]]:
                    return True
    return False
SEQ_HEADS = ("alloc::vec::Vec<", "alloc::collections::vec_deque::VecDeque<", "[", "&[", "alloc::boxed::Box<[", "alloc::sync::Arc<[",
             "arrayvec::arrayvec::ArrayVec<", "smallvec::SmallVec<", "alloc::collections::binary_heap::BinaryHeap<", "alloc::string::String",
             "str", "&str")


@rule("W14", ["C01", "C02"], floor=10, doc="ordered sequences (Vec, VecDeque, slices, arrays, ArrayVec, SmallVec, strings) are written in iteration order and rebuilt "
      "by appending in read order: their Serialize/Deserialize impls and helpers use no order-altering operation (rev, as_slices, "
      "sort, rotate, push_front, swap, drain ...)")
def w14(facts, tier):
    from .wire_rules import impl_pairs
    sers, des = impl_pairs(facts)
    todo = []
    for (ty, fid), (f, _) in list(sers.items()) + list(des.items()):
        st = (f.get("impl") or {}).get("self_ty", "")
        if st.startswith(SEQ_HEADS):
            todo.append(f)
    seen = set()
    for f in todo:
        # the impl and the local helpers it calls
        stack, fns = [f], []
        while stack:
            g = stack.pop()
            if g["id"] in seen and g is not f:
                continue
            fns.append(g)
            for x in walk(g["body"]):
                if x.get("k") == "Call":
                    t = (x.get("res") or {}).get("fn") or x.get("fn")
                    h = facts.fns.get(t)
                    if h is not None and h["crate"] == "savefile" and not (h.get("impl") or {}).get("trait") and h["id"] not in {z["id"] for z in fns} \
                            and not h["id"].startswith(("savefile::Serializer<", "savefile::Deserializer<")):
                        stack.append(h)
        bad = []
        for g in fns:
            for x in walk(g["body"]):
                if x.get("k") == "Call":
                    name = (callee(x) or "").rsplit("::", 1)[-1]
                    if name in ORDER_ALTERING:
                        bad.append(f"{name} in {g['id']}")
            if two_slices_out_of_order(g):
                bad.append(f"as_slices halves visited back before front in {g['id']}")
        key = f["id"]
        if key in seen:
            continue
        seen.add(key)
        yield ob(["C01", "C02"], "W14", key, "violation" if bad else "pass", where(f),
                 f"{key}: order-altering operation(s) {sorted(set(bad))[:3]}: elements are no longer written/rebuilt in sequence order "
                 f"(equal values give different bytes; a round trip can return a permuted sequence)" if bad
                 else "elements are written / appended in sequence order")


# ---------------------------------------------------------------------------------------------
# K4 (C07/C14): the decrypting reader consumes what it hands out

def canon_expr(n):
    n = peel_block(peel(n)) if isinstance(n, dict) else n
    if not isinstance(n, dict):
        return n
    k = n.get("k")
    if k == "Var":
        return ("var", n["v"].split("#")[0])
    if k == "Lit":
        return ("lit", n.get("int", n.get("str")))
    if k == "Field":
        return ("field", canon_expr(n["e"]), n["f"])
    if k == "Call":
        return ("call", callee(n), tuple(canon_expr(a) for a in n["args"]))
    if k == "Bin":
        return ("bin", n["op"], canon_expr(n["l"]), canon_expr(n["r"]))
    if k == "Cast":
        return canon_expr(n["e"])
    return ("?", k)


@rule("K4", ["C07", "C14", "C08"], floor=2, doc="CryptoReader::read: every block that copies authenticated plaintext out of its internal buffer into the caller's buffer "
      "advances the read offset by exactly the number of bytes it reports (otherwise the same plaintext is handed out again)")
def k4(facts, tier):
    f = None
    for fid, g in facts.fns.items():
        if fid.startswith("<savefile::crypto::CryptoReader<") and fid.endswith("as std::io::Read>::read"):
            f = g
    if f is None:
        return
    n = 0
    for b in walk(f["body"]):
        if b.get("k") != "Block":
            continue
        copies = []
        for s in b["stmts"]:
            e = s.get("e") if s["k"] == "ExprS" else None
            if e and e.get("k") == "Call" and (callee(e) or "").endswith(("clone_from_slice", "copy_from_slice")):
                src_mentions_buf = any(y.get("k") == "Field" and y["f"] == "buf" for y in walk(e["args"][1]))
                if src_mentions_buf:
                    copies.append(e)
        if not copies:
            continue
        n += 1
        advance = ret = None
        for s in b["stmts"]:
            e = s.get("e") if s["k"] == "ExprS" else None
            if e and e.get("k") == "AssignOp" and e["op"] in ("Add", "AddAssign") and peel(e["l"]).get("k") == "Field" and peel(e["l"])["f"] == "offset":
                advance = canon_expr(e["r"])
            if e and e.get("k") == "Return" and e.get("e") is not None:
                r = peel_block(e["e"])
                if r.get("k") == "Adt" and r.get("variant") == "Ok" and r["fields"]:
                    ret = canon_expr(r["fields"][0]["e"])
        ok = advance is not None and ret is not None and advance == ret
        yield ob(["C07", "C14", "C08"], "K4", f"copy-out#{n}", "pass" if ok else "violation", where(f, copies[0]),
                 "offset advanced by the number of bytes returned" if ok else
                 f"CryptoReader::read copies plaintext to the caller and returns {ret} but advances its offset by {advance}: the same bytes are "
                 f"delivered again, so a file cut at a chunk boundary can load as complete data")


# ---------------------------------------------------------------------------------------------
# K7 (C14, C07): every stored byte is needed by a load: the decompressor is driven to its end-of-stream

@rule("K7", ["C14", "C07"], floor=1, doc="Deserializer::load_impl, compressed branch: after the value has been deserialized the decompressor is read "
      "once more and its error is propagated, so the compressed stream's end-of-stream trailer (and with it the last encrypted chunk) "
      "is required to be present and intact")
def k7(facts, tier):
    from ..flow import parent_map
    f = next((g for g in facts.fns.values() if g["crate"] == "savefile" and g["id"].endswith("::load_impl")
              and "Deserializer" in g["id"]), None)
    if f is None:
        return
    pm = parent_map(f["body"])
    for blk in walk(f["body"]):
        if blk.get("k") != "Block":
            continue
        dec = None
        for i, s in enumerate(blk["stmts"]):
            if s.get("k") == "LetS" and s.get("init") is not None and s["pat"].get("k") == "Bind":
                c = peel_block(peel(s["init"]))
                if c.get("k") == "Call" and "Decoder" in (callee(c) or "") and (callee(c) or "").endswith("::new"):
                    dec = (i, s["pat"]["v"], callee(c))
        if dec is None:
            continue
        i0, D, ctor = dec
        # position of the payload read
        pay = None
        items = list(blk["stmts"]) + ([blk["e"]] if blk.get("e") is not None else [])
        for i, s in enumerate(items):
            if i <= i0:
                continue
            for x in walk(s):
                if x.get("k") == "Call" and x.get("trait") == "savefile::Deserialize" and x.get("self_ty") == "T":
                    pay = i
        if pay is None:
            yield ob(["C14", "C07"], "K7", "decompressor-driven-to-end", "undecided", where(f), "payload read not found after the decoder")
            continue
        drained = False
        for i, s in enumerate(items):
            if i < pay:
                continue
            for x in walk(s):
                if x.get("k") == "Call" and (callee(x) or "").endswith(("Read>::read", "Read>::read_exact", "Read>::read_to_end",
                                                                         "Read::read", "Read::read_exact", "Read::read_to_end",
                                                                         "io::copy::copy", "io::copy")):
                    recv = peel(x["args"][0]) if x.get("args") else {}
                    if recv.get("k") == "Var" and recv["v"] == D:
                        par = pm.get(id(x))
                        # after the payload call inside the same statement, or in a later statement
                        if par is not None and par.get("k") == "Try":
                            drained = True
        yield ob(["C14", "C07"], "K7", "decompressor-driven-to-end", "pass" if drained else "violation", where(f),
                 f"{f['id']}: after the value is read the {ctor.split('::')[-2] if '::' in ctor else ctor} is read to its end with the error propagated" if drained else
                 f"{f['id']}: the decompressor is dropped as soon as the value has been read: its end-of-stream trailer is never demanded, so a "
                 f"file truncated inside that trailer (for an encrypted file: with its final chunk removed) loads successfully")


# ---------------------------------------------------------------------------------------------
# K5 (C14): every stored byte of the nonce state reaches the nonce

def _int_ty_bytes(ty):
    m = re.match(r"[ui](\d+)$", ty or "")
    return int(m.group(1)) // 8 if m else None


import re


class SlotEval:
    """constant-folds the construction of a small fixed-size byte array: each slot holds the set of source bytes copied into it"""

    def __init__(self, f):
        self.f = f
        self.env = {}      # var -> ("arr", [slot contents]) | ("int", n) | ("iter", [refs]) ...
        self.unknown = []

    def const(self, n, ienv):
        n = peel_block(peel(n))
        k = n.get("k")
        if k == "Lit" and "int" in n:
            return n["int"]
        if k == "Var":
            v = ienv.get(n["v"])
            return v if isinstance(v, int) else None
        if k == "Cast":
            return self.const(n["e"], ienv)
        if k == "Bin":
            a, b = self.const(n["l"], ienv), self.const(n["r"], ienv)
            if a is None or b is None:
                return None
            return {"Add": a + b, "Sub": a - b, "Mul": a * b}.get(n["op"])
        return None

    def source(self, n):
        """array of source bytes produced by `<path>.to_le_bytes()` etc."""
        n = peel_block(peel(n))
        if n.get("k") == "Var" and n["v"] in self.env and self.env[n["v"]][0] == "arr":
            return self.env[n["v"]][1]
        if n.get("k") == "Call":
            c = callee(n) or ""
            name = c.rsplit("::", 1)[-1]
            if name in ("to_le_bytes", "to_be_bytes", "to_ne_bytes") and n["args"]:
                a = peel(n["args"][0])
                nb = _int_ty_bytes(c.split("::")[0]) or _int_ty_bytes(a.get("ty", ""))
                from ..ir import path_of
                p = path_of(a)
                if nb and p:
                    nm = ".".join(x.split("#")[0] for x in p)
                    order = range(nb) if name != "to_be_bytes" else range(nb - 1, -1, -1)
                    return [frozenset({(nm, i)}) for i in order]
        return None

    def iter_of(self, n, ienv):
        """list of items of an iterator expression: ('slot', arrvar, i) | ('val', content)"""
        n = peel_block(peel(n))
        src = self.source(n)
        if src is not None:
            return [("val", c) for c in src]
        if n.get("k") == "Var" and n["v"] in self.env and self.env[n["v"]][0] == "arr":
            return [("slot", n["v"], i) for i in range(len(self.env[n["v"]][1]))]
        if n.get("k") == "Call":
            c = callee(n) or ""
            name = c.rsplit("::", 1)[-1]
            a = n["args"]
            if name in ("iter_mut", "iter", "into_iter", "copied", "cloned", "by_ref") and a:
                inner = peel(a[0])
                if name in ("iter", "into_iter"):
                    s = self.source(inner)
                    if s is not None:
                        return [("val", x) for x in s]
                if inner.get("k") == "Var" and inner["v"] in self.env and self.env[inner["v"]][0] == "arr":
                    if name == "iter_mut":
                        return [("slot", inner["v"], i) for i in range(len(self.env[inner["v"]][1]))]
                    return [("val", x) for x in self.env[inner["v"]][1]]
                return self.iter_of(inner, ienv)
            if name in ("skip", "take", "step_by") and len(a) == 2:
                base, k = self.iter_of(a[0], ienv), self.const(a[1], ienv)
                if base is None or k is None:
                    return None
                return base[k:] if name == "skip" else (base[:k] if name == "take" else base[::k])
            if name == "rev" and a:
                base = self.iter_of(a[0], ienv)
                return None if base is None else base[::-1]
            if name == "zip" and len(a) == 2:
                x, y = self.iter_of(a[0], ienv), self.iter_of(a[1], ienv)
                if x is None or y is None:
                    return None
                return [("pair", p, q) for p, q in zip(x, y)]
            if name == "enumerate" and a:
                base = self.iter_of(a[0], ienv)
                return None if base is None else [("pair", ("int", i), b) for i, b in enumerate(base)]
            if name in ("index_mut", "index") and len(a) == 2:
                base = self.iter_of(a[0], ienv)
                from .taint_rules import _range_of
                r = None
                for y in walk(a[1]):
                    r = r or _range_of(y)
                if base is not None and r:
                    lo = self.const(r[1], ienv) if r[1] is not None else 0
                    hi = self.const(r[2], ienv) if r[2] is not None else len(base)
                    if lo is not None and hi is not None:
                        return base[lo:hi + (1 if r[0] == "incl" else 0)]
        if n.get("k") == "Adt":
            from .taint_rules import _range_of
            r = _range_of(n)
            if r:
                lo, hi = self.const(r[1], ienv) if r[1] is not None else 0, self.const(r[2], ienv)
                if lo is not None and hi is not None:
                    return [("int", i) for i in range(lo, hi + (1 if r[0] == "incl" else 0))]
        return None

    def bind(self, pat, item, ienv):
        k = pat.get("k")
        if k == "Bind":
            ienv[pat["v"]] = item[1] if item[0] == "int" else item
        elif k in ("Leaf", "Tuple") and item[0] == "pair":
            subs = [s["p"] if isinstance(s, dict) and "p" in s else s for s in pat.get("subs", [])]
            for sp, it in zip(subs, item[1:]):
                self.bind(sp, it, ienv)
        elif k == "Deref" and pat.get("sub"):
            self.bind(pat["sub"], item, ienv)

    def value(self, n, ienv):
        """content of a byte-valued expression"""
        n = peel_block(peel(n))
        k = n.get("k")
        if k == "Var":
            v = ienv.get(n["v"])
            if isinstance(v, tuple) and v[0] == "val":
                return v[1]
            if isinstance(v, tuple) and v[0] == "slot":
                return self.env[v[1]][1][v[2]]
            return None
        if k == "Index":
            base = peel(n["e"])
            i = self.const(n["i"], ienv)
            src = self.source(base)
            if src is not None and i is not None and 0 <= i < len(src):
                return src[i]
            return None
        if k == "Lit" and "int" in n:
            return frozenset()
        if k == "Bin" and n["op"] in ("BitXor", "BitOr", "Add", "BitAnd"):
            a, b = self.value(n["l"], ienv), self.value(n["r"], ienv)
            return None if a is None or b is None else a | b
        return None

    def stmt(self, s, ienv):
        k = s.get("k")
        if k == "Block":
            for t in s["stmts"]:
                self.stmt(t, ienv)
            if s.get("e") is not None:
                self.stmt(s["e"], ienv)
            return
        if k == "ExprS":
            return self.stmt(s["e"], ienv)
        if k == "LetS":
            if s.get("init") is not None and s["pat"].get("k") == "Bind":
                v = s["pat"]["v"]
                i = peel_block(peel(s["init"]))
                if i.get("k") == "Repeat" and isinstance(i.get("n"), int):
                    self.env[v] = ("arr", [frozenset() for _ in range(i["n"])])
                    return
                if i.get("k") == "Repeat":
                    try:
                        self.env[v] = ("arr", [frozenset() for _ in range(int(i.get("n")))])
                        return
                    except (TypeError, ValueError):
                        pass
                src = self.source(i)
                if src is not None:
                    self.env[v] = ("arr", list(src))
                    return
                c = self.const(i, ienv)
                if c is not None:
                    ienv[v] = c
            return
        if k == "For":
            items = self.iter_of(s["iter"], ienv)
            if items is None:
                if any(y.get("k") == "Var" and y["v"] in self.env for y in walk(s)):
                    self.unknown.append(("loop", s.get("ln")))
                return
            for it in items:
                e2 = dict(ienv)
                self.bind(s["pat"], it, e2)
                self.stmt(s["body"], e2)
            return
        if k == "Assign":
            l = s["l"]
            while l.get("k") in ("Deref", "Ref", "Coerce"):
                if l.get("k") == "Deref" and peel(l).get("k") == "Var":
                    break
                l = l["e"]
            val = self.value(s["r"], ienv)
            if l.get("k") == "Index" and peel(l["e"]).get("k") == "Var" and peel(l["e"])["v"] in self.env:
                arr = self.env[peel(l["e"])["v"]][1]
                i = self.const(l["i"], ienv)
                if i is None or val is None or not (0 <= i < len(arr)):
                    self.unknown.append(("assign", s.get("ln")))
                else:
                    arr[i] = val
                return
            t = peel(l)
            if t.get("k") == "Var" and isinstance(ienv.get(t["v"]), tuple) and ienv[t["v"]][0] == "slot":
                _, av, i = ienv[t["v"]]
                if val is None:
                    self.unknown.append(("assign", s.get("ln")))
                else:
                    self.env[av][1][i] = val
                return
            return
        if k == "Call":
            c = callee(s) or ""
            name = c.rsplit("::", 1)[-1]
            if name in ("copy_from_slice", "clone_from_slice") and len(s["args"]) == 2:
                dst = self.iter_of(s["args"][0], ienv)
                src = self.iter_of(s["args"][1], ienv)
                if dst is None or src is None or len(dst) != len(src) or any(d[0] != "slot" for d in dst):
                    self.unknown.append(("copy", s.get("ln")))
                else:
                    for d, v in zip(dst, src):
                        self.env[d[1]][1][d[2]] = v[1] if v[0] == "val" else self.env[v[1]][1][v[2]]
                return
            for a in s.get("args", []):
                pa = peel(a)
                if a.get("k") in ("Ref",) and a.get("mut") and pa.get("k") == "Var" and pa["v"] in self.env:
                    self.unknown.append(("call " + name, s.get("ln")))
            return
        if k in ("If", "Match", "Loop"):
            if any(y.get("k") == "Var" and y["v"] in self.env for y in walk(s)):
                self.unknown.append((k, s.get("ln")))
            return


@rule("K5", ["C14"], floor=1, doc="the AEAD nonce is an injective function of the stored nonce state: constant-folding the construction of the 12-byte "
      "array shows that every byte of `data1` (8) and `data2` (4) occupies a slot of its own")
def k5(facts, tier):
    f = next((g for g in facts.fns.values() if g["crate"] == "savefile" and (g.get("impl") or {}).get("trait", "").endswith("NonceSequence")
              and g.get("name") == "advance"), None)
    if f is None:
        return
    ev_ = SlotEval(f)
    ev_.stmt(f["body"], {})
    # the array handed to Nonce::assume_unique_for_key
    target = None
    for x in walk(f["body"]):
        if x.get("k") == "Call" and "Nonce" in (callee(x) or "") and x.get("args"):
            a = peel(x["args"][0])
            if a.get("k") == "Var" and a["v"] in ev_.env:
                target = a["v"]
    # what the state consists of: integer fields of Self
    adt = facts.adts.get((f.get("impl") or {}).get("self_ty", ""))
    want = set()
    if adt:
        for v in adt.get("variants", []):
            for fl in v.get("fields", []):
                nb = _int_ty_bytes(fl.get("ty"))
                if nb:
                    want |= {("self." + fl["name"], i) for i in range(nb)}
    if target is None or not want:
        yield ob(["C14"], "K5", "nonce-injective", "undecided", where(f), f"{f['id']}: nonce array / state fields not recognised")
        return
    slots = ev_.env[target][1]
    got = {}
    for i, c in enumerate(slots):
        for b in c:
            got.setdefault(b, []).append(i)
    missing = sorted(want - set(got))
    mixed = [i for i, c in enumerate(slots) if len(c) > 1]
    mentions_target = [y for y in walk(f["body"]) if y.get("k") == "Call" and (callee(y) or "").rsplit("::", 1)[-1] in
                       ("iter_mut", "for_each", "zip", "chain", "copy_from_slice", "clone_from_slice", "swap", "fill")
                       and any(z.get("k") == "Var" and z.get("v") == target for z in walk(y))]
    if ev_.unknown or not any(slots) or (missing and any((callee(y) or "").rsplit("::", 1)[-1] in ("for_each", "chain")
                                                          for y in mentions_target)):
        # nothing (or an iterator pipeline) fills the array in a form the folding knows: no verdict
        yield ob(["C14"], "K5", "nonce-injective", "undecided", where(f),
                 f"{f['id']}: construction of the nonce uses a form that is not constant-folded: {(ev_.unknown or ['iterator pipeline over the nonce array'])[:3]}")
    elif missing:
        yield ob(["C14"], "K5", "nonce-injective", "violation", where(f),
                 f"{f['id']}: byte(s) {', '.join(f'{n}[{i}]' for n, i in missing[:4])} of the stored nonce state do not reach the nonce "
                 f"(slots: {[sorted(c) for c in slots]}): a file whose stored nonce is modified there still decrypts")
    elif mixed:
        yield ob(["C14"], "K5", "nonce-injective", "undecided", where(f), f"{f['id']}: slots {mixed} combine several state bytes")
    else:
        yield ob(["C14"], "K5", "nonce-injective", "pass", where(f),
                 f"{f['id']}: the {len(slots)} nonce bytes are the {len(want)} bytes of the stored state, one per slot")



# ---------------------------------------------------------------------------------------------
# Q7 (C15): the ledger file of version v holds, and is compared against, the definition of version v

def mentions(t, pred):
    if pred(t):
        return True
    if isinstance(t, (tuple, list)):
        return any(mentions(x, pred) for x in t if isinstance(x, (tuple, list)))
    return False


@rule("Q7", ["C15"], floor=4, doc="verify_compatiblity: in the loop over the interface versions, the file name, the definition written to a new "
      "ledger file, the definition checked against an existing one and the version handed to the check are all those of the loop's "
      "version; the loop covers 0..=latest")
def q7(facts, tier):
    f = facts.fns.get("savefile_abi::verify_compatiblity")
    if f is None:
        return
    pv = Provenance(facts)
    pv.sites = []
    pv.run(f)
    is_loopvar = lambda t: isinstance(t, tuple) and len(t) >= 2 and t[0] == "loop"
    def_of_loop = lambda t: isinstance(t, tuple) and t and t[0] == "call" and t[1].endswith("get_definition") and \
        len(t[2]) == 1 and is_loopvar(t[2][0])
    def_of_other = lambda t: isinstance(t, tuple) and t and t[0] == "call" and t[1].endswith("get_definition") and not def_of_loop(t)
    saves = [(c, a, n) for c, a, n in pv.sites if c.endswith(("save_file_noschema", "save_file", "save_noschema"))]
    checks = [(c, a, n) for c, a, n in pv.sites if c.endswith("verify_backward_compatible")]
    loads = [(c, a, n) for c, a, n in pv.sites if c.endswith(("load_file_noschema", "load_file", "load_noschema"))]
    loopv = [t for c, a, n in pv.sites for t in a if is_loopvar(t)]
    # range of the loop
    rng = next((t[2] for t in loopv if len(t) > 2), None)
    if isinstance(rng, tuple) and rng[0] == "call" and rng[1].endswith(("::rev", "::into_iter")) and len(rng[2]) == 1:
        rng = rng[2][0]         # the order of the versions does not matter
    full = isinstance(rng, tuple) and rng[0] == "call" and rng[1].endswith("RangeInclusive::new") and rng[2][0] == ("const", 0) \
        and isinstance(rng[2][1], tuple) and rng[2][1][0] == "call" and rng[2][1][1].endswith("get_latest_version")
    is_range = isinstance(rng, tuple) and ((rng[0] == "call" and rng[1].endswith("RangeInclusive::new")) or
                                             (rng[0] == "adt" and str(rng[1]).endswith("ops::range::Range")))
    yield ob(["C15"], "Q7", "loop-covers-all-versions", "pass" if full else ("violation" if is_range else "undecided"), where(f),
             "the ledger loop runs over 0..=T::get_latest_version()" if full else f"the ledger loop runs over {show_term(rng)}, not 0..=latest")
    # inside the loop the only exits are failures: success is reported after all versions have been handled
    early = []
    for x in walk(f["body"]):
        if x.get("k") == "For":
            for y in walk(x["body"]):
                if y.get("k") == "Return" and y.get("e") is not None:
                    e_ = peel_block(peel(y["e"]))
                    if e_.get("k") == "Adt" and e_.get("variant") == "Ok":
                        early.append(y)
    yield ob(["C15"], "Q7", "no-success-before-all-versions", "violation" if early else "pass", where(f, early[0] if early else None),
             "the ledger loop is left only by an error; Ok is returned after the last version" if not early else
             "verify_compatiblity returns Ok from inside the loop over versions: the versions not yet visited are neither checked against "
             "their recorded files nor recorded - a change that breaks only an older recorded version is accepted")
    for c, a, n in saves:
        ok = len(a) >= 3 and def_of_loop(a[2])
        other = len(a) >= 3 and (def_of_other(a[2]))
        yield ob(["C15"], "Q7", "recorded-definition-is-that-of-the-loop-version", "pass" if ok else ("violation" if other else "undecided"),
                 where(f, n),
                 "a new ledger file receives T::get_definition(version) of the loop's version" if ok else
                 f"the ledger file of the loop's version receives {show_term(a[2]) if len(a) >= 3 else '?'}: a file created for an older version "
                 f"records a different version's definition, and the next run over the unchanged interface fails (or a breaking change passes)")
        okn = mentions(a[0], is_loopvar) if a else False
        yield ob(["C15"], "Q7", "file-name-carries-the-loop-version", "pass" if okn else "violation", where(f, n),
                 "the file name is built from the loop's version" if okn else "the name of the ledger file written does not depend on the loop's version")
    for c, a, n in checks:
        ok = len(a) >= 3 and def_of_loop(a[0]) and is_loopvar(a[1])
        bad = len(a) >= 3 and (def_of_other(a[0]) or not is_loopvar(a[1]))
        yield ob(["C15"], "Q7", "checked-definition-is-that-of-the-loop-version", "pass" if ok else ("violation" if bad else "undecided"), where(f, n),
                 "an existing ledger file is compared with T::get_definition(version) at that version" if ok else
                 f"an existing ledger file is compared with {show_term(a[0])} at version {show_term(a[1]) if len(a) > 1 else '?'}")
        prev = a[2] if len(a) >= 3 else None
        okp = any(prev == ("call", lc, la) or mentions(prev, lambda t: t == ("call", lc, la)) for lc, la, _ in loads) and \
            any(mentions(la[0], is_loopvar) for lc, la, _ in loads if la)
        yield ob(["C15"], "Q7", "compared-against-the-file-of-the-loop-version", "pass" if okp else "undecided", where(f, n),
                 "the recorded definition is loaded from the file named after the loop's version" if okp else
                 "origin of the recorded definition not recognised")


# ---------------------------------------------------------------------------------------------
# K8 (C14, C07): the encrypted stream has no optional records

@rule("K8", ["C14", "C07"], floor=1, doc="CryptoWriter::flush writes a record only while unwritten plaintext remains: the record header write is "
      "guarded, inside the loop, by `buffer length > offset` (or iterates over non-empty chunks). The framing has no end marker, so a "
      "record that carries no plaintext could be cut off without the reader noticing")
def k8(facts, tier):
    from ..flow import parent_map
    from .taint_rules import pat_binds
    fns = [g for g in facts.fns.values() if g["crate"] == "savefile" and g.get("body") and
           ("CryptoWriter" in g["id"] or (g["id"].startswith("savefile::crypto::") and "CryptoReader" not in g["id"] and "load_" not in g["id"]))]
    is_hdr = lambda x: x.get("k") == "Call" and (callee(x) or "").endswith(("WriteBytesExt::write_u64", "WriteBytesExt>::write_u64"))

    def remaining_guard(c, about=None):
        """`X.len() > y` / `!X.is_empty()` / `n > 0` (about: the guard must mention one of these variables)"""
        c = peel_block(peel(c))
        if c.get("k") == "Logic" and c["op"] == "And":
            return remaining_guard(c["l"], about) or remaining_guard(c["r"], about)
        hit = False
        if c.get("k") == "Bin" and c["op"] in ("Gt", "Lt", "Ne"):
            l, r = peel_block(peel(c["l"])), peel_block(peel(c["r"]))
            if c["op"] == "Lt":
                l, r = r, l
            is_len = lambda e: e.get("k") == "Call" and (callee(e) or "").endswith("::len")
            if is_len(l) and r.get("k") in ("Var", "Lit", "Const", "ConstBlock", "Path"):
                hit = True
            if l.get("k") == "Var" and r.get("k") == "Lit" and r.get("int") == 0:
                hit = True      # `remaining > 0`
        if c.get("k") == "Un" and c.get("op") == "Not":
            e = peel_block(peel(c["e"]))
            if e.get("k") == "Call" and (callee(e) or "").endswith("::is_empty"):
                hit = True
        if hit and about is not None:
            return any(y.get("k") == "Var" and y.get("v") in about for y in walk(c))
        return hit

    def guards_above(pm, x, stop_at_loop):
        guards, loop = [], None
        p, child = pm.get(id(x)), x
        while p is not None:
            if p.get("k") == "If" and child is p["t"]:
                guards.append(p["c"])
            if p.get("k") in ("Loop", "For") and loop is None:
                loop = p
                if stop_at_loop:
                    break
            child = p
            p = pm.get(id(p))
        return guards, loop

    def from_len(f, e, depth=0):
        """a record header is the u64 that announces a length: its value derives from some `.len()`"""
        for y in walk(e):
            if y.get("k") == "Call" and (callee(y) or "").endswith("::len"):
                return True
            if y.get("k") == "Var" and depth < 3:
                for s_ in walk(f["body"]):
                    if s_.get("k") == "LetS" and s_.get("init") is not None and any(b["v"] == y["v"] for b in pat_binds(s_["pat"])) \
                            and from_len(f, s_["init"], depth + 1):
                        return True
        return False

    total = 0
    for f in sorted(fns, key=lambda g: g["id"]):
        pm = None
        n = 0
        for x in walk(f["body"]):
            if not is_hdr(x) or len(x.get("args", [])) < 2 or not from_len(f, x["args"][1]):
                continue
            pm = pm or parent_map(f["body"])
            n += 1
            total += 1
            guards, loop = guards_above(pm, x, True)
            short = f["id"].rsplit("::", 1)[-1]
            key = f"record-carries-plaintext#{n}" if short == "flush" else f"record-carries-plaintext:{short}#{n}"
            if loop is None:
                if any(remaining_guard(g) for g in guards):
                    yield ob(["C14", "C07"], "K8", key, "pass", where(f, x), "the only record is written under a non-empty guard")
                    continue
                # a helper that seals what it is handed: every call site must establish that the data is not empty
                sites = []
                for g in fns:
                    gpm = None
                    for y in walk(g["body"]):
                        if y.get("k") == "Call" and ((y.get("res") or {}).get("fn") or y.get("fn")) == f["id"]:
                            gpm = gpm or parent_map(g["body"])
                            sites.append((g, y, gpm))
                if not sites or short == "flush":
                    yield ob(["C14", "C07"], "K8", key, "undecided", where(f, x), "a record is written outside any loop: emptiness not established")
                    continue
                badsite = None
                for g, y, gpm in sites:
                    argvars = {z["v"] for a in y["args"][1:] for z in walk(a) if z.get("k") == "Var"}
                    # variables the argument was split off from (`let (chunk, tail) = rest.split_at(..)`)
                    for s_ in walk(g["body"]):
                        if s_.get("k") == "LetS" and s_.get("init") is not None and {b["v"] for b in pat_binds(s_["pat"])} & argvars:
                            argvars |= {z["v"] for z in walk(s_["init"]) if z.get("k") == "Var"}
                    gs, _ = guards_above(gpm, y, False)
                    if any(remaining_guard(c, argvars) for c in gs):
                        continue
                    # `for piece in buf.chunks(N) { tmp.clone_from_slice(piece); seal(&mut tmp) }`: chunks() yields non-empty pieces, and
                    # the buffer handed over was filled from the piece inside the loop
                    in_chunks = False
                    p_, ch_ = gpm.get(id(y)), y
                    while p_ is not None:
                        if p_.get("k") == "For" and any(z.get("k") == "Call" and (callee(z) or "").rsplit("::", 1)[-1] in ("chunks", "chunks_exact", "chunks_mut")
                                                        for z in walk(p_["iter"])):
                            lv = {b["v"] for b in pat_binds(p_["pat"])}
                            if argvars & lv:
                                in_chunks = True
                            for z in walk(p_["body"]):
                                if z.get("k") == "Call" and z is not y and (callee(z) or "").rsplit("::", 1)[-1] in \
                                        ("clone_from_slice", "copy_from_slice", "extend_from_slice", "extend", "resize"):
                                    zv = {w_["v"] for a_ in z["args"] for w_ in walk(a_) if w_.get("k") == "Var"}
                                    if zv & lv and zv & argvars:
                                        in_chunks = True
                            break
                        ch_, p_ = p_, gpm.get(id(p_))
                    if not in_chunks:
                        badsite = (g, y)
                        break
                if badsite:
                    g, y = badsite
                    yield ob(["C14", "C07"], "K8", key, "violation", where(g, y),
                             f"{g['id']} hands {f['id']} data that no enclosing condition shows to be non-empty, and {short} writes a record header "
                             f"unconditionally: when the data ends exactly at a chunk boundary an empty record is appended, and a file with that record "
                             f"cut off still authenticates and loads")
                else:
                    yield ob(["C14", "C07"], "K8", key, "pass", where(f, x), f"every call of {short} is guarded by a length check on the data it is handed")
                continue
            if loop.get("k") == "For":
                it = str(loop.get("iter"))
                ok = "chunks" in it
                yield ob(["C14", "C07"], "K8", key, "pass" if ok else "undecided", where(f, x),
                         "records are written per non-empty chunk of the buffer" if ok else "iteration form not modelled")
                continue
            ok = any(remaining_guard(g) for g in guards)
            yield ob(["C14", "C07"], "K8", key, "pass" if ok else "violation", where(f, x),
                     f"{f['id']}: a record is written only while the buffer extends beyond the bytes already written" if ok else
                     f"{f['id']}: inside its loop the record header is written without a check that unwritten plaintext remains: when the buffered "
                     f"plaintext is an exact multiple of the chunk size an empty record is appended, and a file with that record cut off still "
                     f"authenticates and loads")


# ---------------------------------------------------------------------------------------------
# W15: booleans packed into a flag byte come back out of the bit they were put into

def _flag_bits_written(n, acc):
    """`if a {1} else {0} | if b {2} else {0} | ...` -> {var: bit}"""
    n = peel_block(peel(n))
    if n.get("k") == "Bin" and n["op"] in ("BitOr", "Add"):
        return _flag_bits_written(n["l"], acc) and _flag_bits_written(n["r"], acc)
    if n.get("k") == "If" and n.get("f") is not None:
        c = peel(n["c"])
        t, e = peel_block(peel(n["t"])), peel_block(peel(n["f"]))
        if c.get("k") == "Var" and t.get("k") == "Lit" and e.get("k") == "Lit" and e.get("int") == 0:
            acc[c["v"]] = t.get("int")
            return True
    if n.get("k") == "Cast":
        return _flag_bits_written(n["e"], acc)
    return False


@rule("W15", ["C13", "C15", "C01"], floor=1, doc="booleans packed into one flag byte: the bit each variant component is written with is the mask it "
      "is read back with, and the bits are distinct powers of two")
def w15(facts, tier):
    from .wire_rules import impl_pairs
    from .taint_rules import pat_binds
    sers, des = impl_pairs(facts)
    des_by_ty = {ty: v for (ty, fid), v in des.items()}
    for (ty, fid), (wf, wts) in sorted(sers.items()):
        if ty not in des_by_ty:
            continue
        rf, _ = des_by_ty[ty]
        for x in walk(wf["body"]):
            if x.get("k") != "Match":
                continue
            for arm in x["arms"]:
                pat = arm["pat"]
                if pat.get("k") != "Variant":
                    continue
                for y in walk(arm["body"]):
                    if not (y.get("k") == "Call" and (callee(y) or "").endswith("::write_u8") and len(y.get("args", [])) == 2):
                        continue
                    bits = {}
                    if not _flag_bits_written(y["args"][1], bits) or len(bits) < 2:
                        continue
                    # component position of each variable in the variant pattern
                    pos = {}
                    for i, sp in enumerate(pat.get("subs", [])):
                        q = sp.get("p", sp) if isinstance(sp, dict) else sp
                        idx = sp.get("f", i) if isinstance(sp, dict) else i
                        for b in pat_binds(q):
                            pos[b["v"]] = str(idx)
                    wbits = {pos[v]: b for v, b in bits.items() if v in pos}
                    # reader: construction of the same variant; component vars defined as `(m & LIT) != 0`
                    masks = {}
                    for z in walk(rf["body"]):
                        if z.get("k") == "LetS" and z["pat"].get("k") == "Bind" and z.get("init") is not None:
                            i = peel_block(peel(z["init"]))
                            if i.get("k") == "Bin" and i["op"] in ("Ne", "Eq", "Gt"):
                                a, b = peel_block(peel(i["l"])), peel_block(peel(i["r"]))
                                if a.get("k") == "Bin" and a["op"] == "BitAnd" and peel(a["r"]).get("k") == "Lit" and b.get("k") == "Lit":
                                    m = peel(a["r"])["int"]
                                    # `(x & m) != 0`, `> 0`, or `== m`
                                    if (i["op"] in ("Ne", "Gt") and b.get("int") == 0) or (i["op"] == "Eq" and b.get("int") == m):
                                        masks[z["pat"]["v"]] = m
                    rbits = {}
                    for z in walk(rf["body"]):
                        if z.get("k") == "Adt" and z.get("adt") == pat.get("adt") and z.get("variant") == pat.get("variant"):
                            for fl in z["fields"]:
                                e = peel(fl["e"])
                                if e.get("k") == "Var" and e["v"] in masks:
                                    rbits[str(fl["f"])] = masks[e["v"]]
                    key = f"{ty}::{pat.get('variant')}"
                    if not rbits:
                        yield ob(["C13", "C15", "C01"], "W15", key, "undecided", where(wf, y), f"{key}: flag byte written with bits {wbits}; the reader's masks were not recognised")
                        continue
                    bad = []
                    for p_, b in sorted(wbits.items()):
                        if rbits.get(p_) != b:
                            bad.append(f"component {p_} is written as bit value {b} but read back with mask {rbits.get(p_)}")
                    if len(set(wbits.values())) != len(wbits) or any(b & (b - 1) for b in wbits.values()):
                        bad.append(f"the written bit values {sorted(wbits.values())} are not distinct powers of two")
                    yield ob(["C13", "C15", "C01"], "W15", key, "violation" if bad else "pass", where(rf if bad else wf, y),
                             f"{key}: " + ("; ".join(bad) + ": the stored flags do not survive a write/read cycle (a recorded interface definition "
                                           "comes back with different Send/Sync/Unpin bounds)" if bad else f"{len(wbits)} flags use the same bits on both sides: {wbits}"))


# ---------------------------------------------------------------------------------------------
# W16: the element count a sequence writer emits is the length of the very container whose elements it then emits

def _count_and_iter_receivers(facts, g):
    from .introspect_rules import recv_path
    counts, iters = [], []
    local_seq_helpers = {}
    for x in walk(g["body"]):
        k = x.get("k")
        if k == "Call":
            c = callee(x) or ""
            t = (x.get("res") or {}).get("fn") or x.get("fn")
            if c.endswith("::write_usize") and len(x.get("args", [])) == 2:
                a = x["args"][1]
                ln = next((y for y in walk(a) if y.get("k") == "Call" and (callee(y) or "").endswith("::len") and y.get("args")), None)
                if ln is None and peel(a).get("k") == "Var":
                    # `let l = item.len(); write_usize(l)`
                    for z in walk(g["body"]):
                        if z.get("k") == "LetS" and z["pat"].get("k") == "Bind" and z["pat"]["v"] == peel(a)["v"] and z.get("init") is not None:
                            ln = next((y for y in walk(z["init"]) if y.get("k") == "Call" and (callee(y) or "").endswith("::len") and y.get("args")), None)
                if ln is not None:
                    counts.append((recv_path(g, ln["args"][0]), x))
            h = facts.fns.get(t)
            if h is not None and h["crate"] == "savefile" and not (h.get("impl") or {}).get("trait") and h["id"] != g["id"] and x.get("args") \
                    and re.search(r"serialize", h["id"]) and "Serializer<" not in h["id"].split("::")[1 if h["id"].startswith("savefile::") else 0]:
                # a local helper that writes a count and the elements of its first argument
                p = recv_path(g, x["args"][0])
                counts.append((p, x))
                iters.append((p, x))
        elif k == "For":
            it = x["iter"]
            tgt = it
            while True:
                tt = peel_block(peel(tgt))
                if tt.get("k") == "Call" and (callee(tt) or "").endswith(("::iter", "::into_iter", "::iter_mut")) and tt.get("args"):
                    tgt = tt["args"][0]
                    continue
                break
            iters.append((recv_path(g, tgt), x))
    return counts, iters


@rule("W16", ["C01", "C02", "C12"], floor=4, doc="sequence writers: the length prefix is len() of the whole container (a parameter or self, not a part of it "
      "such as one half of as_slices()), and every element loop runs over that same container")
def w16(facts, tier):
    from .wire_rules import impl_pairs
    sers, _ = impl_pairs(facts)
    seen = set()
    todo = []
    for (ty, fid), (f, _) in sers.items():
        st = (f.get("impl") or {}).get("self_ty", "")
        if st.startswith(SEQ_HEADS):
            todo.append(f)
    fns = []
    stack = list(todo)
    while stack:
        g = stack.pop()
        if g["id"] in seen:
            continue
        seen.add(g["id"])
        fns.append(g)
        for x in walk(g["body"]):
            if x.get("k") == "Call":
                t = (x.get("res") or {}).get("fn") or x.get("fn")
                h = facts.fns.get(t)
                if h is not None and h["crate"] == "savefile" and not (h.get("impl") or {}).get("trait") \
                        and not h["id"].startswith(("savefile::Serializer<", "savefile::Deserializer<")):
                    stack.append(h)
    for g in sorted(fns, key=lambda z: z["id"]):
        counts, iters = _count_and_iter_receivers(facts, g)
        if not counts:
            continue
        params = {p["pat"]["v"].split("#")[0] for p in g["params"] if p.get("pat") and p["pat"].get("k") == "Bind"}
        bad = []
        whole = lambda p: len(p) == 1 and p[0] in params
        cps = {p for p, _ in counts}
        for p, x in counts:
            if "?" in p:
                continue
            if not whole(p):
                bad.append(f"the element count written is the length of `{'.'.join(p)}`, a part of the container")
        VIEWS = ("<chunks>", "<chunks_exact>", "<remainder>", "<iter>", "<as_slice>", "<into_iter>")
        raw_iters = [p for p, _ in iters]
        if any("<chunks_exact>" in p and "<remainder>" not in p for p in raw_iters) and not any("<remainder>" in p for p in raw_iters):
            bad.append("elements are written per `chunks_exact` chunk but the remainder is never written")
        iters = [(tuple(t for t in p if t not in VIEWS), x) for p, x in iters]
        for p, x in iters:
            if "?" in p or not p or p[0] not in params:
                continue
            if p not in cps and any(q[0] == p[0] for q in cps):
                bad.append(f"elements of `{'.'.join(p)}` are written although the count is that of `{'.'.join(sorted(cps)[0])}`")
        # between the count and the elements nothing may leave the function with success, except when the count is zero
        from ..flow import parent_map as _pm
        pm = _pm(g["body"])
        first_count = counts[0][1]
        order = {id(n_): i for i, n_ in enumerate(walk(g["body"]))}
        loops = [x_ for _, x_ in iters]
        for r_ in walk(g["body"]):
            if r_.get("k") != "Return" or r_.get("e") is None:
                continue
            e_ = peel_block(peel(r_["e"]))
            if not (e_.get("k") == "Adt" and e_.get("variant") == "Ok"):
                continue
            if order.get(id(r_), 0) < order.get(id(first_count), 0):
                continue
            if loops and all(order.get(id(lp), 0) < order.get(id(r_), 0) for lp in loops):
                continue      # after the element loops
            # the guard of this early success
            conds = []
            p_, ch_ = pm.get(id(r_)), r_
            while p_ is not None:
                if p_.get("k") == "If" and any(ch_ is y_ for y_ in walk(p_["t"])):
                    conds.append(p_["c"])
                ch_, p_ = p_, pm.get(id(p_))
            def about_count(c_):
                txt = [y_ for y_ in walk(c_) if (y_.get("k") == "Call" and (callee(y_) or "").endswith(("::len", "::is_empty")))
                       or (y_.get("k") == "Var" and any(y_["v"] == (peel(cx["args"][1]).get("v") if len(cx.get("args", [])) > 1 else None) for _, cx in counts))]
                return bool(txt)
            if not any(about_count(c_) for c_ in conds):
                what = "; ".join(sorted({(callee(y_) or "").rsplit("::", 1)[-1] for c_ in conds for y_ in walk(c_) if y_.get("k") == "Call"})) or "an unrelated condition"
                bad.append(f"after the element count has been written the function returns Ok without writing the elements when `{what}` holds "
                           f"(not a test of the count): the reader still reads that many elements")
        undecided = any("?" in p for p, _ in counts)
        yield ob(["C01", "C02", "C12"], "W16", g["id"], "violation" if bad else ("undecided" if undecided else "pass"), where(g, counts[0][1]),
                 f"{g['id']}: " + ("; ".join(sorted(set(bad))[:2]) + (": the stored count and the stored elements disagree for a container whose "
                                   "storage is split (a wrapped VecDeque)" if any("part of" in b_ or "elements of" in b_ for b_ in bad) else "") if bad else
                                   f"count and elements are those of `{'.'.join(sorted(cps)[0])}`"))


# ---------------------------------------------------------------------------------------------
# K9 (C14): the unauthenticated chunk length is rejected when out of range, never adjusted

@rule("K9", ["C14"], floor=1, doc="CryptoReader::read: the 8-byte chunk length is not covered by the AEAD tag, so every stored value must either be the "
      "true length or be rejected: between the read of the length and its use for framing there is only a cast and a reject-guard - "
      "no min / clamp / mask / modulo that would map several stored values to the same accepted length")
def k9(facts, tier):
    f = next((g for g in facts.fns.values() if g["crate"] == "savefile" and "CryptoReader" in g["id"] and g["id"].endswith("::read")
              and (g.get("impl") or {}).get("trait", "").endswith("Read")), None)
    if f is None:
        return
    n = 0
    for x in walk(f["body"]):
        if x.get("k") == "LetS" and x["pat"].get("k") == "Bind" and x.get("init") is not None:
            src = next((y for y in walk(x["init"]) if y.get("k") == "Call" and (callee(y) or "").endswith(("ByteOrder::read_u64", "u64::from_le_bytes",
                                                                                                              "ReadBytesExt::read_u64"))), None)
            if src is None:
                continue
            n += 1
            ops = []
            e = x["init"]
            while True:
                e = peel_block(peel(e))
                if e is src:
                    break
                if e.get("k") in ("Cast", "Try"):
                    e = e["e"]
                    continue
                if e.get("k") == "Call":
                    ops.append((callee(e) or "?").rsplit("::", 1)[-1])
                    e = e["args"][0] if e.get("args") else src
                    continue
                if e.get("k") == "Bin":
                    ops.append(e["op"])
                    e = e["l"]
                    continue
                ops.append(e.get("k"))
                break
            # a reject guard on the variable follows
            var = x["pat"]["v"]
            guard = False
            for y in walk(f["body"]):
                if y.get("k") == "If" and any(z.get("k") == "Var" and z["v"] == var for z in walk(y["c"])) and \
                        any(z.get("k") == "Return" for z in walk(y["t"])):
                    guard = True
            ok = not ops and guard
            yield ob(["C14"], "K9", "chunk-length-identity", "pass" if ok else "violation", where(f, x),
                     f"{f['id']}: the stored chunk length is used as read (cast only) and rejected when out of range" if ok else
                     f"{f['id']}: the stored chunk length " + (f"passes through `{ops[0]}` before it is used" if ops else "is not rejected when out of range") +
                     ": several stored values lead to the same accepted framing, so a file whose (unauthenticated) length field was modified "
                     "still decrypts and loads")
    if n == 0:
        yield ob(["C14"], "K9", "chunk-length-identity", "undecided", where(f), "read of the chunk length not found")


# ---------------------------------------------------------------------------------------------
# W17 (C02, C01): sign-and-magnitude encoding of SystemTime is canonical at zero

@rule("W17", ["C02", "C01"], floor=1, doc="SystemTime is written as distance-from-epoch plus a before-epoch flag (bit 127): the flag is set only for "
      "instants strictly before the epoch, i.e. on the Err branch of `self.duration_since(UNIX_EPOCH)`; with the roles swapped the "
      "epoch itself (distance 0) would be written with the flag set - equal values, different bytes")
def w17(facts, tier):
    f = facts.fns.get("<std::time::SystemTime as savefile::Serialize>::serialize")
    if f is None:
        return
    selfv = f["params"][0]["pat"]["v"] if f["params"] and f["params"][0].get("pat") else None
    call = next((x for x in walk(f["body"]) if x.get("k") == "Call" and (callee(x) or "").endswith("SystemTime::duration_since")
                 and len(x.get("args", [])) == 2), None)
    flag_sites = [x for x in walk(f["body"]) if x.get("k") == "AssignOp" and x.get("op") in ("BitOrAssign", "BitOr")
                  and any(y.get("k") == "Lit" and y.get("int") == 127 for y in walk(x["r"]))]
    if call is None or not flag_sites:
        yield ob(["C02", "C01"], "W17", "before-epoch-flag", "undecided", where(f), "duration_since / flag assignment not found (other formulation)")
        return
    recv_is_self = any(y.get("k") == "Var" and y["v"] == selfv for y in walk(call["args"][0]))
    arg_is_self = any(y.get("k") == "Var" and y["v"] == selfv for y in walk(call["args"][1]))
    # which arm of the match on the call's result leads to the flag?
    from ..flow import parent_map
    pm = parent_map(f["body"])
    arm = None
    p, child = pm.get(id(call)), call
    while p is not None and p.get("k") != "Match":
        child, p = p, pm.get(id(p))
    if p is not None:
        for a in p["arms"]:
            v = a["pat"].get("variant")
            sets_here = any(s is y for s in flag_sites for y in walk(a["body"]))
            truthy = any(y.get("k") == "Lit" and y.get("ty") == "bool" and y.get("int") == 1 for y in walk(a["body"]))
            if sets_here or (truthy and not any(s is y for s in flag_sites for a2 in p["arms"] for y in walk(a2["body"]))):
                arm = v
    ok = recv_is_self and not arg_is_self and arm == "Err"
    bad = arg_is_self and arm == "Ok"
    yield ob(["C02", "C01"], "W17", "before-epoch-flag", "pass" if ok else ("violation" if bad else "undecided"), where(f, call),
             "the flag is set on the Err branch of self.duration_since(UNIX_EPOCH): strictly before the epoch" if ok else
             ("the before-epoch flag is set on the Ok branch of UNIX_EPOCH.duration_since(self), which also covers self == UNIX_EPOCH "
              "(distance 0): the epoch is written with the flag bit set, so equal instants no longer have equal bytes and the bytes "
              "differ from the documented encoding" if bad else "flag polarity not determined"))


# ---------------------------------------------------------------------------------------------
# X4 (C11): who may claim a known memory layout for a container

PROBES = {"savefile::calculate_vec_memory_layout": ("alloc::vec::Vec<",),
          "savefile::calculate_slice_memory_layout": ("&[", "&'_ [", "[", "&'a ["),
          "savefile::calculate_string_memory_layout": ("alloc::string::String", "&str", "&'_ str", "&'a str", "str")}


@rule("X4", ["C11", "C10"], floor=3, doc="a schema claims a known Vec/String memory layout only through the run-time probe written for that very type: "
      "calculate_vec_memory_layout for Vec<T>, calculate_slice_memory_layout for &[T], calculate_string_memory_layout for String/&str; "
      "every other container (Box<[T]>, Arc<[T]>, VecDeque, sets, ...) reports Unknown, which layout_compatible answers 'no' to")
def x4(facts, tier):
    for f in sorted(facts.fns.values(), key=lambda g: g["id"]):
        im = f.get("impl") or {}
        if f["crate"] != "savefile" or im.get("trait") != "savefile::WithSchema" or f.get("name") != "schema" or not f.get("body"):
            continue
        st = im.get("self_ty", "")
        reached, todo, seen_ = set(), [f], set()
        while todo:
            g = todo.pop()
            if g["id"] in seen_:
                continue
            seen_.add(g["id"])
            for x in walk(g["body"]):
                if x.get("k") == "Call":
                    t = (x.get("res") or {}).get("fn") or x.get("fn") or ""
                    base = t.split("<")[0] if not t.startswith("<") else t
                    if base in PROBES:
                        reached.add(base)
                    h = facts.fns.get(t)
                    if h is not None and h["crate"] == "savefile" and not (h.get("impl") or {}).get("trait") and h.get("body"):
                        todo.append(h)
                elif x.get("k") == "Closure" and x.get("id") in facts.fns:
                    todo.append(facts.fns[x["id"]])
        if not reached:
            continue
        bad = [p for p in reached if not st.startswith(PROBES[p])]
        yield ob(["C11", "C10"], "X4", st, "violation" if bad else "pass", where(f),
                 f"{st}: claims the layout probed by {sorted(reached)[0].rsplit('::', 1)[-1]} (its own probe)" if not bad else
                 f"the schema of `{st}` claims the memory layout probed by `{bad[0].rsplit('::', 1)[-1]}`, which examines a different type: "
                 f"layout_compatible then treats `{st}` as interchangeable in memory with that type and a reference to it is passed as a raw pointer")


# ---------------------------------------------------------------------------------------------
# K10 (C14): every stored byte of the nonce header ends up in the nonce state

@rule("K10", ["C14"], floor=1, doc="RandomNonceSequence::deserialize: every value read from the 12-byte header is stored in a field of the nonce "
      "state (K5 then shows that every byte of that state reaches the nonce): a header byte that is read and discarded can be "
      "modified without the file being rejected")
def k10(facts, tier):
    f = facts.fns.get("savefile::crypto::RandomNonceSequence::deserialize")
    if f is None:
        return
    reads = [x for x in walk(f["body"]) if x.get("k") == "Call" and x.get("trait") == "byteorder::io::ReadBytesExt"]
    lets = {}
    for x in walk(f["body"]):
        if x.get("k") == "LetS" and x["pat"].get("k") == "Bind" and x.get("init") is not None:
            lets[x["pat"]["v"]] = x["init"]
    adt = next((x for x in walk(f["body"]) if x.get("k") == "Adt" and (x.get("adt") or "").endswith("RandomNonceSequence")), None)
    if adt is None or not reads:
        yield ob(["C14"], "K10", "header-bytes-stored", "undecided", where(f), "reads / constructed state not found")
        return
    stored = set()
    for fl in adt["fields"]:
        e = fl["e"]
        seen = 0
        nodes = list(walk(e))
        while seen < 5:
            seen += 1
            more = []
            for y in nodes:
                if y.get("k") == "Var" and y["v"] in lets:
                    more.extend(walk(lets[y["v"]]))
            if not more:
                break
            nodes = nodes + more
        for y in nodes:
            for r in reads:
                if y is r:
                    stored.add(id(r))
    lost = [r for r in reads if id(r) not in stored]
    yield ob(["C14"], "K10", "header-bytes-stored", "violation" if lost else "pass", where(f, lost[0] if lost else adt),
             f"all {len(reads)} values read from the nonce header are stored in the nonce state" if not lost else
             f"RandomNonceSequence::deserialize reads `{(callee(lost[0]) or '').rsplit('::', 1)[-1]}` from the header and does not store it in the nonce "
             f"state: those header bytes no longer influence decryption, so a file with exactly those bytes modified is accepted")


# ---------------------------------------------------------------------------------------------
# X5: process-wide / thread-wide state on save and load paths

X5_ALLOWED_STATE = {
    "savefile::STRING_IS_STANDARD_LAYOUT": "memo of a probe whose answer is a constant of the process (no parameter)",
    "savefile::QUICKCHECKBOUND": "quickcheck generators only (test feature)",
    "savefile::THE_NULL_INTROSPECTABLE": "immutable unit value",
}
_MAP_READ = ("::get", "::contains_key", "::get_mut", "::entry", "::get_or_insert_with")
_MAP_WRITE = ("::insert", "::entry", "::or_insert", "::or_insert_with", "::get_or_insert_with")


def _x5_state_name(x, crate="savefile"):
    for y in walk(x):
        i = y.get("id")
        if isinstance(i, str) and i.startswith(crate + "::") and y.get("k") in ("Static", "Const", "ConstBlock", "Path", "ZstLit", "Item"):
            return i.split("::{")[0]
    return None


def _x5_deps(e, f, params, seen=None):
    """parameters of f that the expression depends on, through let-bindings of f and the closures written in it"""
    from .taint_rules import pat_binds
    seen = seen if seen is not None else set()
    out = set()
    for y in walk(e):
        if y.get("k") == "Var":
            v = y["v"]
            if v in params:
                out.add(v.split("#")[0])
            elif v not in seen:
                seen.add(v)
                for s_ in f["_all_lets"]:
                    if any(b["v"] == v for b in pat_binds(s_["pat"])) and s_.get("init") is not None:
                        out |= _x5_deps(s_["init"], f, params, seen)
        if y.get("k") == "Call":
            for t in y.get("targs") or []:
                if isinstance(t, str) and t in (f.get("generics") or []):
                    out.add("type " + t)
            if y.get("self_ty") in (f.get("generics") or []):
                out.add("type " + y["self_ty"])
    return out


def _x5_scan(facts, crate, only=None):
    P = ["C18", "C13", "C01", "C03"]
    from ..flow import parent_map
    n_state = 0
    for f in sorted(facts.fns_of_crate(crate), key=lambda g: g["id"]):
        if only is not None and only not in f["id"]:
            continue
        body = f.get("body")
        if not body or "::{inlineconst" in f["id"] or "::{constant" in f["id"] or f.get("kind") == "Closure":
            continue
        # the function together with the closures written in it
        parts = [f]
        stack = [body]
        while stack:
            b = stack.pop()
            for y in walk(b):
                if y.get("k") == "Closure" and facts.fns.get(y["id"]) and facts.fns[y["id"]] not in parts:
                    parts.append(facts.fns[y["id"]])
                    stack.append(facts.fns[y["id"]]["body"])
        states = {}
        for g in parts:
            for x in walk(g["body"]):
                if x.get("k") == "Call" and "thread::local::LocalKey" in (callee(x) or "") and not (callee(x) or "").endswith("::new"):
                    nm = _x5_state_name(x["args"][0], crate) if x.get("args") else None
                    states.setdefault(nm or "thread-local", []).append((g, x))
                if x.get("k") == "Static" and str(x.get("id", "")).startswith(crate + "::") and "__RUST_STD_INTERNAL" not in x["id"]:
                    states.setdefault(x["id"], []).append((g, x))
        for nm, uses in sorted(states.items(), key=lambda kv: str(kv[0])):
            if nm in X5_ALLOWED_STATE:
                continue
            n_state += 1
            key = f"{f['id']}:{nm}"
            params = {p["pat"]["v"] for p in f.get("params", []) if (p.get("pat") or {}).get("k") == "Bind"}
            f["_all_lets"] = [s_ for g in parts for s_ in walk(g["body"]) if s_.get("k") == "LetS"]
            allcalls = [y for g in parts for y in walk(g["body"]) if y.get("k") == "Call"]
            reads = [y for y in allcalls if (callee(y) or "").endswith(_MAP_READ) and ("HashMap" in (callee(y) or "") or "BTreeMap" in (callee(y) or ""))]
            writes = [y for y in allcalls if (callee(y) or "").endswith(_MAP_WRITE) and ("HashMap" in (callee(y) or "") or "BTreeMap" in (callee(y) or "")
                                                                                        or "Entry" in (callee(y) or ""))]
            if reads and writes:
                kdeps, vdeps = set(), set()
                for y in reads + [w for w in writes if (callee(w) or "").endswith(("::insert", "::entry"))]:
                    if len(y["args"]) >= 2:
                        kdeps |= _x5_deps(y["args"][1], f, params)
                for w in writes:
                    c = callee(w) or ""
                    if c.endswith("::insert") and len(w["args"]) >= 3:
                        vdeps |= _x5_deps(w["args"][2], f, params)
                    elif c.endswith(("or_insert", "or_insert_with", "get_or_insert_with")) and len(w["args"]) >= 2:
                        vdeps |= _x5_deps(w["args"][-1], f, params)
                        cl = peel(w["args"][-1])
                        if cl.get("k") == "Closure" and facts.fns.get(cl["id"]):
                            vdeps |= _x5_deps(facts.fns[cl["id"]]["body"], f, params)
                missing = sorted(d for d in vdeps - kdeps if d != "self")
                f.pop("_all_lets", None)
                yield ob(P, "X5", key, "violation" if missing else "pass", where(f, uses[0][1]),
                         f"{f['id']} memoises a value in {nm} under a key that does not contain {', '.join('`' + m + '`' for m in missing)}, on which the "
                         f"value depends: the value computed for the first call is returned for later calls with a different {missing[0]} "
                         f"(e.g. the schema of another version is stored in the file)" if missing else
                         f"memo in {nm}: the key covers every parameter the value depends on ({sorted(vdeps)})")
                continue
            # counter: increments must be undone on every exit
            incs, decs = [], []
            for g in parts:
                for y in walk(g["body"]):
                    if y.get("k") == "Call":
                        c = (callee(y) or "").rsplit("::", 1)[-1]
                        if c in ("fetch_add",):
                            incs.append((g, y))
                        elif c in ("fetch_sub",):
                            decs.append((g, y))
                        elif c in ("set", "replace") and len(y.get("args", [])) == 2:
                            a = peel_block(peel(y["args"][1]))
                            if a.get("k") == "Bin" and a.get("op") == "Add":
                                incs.append((g, y))
                            elif a.get("k") == "Bin" and a.get("op") == "Sub":
                                decs.append((g, y))
            f.pop("_all_lets", None)
            if incs:
                # position of the state-touching statements in f's own body (a closure's uses count at the call that contains it)
                def line(gy):
                    return gy[1].get("ln") or 0
                first_inc = min(line(i) for i in incs)
                declines = sorted(line(d) for d in decs)
                exits = [y for y in walk(body) if y.get("k") in ("Try", "Return") and (y.get("ln") or 0) > first_inc]
                pm = parent_map(body)
                leaked = None
                for e_ in exits:
                    # a return is fine when a decrement stands before it in the same block; a `?` has no such block
                    ok = False
                    if e_.get("k") == "Return":
                        p_, ch = pm.get(id(e_)), e_
                        while p_ is not None and p_.get("k") != "Block":
                            ch, p_ = p_, pm.get(id(p_))
                        if p_ is not None:
                            before = [s_ for s_ in p_.get("stmts", []) if (s_.get("ln") or 0) <= (e_.get("ln") or 0)]
                            ok = any(any(line((None, z)) in declines and z.get("k") == "Call" for z in walk(s_)) for s_ in before)
                    if not ok:
                        leaked = e_
                        break
                has_guard = any(y.get("k") == "Adt" and any(h.get("trait") == "core::ops::drop::Drop" and h.get("self_ty") == y.get("ty")
                                                             for h in facts.impls) for y in walk(body))
                if leaked is not None and not has_guard:
                    yield ob(P, "X5", key, "violation", where(f, leaked),
                             f"{f['id']} raises the counter {nm} and leaves through `{'?' if leaked['k'] == 'Try' else 'return'}` (line {leaked.get('ln')}) "
                             f"without lowering it again: every failed call leaks one level, and after enough failures on a thread every later call "
                             f"fails (or the limit is never enforced) although its input is fine")
                else:
                    yield ob(P, "X5", key, "pass", where(f, uses[0][1]), f"counter {nm} is restored on every exit")
                continue
            yield ob(P, "X5", key, "undecided", where(f, uses[0][1]), f"{f['id']} uses shared state {nm} in a way that is neither a memo nor a counter")
    if only is None:
        yield ob(P, "X5", "inventory", "pass", "", f"{n_state} use(s) of crate-owned shared state outside the reviewed list", nontrivial=False)


@rule("X5", ["C18", "C13", "C01", "C03"], floor=5, doc="saving and loading are functions of their arguments: a library function that touches process-wide or "
      "thread-wide state (static, thread_local) either is on the reviewed list, or uses it as a memo whose key contains every parameter "
      "the memoised value depends on, or as a counter that is restored on every exit (including `?`); anything else makes the outcome of a "
      "save / load depend on what the thread did before")
def x5(facts, tier):
    P = ["C18", "C13", "C01", "C03"]
    yield from _x5_scan(facts, "savefile")
    # positive examples (the expected count on the library is zero): two deliberately flawed functions of the witness corpus must be
    # recognised on every run, a correct memo and a guarded counter must pass
    import re as _re
    got = {}
    for o in _x5_scan(facts, "sfcorpus", only="selftest_state"):
        m_ = _re.search(r"selftest_state::(\w+):", o["key"])
        if m_:
            got[m_.group(1)] = o
    for name, want in (("memo_underkeyed", "violation"), ("counter_leaks", "violation"), ("memo_fully_keyed", "pass"), ("counter_guarded", "pass")):
        o = got.get(name)
        ok = o is not None and o["status"] == want
        yield ob(P, "X5", f"selftest:{name}", "pass" if ok else "violation", o["where"] if o else "",
                 f"positive example {name} is classified `{want}`" if ok else
                 f"rule X5 no longer classifies its built-in example sfcorpus::selftest_state::{name} as `{want}` (got {o['status'] if o else 'nothing'}): the rule is blind")


# ---------------------------------------------------------------------------------------------
# W19: independent boolean facts are written independently

@rule("W19", ["C13", "C15"], floor=1, doc="a writer of the schema / interface-definition types that encodes two boolean fields of the value (the Send and "
      "Sync bounds of an interface definition) tests each of them on its own: the test of one flag is not nested in the else-branch of "
      "the other (an `if a {..} else if b {..}` chain can express only one of them, so a definition with both bounds reads back with one)")
def w19(facts, tier):
    from .wire_rules import impl_pairs
    sers, _ = impl_pairs(facts)
    n = 0
    for (ty, fid), (f, _) in sorted(sers.items()):
        if not ty.startswith("savefile::") or "~" in fid:
            continue
        selfv = next((p["pat"]["v"] for p in f.get("params", []) if p.get("self") and (p.get("pat") or {}).get("k") == "Bind"), None)

        def flag_of(c):
            c = peel_block(peel(c))
            if c.get("k") == "Field" and (c.get("ty") == "bool") and any(y.get("k") == "Var" and y.get("v") == selfv for y in walk(c)):
                return c["f"]
            return None
        flags = [(x, flag_of(x["c"])) for x in walk(f["body"]) if x.get("k") == "If" and flag_of(x["c"])]
        if len({fl for _, fl in flags}) < 2:
            continue
        n += 1
        bad = None
        for x, fl in flags:
            if x.get("f") is None:
                continue
            for y in walk(x["f"]):
                if y.get("k") == "If" and flag_of(y["c"]) and flag_of(y["c"]) != fl:
                    bad = (fl, flag_of(y["c"]), y)
        yield ob(["C13", "C15"], "W19", f["id"], "violation" if bad else "pass", where(f, bad[2]) if bad else where(f),
                 f"{f['id']}: the flag `{bad[1]}` is only tested when `{bad[0]}` is false (else-if chain): a value with both set is written as if "
                 f"only `{bad[0]}` were, and reads back different from what was written" if bad else
                 f"each of the flags {sorted({fl for _, fl in flags})} is tested on its own")
    if n == 0:
        yield ob(["C13", "C15"], "W19", "anchor", "violation", "", "no writer testing two boolean fields found (anchor lost)")
