"""E4 rules on I/O discipline: I1 exact reads, I2 exact writes, I3 result discipline (C07, C08, C14)."""
import json
import os

from ..core import ob, rule, where
from ..flow import fate, is_err_result, parent_map, var_fates
from ..ir import callee, walk

ALLOW_PATH = os.path.join(os.path.dirname(os.path.dirname(os.path.dirname(os.path.abspath(__file__)))), "spec", "allow.json")


class Allow(dict):
    """allow-list with hit tracking: an entry that matches nothing any more is reported (fail closed)"""

    def __init__(self, d):
        super().__init__(d)
        self.hits = set()

    def get(self, k, default=None):
        if k in self:
            self.hits.add(k)
        return super().get(k, default)

    def stale(self, rule_name, props):
        for (r, key) in self:
            if r == rule_name and (r, key) not in self.hits:
                yield ob(props, rule_name, "STALE-ALLOW:" + key.split(":", 1)[1], "violation", "",
                         f"allow-list entry {key} matches no site any more: the anchor it was reviewed for is gone "
                         f"(renamed or removed); re-triage (fail closed)")


def allow():
    try:
        return Allow({(a["rule"], a["key"]): a["reason"] for a in json.load(open(ALLOW_PATH))})
    except OSError:
        return Allow({})


def skip_fn(f):
    """generated / test-support code that is not part of the save/load paths"""
    fid = f["id"]
    if "quickcheck::Arbitrary" in fid or "serde::" in fid or "__Visitor" in fid or "__Field" in fid:
        return True
    return False


def side_props(f):
    fid = f["id"]
    ps = ["C08"]
    reader = any(s in fid for s in ("Deserializ", "CryptoReader", "load", "read_"))
    if reader:
        ps.append("C07")
    if "crypto::" in fid or "Crypto" in fid or "encrypted" in fid:
        ps.append("C14")
    if "Deserializ" in fid or "CryptoReader" in fid:
        ps.append("C06")
    return ps


INEXACT_READS = {"std::io::Read::read", "std::io::Read::read_to_end", "std::io::Read::read_to_string",
                 "std::io::Read::read_vectored", "std::io::Read::bytes", "std::io::Read::take", "std::io::Read::chain",
                 "std::io::Read::read_buf", "std::io::BufRead::fill_buf", "std::io::BufRead::read_until",
                 "std::io::BufRead::read_line"}
INEXACT_WRITES = {"std::io::Write::write", "std::io::Write::write_vectored"}


def ordinal_keys(items):
    """append an ordinal to equal keys (keys never contain line numbers)"""
    seen = {}
    for key, rest in items:
        n = seen.get(key, 0) + 1
        seen[key] = n
        yield (key if n == 1 else f"{key}#{n}"), rest


@rule("I1", ["C07", "C08"], floor=24, doc="every read of the input stream in `savefile` is an exact read "
      "(read_exact / byteorder); bare Read::read only inside CryptoReader's chunk loop")
def i1(facts, tier):
    al = allow()
    items = []
    for f in facts.fns_of_crate("savefile"):
        if skip_fn(f):
            continue
        for x in walk(f["body"]):
            if x.get("k") != "Call":
                continue
            c = callee(x)
            tr = x.get("trait")
            if tr in ("std::io::Read", "std::io::BufRead", "byteorder::io::ReadBytesExt"):
                items.append((f"{f['id']}:{c.split('::')[-1]}", (f, x, c)))
    for key, (f, x, c) in ordinal_keys(items):
        if c in INEXACT_READS:
            reason = al.get(("I1", "I1:" + key))
            if reason:
                yield ob(["C07", "C08"], "I1", key, "undecided", where(f, x),
                         f"allow-listed inexact read: {reason} (the hand-written loop around it is not decided statically)")
            else:
                yield ob(["C07", "C08"], "I1", key, "violation", where(f, x),
                         f"{f['id']} calls {c}: a short read is not an error here, so a truncated or slowly delivered "
                         f"stream can be accepted as complete data")
        else:
            yield ob(["C07", "C08"], "I1", key, "pass", where(f, x), f"exact read {c}")
    yield from al.stale("I1", ["C07", "C08"])


@rule("I2", ["C08"], floor=30, doc="all output goes through write_all / byteorder (short writes and Interrupted are then "
      "handled by std); bare Write::write is never called on the sink")
def i2(facts, tier):
    al = allow()
    items = []
    for f in facts.fns_of_crate("savefile"):
        if skip_fn(f):
            continue
        for x in walk(f["body"]):
            if x.get("k") != "Call":
                continue
            c = callee(x)
            if x.get("trait") in ("std::io::Write", "byteorder::io::WriteBytesExt"):
                items.append((f"{f['id']}:{c.split('::')[-1]}", (f, x, c)))
    for key, (f, x, c) in ordinal_keys(items):
        if c in INEXACT_WRITES and al.get(("I2", "I2:" + key)) is None:
            yield ob(["C08"], "I2", key, "violation", where(f, x),
                     f"{f['id']} calls {c}: a short write silently drops the rest of the buffer")
        else:
            yield ob(["C08"], "I2", key, "pass", where(f, x), f"exact write {c}")


BAD_FATES = ("dropped", "swallowed", "panics", "matched-swallow")


@rule("I3", ["C06", "C07", "C08", "C14"], floor=400, doc="no io::Error / SavefileError / ring error result is dropped, "
      "`.ok()`-ed, unwrapped or expected in `savefile`; it is propagated, returned or matched with an error-producing arm")
def i3(facts, tier):
    al = allow()
    items = []
    for f in facts.fns_of_crate("savefile"):
        if skip_fn(f):
            continue
        pm = parent_map(f["body"])
        for x in walk(f["body"]):
            if x.get("k") != "Call" or not is_err_result(x.get("ty")):
                continue
            c = callee(x) or "<indirect>"
            if c.startswith("core::result::Result::") or c in ("core::convert::Into::into", "core::convert::From::from"):
                continue   # combinators: judged through their receiver
            ft, cons = fate(x, pm, f)
            if ft.startswith("bound:"):
                var = ft[6:]
                fs = [k for k, _ in var_fates(var, f["body"], pm, f)]
                if any(k in ("propagated", "returned", "matched-ok", "passed") for k in fs):
                    ft = "propagated"
                elif not fs:
                    ft = "dropped"
                else:
                    bad = [k for k in fs if k.split(":")[0] in BAD_FATES]
                    ft = bad[0] if bad else "unknown"
            items.append((f"{f['id']}:{c}", (f, x, c, ft)))
    for key, (f, x, c, ft) in ordinal_keys(items):
        props = side_props(f)
        base = ft.split(":")[0]
        if base in BAD_FATES:
            reason = al.get(("I3", "I3:" + key))
            if reason:
                yield ob(props, "I3", key, "pass", where(f, x), f"allow-listed ({ft}): {reason}", nontrivial=True)
            else:
                yield ob(props, "I3", key, "violation", where(f, x),
                         f"in {f['id']} the result of {c} is {ft}: an I/O or format error is turned into a panic or silently lost")
        elif base == "unknown":
            yield ob(props, "I3", key, "undecided", where(f, x), f"fate of the result of {c} not modelled")
        else:
            yield ob(props, "I3", key, "pass", where(f, x), f"{c}: {ft}", nontrivial=True)
    yield from al.stale("I3", ["C08", "C14"])


# ---------------------------------------------------------------------------
# typestate rules on the save path (I4 BzEncoder finished, I5 sink flushed, I6 Drop does not retry)

from .. import rx  # noqa: E402
from ..shape import Analyzer, Ex  # noqa: E402
from ..ir import peel, peel_block  # noqa: E402


def save_classifier(an, n, argvals, env):
    c = callee(n)
    if c is None:
        return None
    if c.endswith("bzip2::write::BzEncoder::new"):
        return Ex(rx.ev(("BZNEW",))), None
    if c.endswith("bzip2::write::BzEncoder::finish") or c.endswith("bzip2::write::BzEncoder::try_finish"):
        return Ex(rx.ev(("BZFIN",))), None
    if c == "std::io::Write::flush":
        t = n["args"][0].get("ty", "") if n["args"] else ""
        return Ex(rx.ev(("FLUSH", "bz" if "BzEncoder" in t else "sink"))), None
    if c == "savefile::Serialize::serialize":
        return Ex(rx.ev(("SER",))), None
    return None


SAVE_ENTRIES = ["savefile::Serializer<'a, W>::save_impl", "savefile::Serializer<'a, W>::bare_serialize"]


@rule("I4", ["C08", "C07"], floor=1, doc="a BzEncoder created on a save path is finish()ed on every Ok path (otherwise the stream "
      "trailer is written in Drop, which swallows I/O errors: silent success)")
def i4(facts, tier):
    for name in SAVE_ENTRIES:
        f = facts.fns.get(name)
        if f is None:
            continue
        an = Analyzer(facts, save_classifier)
        e = an.function(f, {})
        acc = an.accept(e)
        if ("BZNEW",) not in rx.symbols(acc):
            continue

        def step(m, y):
            if y == ("BZNEW",):
                return 1
            if y == ("BZFIN",):
                return 0
            return m
        w = rx.find_word(acc, 0, step, lambda m: m == 1)
        key = name.split("::")[-1]
        if w is None:
            yield ob(["C08", "C07"], "I4", key, "pass", where(f), "every Ok path that creates a BzEncoder finishes it")
        else:
            yield ob(["C08", "C07"], "I4", key, "violation", where(f),
                     f"{name}: Ok path [{' '.join(s[0] for s in w)}] creates a BzEncoder and never calls finish()/try_finish(): the bzip2 "
                     f"trailer is written by Drop, whose I/O errors are discarded, so a failing writer yields Ok(())")


@rule("I5", ["C08"], floor=2, doc="every Ok path of a save entry point flushes the sink after the last payload write")
def i5(facts, tier):
    for name in SAVE_ENTRIES:
        f = facts.fns.get(name)
        if f is None:
            continue
        an = Analyzer(facts, save_classifier)
        e = an.function(f, {})
        acc = an.accept(e)

        def step(m, y):
            if y == ("SER",):
                return 1
            if y[0] == "FLUSH":
                return 0
            return m
        w = rx.find_word(acc, 1, step, lambda m: m == 1)
        key = name.split("::")[-1]
        if w is None:
            yield ob(["C08"], "I5", key, "pass", where(f), "every Ok path ends with a flush of the sink after the payload")
        else:
            yield ob(["C08"], "I5", key, "violation", where(f),
                     f"{name}: Ok path [{' '.join(s[0] for s in w)}] returns without flushing the sink after the payload was written")


@rule("I6", ["C08"], floor=1, doc="a Drop impl that performs fallible I/O does not retry (and panic) after the operation already failed: "
      "panicking sites in Drop are dominated by a return on the type's failure flag")
def i6(facts, tier):
    for f in facts.fns_of_crate("savefile"):
        im = f.get("impl") or {}
        if im.get("trait") != "core::ops::drop::Drop" and im.get("trait") != "std::ops::Drop":
            continue
        pm = parent_map(f["body"])
        sites = []
        for x in walk(f["body"]):
            if x.get("k") == "Call" and is_err_result(x.get("ty")):
                ft, cons = fate(x, pm, f)
                if ft.startswith("panics"):
                    sites.append(x)
        if not sites:
            continue
        # is there, before the site, `if self.<flag> { return }` ?
        body = f["body"]
        guarded = False
        flag = None
        for s in body.get("stmts", []):
            e = s.get("e") if s.get("k") == "ExprS" else None
            if e and e.get("k") == "If":
                c = peel(e["c"])
                if c.get("k") == "Field" and c.get("ty") == "bool" and any(y.get("k") == "Return" for y in walk(e["t"])):
                    guarded = True
                    flag = c["f"]
        key = im.get("self_ty", f["id"])
        if guarded:
            yield ob(["C08"], "I6", key, "pass", where(f), f"panicking implicit I/O in Drop is skipped when `{flag}` is set")
        else:
            yield ob(["C08"], "I6", key, "violation", where(f),
                     f"{f['id']} performs fallible I/O and panics on failure without checking whether the operation already failed: "
                     f"after save returned Err the destructor retries and panics")


# ---------------------------------------------------------------------------------------------
# I6b: the failure flag that Drop consults is set before the first fallible operation it stands for

@rule("I6b", ["C08"], floor=1, doc="a type whose Drop skips its implicit I/O when a failure flag is set: in the method Drop would call, the flag is "
      "raised before the first fallible call and lowered only after the last one, so an error leaving that method always leaves the "
      "flag set (otherwise the destructor retries after the failure was reported: it panics, or writes more bytes)")
def i6b(facts, tier):
    for d in facts.fns_of_crate("savefile"):
        im = d.get("impl") or {}
        if im.get("trait") not in ("core::ops::drop::Drop", "std::ops::Drop"):
            continue
        # flag consulted by Drop and the method it calls
        flag = None
        for s in d["body"].get("stmts", []):
            e = s.get("e") if s.get("k") == "ExprS" else None
            if e and e.get("k") == "If":
                c = peel(e["c"])
                if c.get("k") == "Field" and c.get("ty") == "bool" and any(y.get("k") == "Return" for y in walk(e["t"])):
                    flag = c["f"]
        if flag is None:
            continue
        targets = []
        for x in walk(d["body"]):
            if x.get("k") == "Call" and is_err_result(x.get("ty")):
                t = (x.get("res") or {}).get("fn") or x.get("fn")
                if t in facts.fns and facts.fns[t]["crate"] == "savefile":
                    targets.append(facts.fns[t])
        for m in targets:
            # linear order of events in the method: flag := true / flag := false / fallible call
            events = []
            for x in walk(m["body"]):
                if x.get("k") == "Assign":
                    l = x["l"]
                    while l.get("k") in ("Deref",):
                        l = l["e"]
                    if l.get("k") == "Field" and l.get("f") == flag:
                        r = peel(x["r"])
                        if r.get("k") == "Lit":
                            events.append(("set" if r.get("int") == 1 else "clear", x))
                if x.get("k") == "Call" and is_err_result(x.get("ty")) and not (callee(x) or "").endswith("Error::new"):
                    events.append(("call", x))
            kinds = [k for k, _ in events]
            key = f"{im.get('self_ty', d['id'])}:{m['id'].rsplit('::', 1)[-1]}"
            if "set" not in kinds or "call" not in kinds:
                yield ob(["C08"], "I6b", key, "undecided", where(m), f"{m['id']}: flag `{flag}` or fallible calls not found")
                continue
            first_call = kinds.index("call")
            first_set = kinds.index("set")
            last_call = len(kinds) - 1 - kinds[::-1].index("call")
            clears = [i for i, k in enumerate(kinds) if k == "clear"]
            # the raising assignment must not sit inside a loop/branch that the first call does not
            pm = parent_map(m["body"])
            def depth(n):
                dd, p = 0, pm.get(id(n))
                while p is not None:
                    if p.get("k") in ("Loop", "For", "If", "Match"):
                        dd += 1
                    p = pm.get(id(p))
                return dd
            ok = first_set < first_call and depth(events[first_set][1]) == 0 and all(c > last_call for c in clears)
            bad = events[first_call][1]
            yield ob(["C08"], "I6b", key, "pass" if ok else "violation", where(m, bad if not ok else events[first_set][1]),
                     f"{m['id']}: `{flag}` is raised before the first of {kinds.count('call')} fallible calls and lowered after the last" if ok else
                     f"{m['id']}: the fallible call `{(callee(bad) or '').rsplit('::', 1)[-1]}` can fail while `{flag}` is not (yet) set: "
                     f"the error is returned, Drop sees a clean flag and repeats the operation - it panics on a persistent fault, or emits "
                     f"further bytes after the failure was reported")


# ---------------------------------------------------------------------------------------------
# I7: an error is not lost by overwriting it

@rule("I7", ["C08", "C15", "C07"], floor=0, doc="a Result stored into a variable inside a loop is inspected in the same iteration (or only assigned "
      "while the variable still holds Ok): otherwise a later Ok overwrites an earlier Err and the failure is never reported")
def i7(facts, tier):
    n = 0
    for f in list(facts.fns_of_crate("savefile")) + list(facts.fns_of_crate("savefile_abi")):
        body = f.get("body")
        if not body:
            continue
        pm = None
        for x in walk(body):
            if x.get("k") != "Assign":
                continue
            l = peel(x["l"])
            r = x["r"]
            if l.get("k") != "Var" or not is_err_result(r.get("ty")):
                continue
            rr = peel_block(peel(r))
            if rr.get("k") != "Call":
                continue
            pm = pm or parent_map(body)
            loop = None
            guarded = False
            p, child = pm.get(id(x)), x
            while p is not None:
                if p.get("k") == "If" and child is p["t"]:
                    for y in walk(p["c"]):
                        if y.get("k") == "Call" and (callee(y) or "").endswith(("Result::is_ok", "Result::is_err")) and y.get("args") \
                                and peel(y["args"][0]).get("k") == "Var" and peel(y["args"][0])["v"] == l["v"]:
                            guarded = True
                if p.get("k") in ("Loop", "For"):
                    loop = p
                    break
                child = p
                p = pm.get(id(p))
            if loop is None:
                continue
            n += 1
            inspected = False
            for y in walk(loop["body"]):
                if y is x:
                    continue
                k = y.get("k")
                if k == "Try" and peel(y["e"]).get("k") == "Var" and peel(y["e"])["v"] == l["v"]:
                    inspected = True
                if k == "Match" and peel(y["e"]).get("k") == "Var" and peel(y["e"])["v"] == l["v"]:
                    inspected = True
                if k == "If" and any(z.get("k") == "Var" and z["v"] == l["v"] for z in walk(y["c"])):
                    inspected = True
                if k == "Return" and y.get("e") is not None and any(z.get("k") == "Var" and z["v"] == l["v"] for z in walk(y["e"])):
                    inspected = True
            ok = inspected or guarded
            key = f"{f['id']}:{l['v'].split('#')[0]}"
            yield ob(["C08", "C15", "C07"], "I7", key, "pass" if ok else "violation", where(f, x),
                     f"{f['id']}: the result stored in `{l['v'].split('#')[0]}` is inspected within the iteration" if ok else
                     f"{f['id']}: the result of `{(callee(rr) or '').rsplit('::', 1)[-1]}` is stored in `{l['v'].split('#')[0]}` on every iteration "
                     f"and only looked at after the loop: an Err from an earlier iteration is overwritten by a later Ok and never reported")
    if n == 0:
        yield ob(["C08", "C15", "C07"], "I7", "no-result-accumulator", "pass", "", "no Result is stored into a loop-carried variable in "
                 "savefile / savefile-abi: errors leave loops by `?` or `return`", nontrivial=False)


# ---------------------------------------------------------------------------------------------
# I8: iterator adaptors that silently drop Err

SWALLOW = ("::flat_map", "::flatten", "::filter_map", "::map_while", "::take_while", "::skip_while")


@rule("I8", ["C07", "C08", "C06"], floor=0, doc="no error of the library's error types is dropped by an iterator adaptor: `flat_map` / `flatten` / "
      "`filter_map(.. .ok())` over values of type Result<_, SavefileError | io::Error> treat Err as 'no element' (Result is IntoIterator), "
      "so a failed read just shortens the collection")
def i8(facts, tier):
    n = 0
    for f in list(facts.fns_of_crate("savefile")) + list(facts.fns_of_crate("savefile_abi")):
        body = f.get("body")
        if not body or f.get("kind") == "Closure":
            continue
        for x in walk(body):
            if x.get("k") != "Call":
                continue
            c = callee(x) or ""
            if not c.endswith(SWALLOW):
                continue
            bad = None
            for a in x.get("args", [])[1:]:
                p = peel(a)
                if p.get("k") == "Closure":
                    g = facts.fns.get(p["id"])
                    if g is None:
                        continue
                    if is_err_result(g.get("ret")):
                        bad = f"its closure returns `{g.get('ret')}`"
                    elif (g.get("ret") or "").startswith("core::option::Option<") and any(
                            y.get("k") == "Call" and (callee(y) or "").endswith(("Result::ok", "Result::err")) and y.get("args")
                            and is_err_result(peel(y["args"][0]).get("ty")) for y in walk(g["body"])):
                        bad = "its closure turns a Result into an Option with `.ok()`"
            if c.endswith("::flatten") and x.get("args"):
                ity = " ".join(str(t) for t in (x.get("targs") or [])) + " " + (x["args"][0].get("ty") or "")
                if "SavefileError>" in ity or "io::error::Error>" in ity:
                    bad = "it flattens an iterator of Results"
            if bad:
                n += 1
                key = f"{f['id']}:{c.rsplit('::', 1)[-1]}"
                yield ob(["C07", "C08", "C06"], "I8", key, "violation", where(f, x),
                         f"{f['id']}: `{c.rsplit('::', 1)[-1]}`: {bad}: every Err is silently skipped, so a truncated or failing stream yields a "
                         f"shorter collection and Ok instead of the error")
    if n == 0:
        yield ob(["C07", "C08", "C06"], "I8", "no-swallowing-adaptor", "pass", "", "no flat_map / flatten / filter_map over Results of the library's "
                 "error types in savefile / savefile-abi", nontrivial=False)


# ---------------------------------------------------------------------------------------------
# I9: the library's own Write impls never report a zero-length write for a non-empty buffer

@rule("I9", ["C08", "C09"], floor=2, doc="`Write::write` implementations of the library (CryptoWriter, FlexBuffer, ...) either take the whole buffer "
      "(`Ok(buf.len())`) or a part that is provably non-empty: a count of the form min(buf.len(), room) needs a guard that room > 0, "
      "because `write_all` turns Ok(0) into a WriteZero error")
def i9(facts, tier):
    for f in sorted(list(facts.fns_of_crate("savefile")) + list(facts.fns_of_crate("savefile_abi")), key=lambda g: g["id"]):
        im = f.get("impl") or {}
        if im.get("trait") != "std::io::Write" or f.get("name") != "write" or not f.get("body"):
            continue
        bufv = None
        ps = [p for p in f["params"] if p.get("pat") and p["pat"].get("k") == "Bind"]
        if len(ps) >= 2:
            bufv = ps[1]["pat"]["v"]
        lets = {x["pat"]["v"]: x["init"] for x in walk(f["body"]) if x.get("k") == "LetS" and x["pat"].get("k") == "Bind" and x.get("init") is not None}

        def is_buf_len(e, depth=0):
            e = peel_block(peel(e))
            if e.get("k") == "Var" and e["v"] in lets and depth < 5:
                return is_buf_len(lets[e["v"]], depth + 1)
            return e.get("k") == "Call" and (callee(e) or "").endswith("::len") and e.get("args") and \
                peel(e["args"][0]).get("k") == "Var" and peel(e["args"][0])["v"] == bufv

        rets = []
        for x in walk(f["body"]):
            if x.get("k") == "Adt" and x.get("adt") == "core::result::Result" and x.get("variant") == "Ok" and x.get("fields"):
                if (x.get("ty") or "").startswith("core::result::Result<usize"):
                    rets.append(x)
        bad = None
        for r in rets:
            cnt = r["fields"][0]["e"]
            if is_buf_len(cnt):
                continue
            e = peel_block(peel(cnt))
            if e.get("k") == "Var" and e["v"] in lets:
                e = peel_block(peel(lets[e["v"]]))
            if e.get("k") == "Call" and (callee(e) or "").endswith("::min") and len(e.get("args", [])) == 2:
                other = [a for a in e["args"] if not is_buf_len(a)]
                ov = peel(other[0]) if other else {}
                guarded = False
                if ov.get("k") == "Var":
                    for y in walk(f["body"]):
                        if y.get("k") == "If":
                            c = peel_block(peel(y["c"]))
                            if c.get("k") == "Bin" and c["op"] in ("Eq", "Ne", "Gt", "Lt") and \
                                    any(z.get("k") == "Var" and z["v"] == ov["v"] for z in walk(c)) and \
                                    any(z.get("k") == "Lit" and z.get("int") == 0 for z in walk(c)):
                                guarded = True
                if not guarded:
                    bad = (r, "min(buf.len(), " + (ov.get("v", "?").split("#")[0] if ov else "?") + ")")
            else:
                bad = bad or (r, "a count that is not buf.len()")
        key = im.get("self_ty", f["id"])
        yield ob(["C08", "C09"], "I9", key, "violation" if bad and "min(" in bad[1] else ("undecided" if bad else "pass"), where(f, bad[0] if bad else None),
                 f"{f['id']}: every Ok(..) reports the whole buffer as written" if not bad else
                 f"{f['id']}: returns Ok({bad[1]}) with no guard that the second operand is non-zero: when there is no room left a non-empty buffer "
                 f"gets Ok(0), which `write_all` reports as a WriteZero error (the call fails for the payload size that fills the buffer exactly)")


# ---------------------------------------------------------------------------------------------
# I10: two short-circuiting searches share one iterator

SEARCHES = ("::any", "::all", "::find", "::find_map", "::position", "::rposition")


@rule("I10", ["C13", "C16", "C01"], floor=0, doc="decoders do not run two short-circuiting searches (any / all / find / position) on ONE iterator value: "
      "the first search consumes everything up to its hit - or everything, when there is none - so what the second one reports "
      "depends on the order of the items (an independent flag is lost when the other flag is absent)")
def i10(facts, tier):
    n = 0
    for f in list(facts.fns_of_crate("savefile")) + list(facts.fns_of_crate("savefile_abi")):
        body = f.get("body")
        if not body or "quickcheck" in f["id"]:
            continue
        uses = {}
        for x in walk(body):
            if x.get("k") == "Call" and (callee(x) or "").endswith(SEARCHES) and x.get("args"):
                r = peel(x["args"][0])
                if r.get("k") == "Var":
                    uses.setdefault(r["v"], []).append(x)
        for v, xs in uses.items():
            if len(xs) < 2:
                continue
            n += 1
            yield ob(["C13", "C16", "C01"], "I10", f"{f['id']}:{v.split('#')[0]}", "violation", where(f, xs[1]),
                     f"{f['id']}: `{v.split('#')[0]}` is searched {len(xs)} times ({', '.join((callee(x) or '').rsplit('::', 1)[-1] for x in xs)}) although "
                     f"each search consumes the iterator up to its hit, or completely when there is none: the later search sees only the rest, so "
                     f"a property that is present is reported absent whenever the earlier one is absent")
    if n == 0:
        yield ob(["C13", "C16", "C01"], "I10", "no-shared-iterator-search", "pass", "", "no iterator value is searched twice", nontrivial=False)
