"""importing this package registers every rule"""
from . import wire_rules  # noqa: F401
from . import io_rules  # noqa: F401
from . import cmp_rules  # noqa: F401
from . import derive_rules  # noqa: F401
from . import introspect_rules  # noqa: F401
from . import lock_rules  # noqa: F401
from . import schema_rules  # noqa: F401
from . import taint_rules  # noqa: F401
from . import abi_rules  # noqa: F401
from . import misc_rules  # noqa: F401
