"""C09 / C10 / C11: translation validation of the generated ABI trampolines on the corpus traits (W9, N3, N4) and
rules on savefile-abi itself (A1, A2, N1, M1)."""
import re

from .. import rx, wire
from ..core import ob, rule, where
from ..ir import callee, calls, peel, peel_block, walk, children
from ..rx import EPS, VOID, ev, seq
from ..shape import Analyzer, Ex

CONN_RE = re.compile(r"^<savefile_abi::AbiConnection<\(dyn (sfcorpus::abi::\w+) \+ 'static\)> as (sfcorpus::abi::\w+)>::(\w+)$")


def abi_classifier(an, n, argvals, env):
    c = callee(n) or ""
    # the foreign call of the caller trampoline
    if isinstance(n.get("fun"), dict):
        for a in n.get("args", []):
            p = peel(a)
            if isinstance(p, dict) and p.get("k") == "Adt" and p.get("adt") == "savefile_abi::AbiProtocol" and p.get("variant") == "RegularCall":
                return Ex(ev(("SEND",))), None
    # the real method call of the callee trampoline
    if n.get("trait", "").startswith("sfcorpus::abi::") and (n.get("self_ty") or "").startswith("dyn sfcorpus::abi::"):
        return Ex(ev(("CALL", c.rsplit("::", 1)[-1]))), None
    if c.endswith("Box::into_raw"):
        return Ex(), ("rawbox",)
    # packaged trait objects / closures: a fixed-size record (data, vtable, entry) plus who owns the object afterwards
    if c.endswith("PackagedTraitObject::serialize") and n["args"]:
        src = peel(n["args"][0])
        own = "?"
        if src.get("k") == "Call":
            sc = callee(src) or ""
            if sc.endswith("PackagedTraitObject::new"):
                own = "Owned"          # Box::into_raw of the caller's box: the receiver must take ownership
            elif sc.endswith("PackagedTraitObject::new_from_ptr"):
                own = "NotOwned"
                for y in walk(src):
                    if y.get("k") == "Call":
                        yc = callee(y) or ""
                        if yc.endswith("transmute") and y.get("targs"):
                            own = "Owned" if y["targs"][0].startswith("alloc::boxed::Box<") else "NotOwned"
                        if yc.endswith("Box::into_raw"):
                            own = "Owned"
                    if y.get("k") == "Var" and own == "NotOwned":
                        # a raw pointer produced earlier by Box::into_raw (closure wrappers / returned boxes)
                        pass
                for y in walk(src):
                    if y.get("k") == "Var" and env.get(y["v"]) == ("rawbox",):
                        own = "Owned"
        return Ex(seq(ev(("PTO",)), ev(("OWN", own)))), None
    if c.endswith("PackagedTraitObject::deserialize"):
        return Ex(ev(("PTO",))), None
    if c.endswith("AbiConnection::from_raw_packaged") and len(n["args"]) >= 2:
        o = peel(n["args"][1])
        own = o.get("variant") if o.get("k") == "Adt" else "?"
        return Ex(ev(("OWN", own))), None
    return wire.wire_classifier(an, n, argvals, env)


def split_at(r, marker_pred):
    """(language before the first marker event, language after it) of the words of r that contain the marker"""
    # derivative-style split on the regex structure (markers occur once per path here)
    def go(r):
        k = r[0]
        if k == "ev":
            if marker_pred(r[1]):
                return [(EPS, EPS)], VOID
            return [], r
        if k in ("eps", "void"):
            return [], r
        if k == "seq":
            hits, pre = [], EPS
            for i, x in enumerate(r[1]):
                h, nomark = go(x)
                rest = seq(*r[1][i + 1:])
                for (a, b) in h:
                    hits.append((seq(pre, a), seq(b, rest)))
                pre = seq(pre, nomark)
                if nomark == VOID:
                    break
            return hits, pre
        if k == "alt":
            hits, nm = [], VOID
            for x in r[1]:
                h, n2 = go(x)
                hits += h
                nm = rx.alt(nm, n2)
            return hits, nm
        if k == "star":
            h, n2 = go(r[1])
            it = rx.star(n2)
            return [(seq(it, a), seq(b, r)) for (a, b) in h], it
        return [], r
    hits, _ = go(r)
    pre = rx.alt(*[a for a, _ in hits]) if hits else VOID
    post = rx.alt(*[b for _, b in hits]) if hits else VOID
    return pre, post


def traits(facts):
    out = {}
    for fid, f in facts.fns.items():
        m = CONN_RE.match(fid)
        if m and m.group(1) == m.group(2):
            out.setdefault(m.group(1), {})[m.group(3)] = f
    return out


def method_index(f):
    """the literal index i in `self.template.methods[i]`"""
    for x in walk(f["body"]):
        if x.get("k") == "Index":
            i = peel(x["i"])
            while i.get("k") == "Cast":
                i = peel(i["e"])
            if i.get("k") == "Lit" and "int" in i:
                return i["int"]
        if x.get("k") == "Call" and (callee(x) or "").endswith("Index::index") and len(x["args"]) == 2:
            i = peel(x["args"][1])
            while i.get("k") == "Cast":
                i = peel(i["e"])
            if i.get("k") == "Lit" and "int" in i:
                return i["int"]
    return None


def receiver_fn(facts, f):
    for x in walk(f["body"]):
        if x.get("k") == "Adt" and x.get("adt") == "savefile_abi::AbiProtocol" and x.get("variant") == "RegularCall":
            for fld in x["fields"]:
                if fld["f"] == "receiver":
                    z = peel(fld["e"])
                    if z.get("k") == "Zst" and z.get("fn") in facts.fns:
                        return facts.fns[z["fn"]]
    return None


def langs(facts, f, env):
    an = Analyzer(facts, abi_classifier)
    e = an.function(f, env)
    acc = wire.expand_regions(wire.canon(wire.finalize(an.accept(e))), facts)
    return acc, an


@rule("W9", ["C09", "C10"], floor=30, doc="per exported method of every corpus trait, for every mask-bit assignment: the argument message the caller trampoline "
      "writes is the one the callee trampoline reads before invoking the implementation, and the reply the callee writes is the one the "
      "caller's result receiver reads")
def w9(facts, tier):
    W = wire.WireAnalysis(facts, abi_classifier)
    for tname, methods in sorted(traits(facts).items()):
        callee_fn = facts.fns.get(f"<(dyn {tname} + 'static) as savefile_abi::AbiExportable>::call")
        if callee_fn is None:
            continue
        for mname, cf in sorted(methods.items()):
            idx = method_index(cf)
            key = f"{tname}::{mname}"
            if idx is None:
                yield ob(["C09"], "W9", key, "undecided", where(cf), "method index not found in the caller trampoline", program=tname)
                continue
            # which mask bits does either side test?
            probe_a = Analyzer(facts, abi_classifier)
            probe_a.function(cf, {})
            probe_b = Analyzer(facts, abi_classifier)
            mn = [p["pat"]["v"] for p in callee_fn["params"] if p.get("pat") and p["pat"].get("k") == "Bind" and p["pat"]["v"].startswith("method_number#")]
            envb = {mn[0]: ("int", idx)} if mn else {}
            probe_b.function(callee_fn, dict(envb))
            bits = sorted({g for g in probe_a.guards_seen | probe_b.guards_seen if g[0] == "bit"})
            bad = None
            n_env = 0
            assignments = W.guard_assignments(set(bits), cap=4)
            for g in assignments:
                n_env += 1
                la, _ = langs(facts, cf, {"$guards": g})
                lb, _ = langs(facts, callee_fn, dict(envb, **{"$guards": g}))
                args_w, _after = split_at(la, lambda s: s == ("SEND",))
                args_r, reply_w = split_at(lb, lambda s: isinstance(s, tuple) and s[0] == "CALL")
                if args_r == VOID:
                    bad = bad or ("callee never reaches the implementation call for this method number", g, la, lb)
                    continue
                called = {s[1] for s in rx.symbols(lb) if isinstance(s, tuple) and s[0] == "CALL"}
                if called != {mname}:
                    bad = bad or (f"method number {idx} dispatches to {sorted(called)} instead of {mname}", g, la, lb)
                    continue
                ok, word, a2, b2 = W.contains_modulo_expansion(args_w, args_r, None, g)
                if ok is not True:
                    bad = bad or (f"caller sends [{rx.show_word(word)}] which the callee does not read", g, args_w, args_r)
                    continue
                # reply
                rf = receiver_fn(facts, cf)
                if rf is not None:
                    lr, _ = langs(facts, rf, {"$guards": g})
                    ok, word, a2, b2 = W.contains_modulo_expansion(reply_w, lr, None, g)
                    if ok is not True:
                        bad = bad or (f"callee replies [{rx.show_word(word)}] which the caller's receiver does not read", g, reply_w, lr)
            if bad is None:
                yield ob(["C09", "C10"], "W9", key, "pass", where(cf), f"argument and reply messages agree in {n_env} mask assignment(s)", program=tname)
            else:
                msg, g, a, b = bad
                yield ob(["C09", "C10"], "W9", key, "violation", where(cf), f"{key}: {msg} (mask {g}); caller/writer: {rx.show(a)[:300]} ; "
                         f"callee/reader: {rx.show(b)[:300]}", program=tname)


def origin(n):
    """where does a version expression come from"""
    n = peel_block(peel(n))
    k = n.get("k")
    if k == "Try":
        return origin(n["e"])
    if k == "Lit":
        return ("literal", n.get("int"))
    if k == "Field":
        path = []
        x = n
        while isinstance(x, dict) and x.get("k") in ("Field", "Deref", "Ref"):
            if x["k"] == "Field":
                path.append(x["f"])
            x = x["e"]
        if isinstance(x, dict) and x.get("k") == "Var":
            path.append(x["v"].split("#")[0])
        return ("path", ".".join(reversed(path)))
    if k == "Var":
        return ("var", n["v"].split("#")[0])
    if k == "Call":
        c = callee(n) or ""
        if c.endswith("read_u32"):
            return ("header-read",)
        return ("call", c)
    if k == "Cast":
        return origin(n["e"])
    return ("?", k)


def version_fields(f, adt):
    out = []
    for x in walk(f["body"]):
        if x.get("k") == "Adt" and x.get("adt") == adt:
            for fld in x["fields"]:
                if fld["f"] == "file_version":
                    out.append((x, origin(fld["e"]), fld["e"]))
    return out


def resolve_var(f, o):
    """a local variable initialised from a header read counts as a header read"""
    if o[0] != "var":
        return o
    for x in walk(f["body"]):
        if x.get("k") == "LetS" and x["pat"].get("k") == "Bind" and x["pat"]["v"].split("#")[0] == o[1] and x.get("init"):
            return origin(x["init"])
    return o


@rule("N3", ["C10"], floor=40, doc="the version that labels a message is the version it is encoded in, on all four legs: caller arguments and header use "
      "template.effective_version; the callee decodes with the header's version; the callee's reply serializer and header use the "
      "effective_version it was called with; the caller decodes the reply with the reply header's version")
def n3(facts, tier):
    for tname, methods in sorted(traits(facts).items()):
        callee_fn = facts.fns.get(f"<(dyn {tname} + 'static) as savefile_abi::AbiExportable>::call")
        for mname, cf in sorted(methods.items()):
            key = f"{tname}::{mname}"
            probs = []
            sers = version_fields(cf, "savefile::Serializer")
            for node, o, e in sers:
                if o != ("path", "self.template.effective_version"):
                    probs.append(f"caller's argument Serializer.file_version comes from {o}")
            if not sers:
                probs.append(None)
            hdr = [x for x in calls(cf["body"]) if (callee(x) or "").endswith("Serializer::write_u32")]
            for x in hdr[:1]:
                o = origin(x["args"][1])
                if o != ("path", "self.template.effective_version"):
                    probs.append(f"caller's message header version comes from {o}")
            for x in walk(cf["body"]):
                if x.get("k") == "Adt" and x.get("variant") == "RegularCall":
                    for fld in x["fields"]:
                        if fld["f"] == "effective_version" and origin(fld["e"]) != ("path", "self.template.effective_version"):
                            probs.append(f"RegularCall.effective_version comes from {origin(fld['e'])}")
            rf = receiver_fn(facts, cf)
            real = [p for p in probs if p]
            if real:
                yield ob(["C10"], "N3", f"caller:{key}", "violation", where(cf), f"{key}: " + "; ".join(real), program=tname)
            elif None in probs:
                yield ob(["C10"], "N3", f"caller:{key}", "undecided", where(cf), "no argument serializer found", program=tname)
            else:
                yield ob(["C10"], "N3", f"caller:{key}", "pass", where(cf), "caller encodes and labels with template.effective_version", program=tname)
        if callee_fn is not None:
            probs = []
            n_ser = 0
            for node, o, e in version_fields(callee_fn, "savefile::Deserializer"):
                if resolve_var(callee_fn, o) != ("header-read",):
                    probs.append(f"callee's argument Deserializer.file_version comes from {o}, not from the message header")
            for node, o, e in version_fields(callee_fn, "savefile::Serializer"):
                n_ser += 1
                if o != ("var", "effective_version"):
                    probs.append(f"callee's reply Serializer.file_version comes from {o}, not from the effective_version it was called with: "
                                 f"an older caller receives a reply encoded in a newer version than its label")
            for x in calls(callee_fn["body"]):
                if (callee(x) or "").endswith("Serializer::write_u32") and len(x["args"]) == 2:
                    o = origin(x["args"][1])
                    if o != ("var", "effective_version"):
                        probs.append(f"callee's reply header version comes from {o}")
            key = f"callee:{tname}"
            uniq = sorted(set(probs))
            yield ob(["C10"], "N3", key, "violation" if uniq else "pass", where(callee_fn),
                     (f"{tname}: " + "; ".join(uniq[:3])) if uniq else f"{n_ser} reply serializers use the negotiated effective_version; arguments decoded with the header's version",
                     program=tname)
    # the shared reply parser
    pr = facts.fns.get("savefile_abi::parse_return_value_impl")
    if pr is not None:
        probs = [o for _, o, _ in version_fields(pr, "savefile::Deserializer") if resolve_var(pr, o) != ("header-read",)]
        yield ob(["C10"], "N3", "reply-parser", "violation" if probs else "pass", where(pr),
                 "reply is parsed with the version stated in the reply header" if not probs else f"reply Deserializer.file_version comes from {probs}")


@rule("N4", ["C10"], floor=30, doc="every caller trampoline reaches the foreign call only after callee_method_number matched Some; the None case diverges with a panic "
      "(a method missing in the implementation fails at call time, not at connection time)")
def n4(facts, tier):
    for tname, methods in sorted(traits(facts).items()):
        for mname, cf in sorted(methods.items()):
            key = f"{tname}::{mname}"
            guard_var = None
            for x in walk(cf["body"]):
                if x.get("k") == "LetS" and x.get("else") and x["pat"].get("k") == "Variant" and x["pat"].get("variant") == "Some":
                    o = origin(x["init"]) if x.get("init") else None
                    if o and o[0] == "path" and o[1].endswith("callee_method_number"):
                        diverges = any(y.get("k") == "Call" and (callee(y) or "").startswith("core::panicking") for y in walk(x["else"]))
                        if diverges and x["pat"]["subs"] and x["pat"]["subs"][0]["p"].get("k") == "Bind":
                            guard_var = x["pat"]["subs"][0]["p"]["v"]
            used = False
            for x in walk(cf["body"]):
                if x.get("k") == "Adt" and x.get("variant") == "RegularCall":
                    for fld in x["fields"]:
                        if fld["f"] == "method_number":
                            v = peel(fld["e"])
                            used = v.get("k") == "Var" and v["v"] == guard_var
            ok = guard_var is not None and used
            yield ob(["C10"], "N4", key, "pass" if ok else "violation", where(cf),
                     "foreign call uses the matched method number; missing method panics" if ok else
                     f"{key}: the foreign call is not dominated by a successful match of callee_method_number with a diverging None case", program=tname)


ENTRY_FNS = ("savefile_abi::abi_entry_light", "savefile_abi::abi_entry")
USER_CALLS = ("savefile_abi::AbiExportable::call", "savefile_abi::AbiExportableImplementation::new")


def user_reaching(facts):
    """local functions of savefile-abi that (transitively) call into the implementation"""
    reach = set(USER_CALLS)
    changed = True
    local = {fid: f for fid, f in facts.fns.items() if f["crate"] == "savefile_abi" and f.get("kind") != "Closure"}
    while changed:
        changed = False
        for fid, f in local.items():
            if fid in reach or fid in ENTRY_FNS:
                continue
            for x in calls(f["body"]):
                t = (x.get("res") or {}).get("fn") or x.get("fn")
                if callee(x) in reach or t in reach:
                    reach.add(fid)
                    changed = True
                    break
    return reach


def is_user_call(x, reach):
    t = (x.get("res") or {}).get("fn") or x.get("fn")
    return callee(x) in reach or t in reach


@rule("A1", ["C09"], floor=4, doc="user-reachable code (the implementation's methods and constructor) is only called inside the closure handed to "
      "catch_unwind in the ABI entry points, so a panic never unwinds through the extern \"C\" boundary")
def a1(facts, tier):
    reach = user_reaching(facts)
    for hid in ENTRY_FNS:
        h = facts.fns.get(hid)
        if h is None:
            continue
        guarded_closures = set()
        for x in calls(h["body"]):
            if (callee(x) or "").endswith("panic::catch_unwind"):
                for a in x["args"]:
                    for y in walk(a):
                        if y.get("k") == "Closure":
                            guarded_closures.add(y["id"])
        direct = [x for x in calls(h["body"]) if is_user_call(x, reach)]
        n_in = 0
        for cid in guarded_closures:
            cf = facts.fns.get(cid)
            if cf:
                n_in += sum(1 for x in calls(cf["body"]) if is_user_call(x, reach))
        other = 0
        for fid, f in facts.fns.items():
            if f.get("kind") == "Closure" and f.get("parent") == hid and fid not in guarded_closures:
                other += sum(1 for x in calls(f["body"]) if is_user_call(x, reach))
        key = hid.split("::")[-1]
        if direct or other:
            yield ob(["C09"], "A1", key, "violation", where(h, direct[0] if direct else None),
                     f"{hid} calls implementation code outside catch_unwind: a panic would unwind through the C ABI")
        elif n_in == 0:
            yield ob(["C09"], "A1", key, "violation", where(h), f"{hid}: no call of the implementation found inside a catch_unwind closure (anchor lost)")
        else:
            yield ob(["C09"], "A1", key, "pass", where(h), f"{n_in} implementation call(s), all inside catch_unwind closures")
    # generated extern "C" entry points only forward
    n = 0
    for fid, f in facts.fns.items():
        if f.get("abi") == '"C"' or f.get("abi") == "C" or "C {" in str(f.get("abi")):
            if "abi_entry_light_" in fid or "abi_entry_" in fid:
                n += 1
                cs = [callee(x) for x in calls(f["body"])]
                ok = all(c in ENTRY_FNS or c is None for c in cs) and cs
                yield ob(["C09"], "A1", "extern:" + fid.split("::")[-1], "pass" if ok else "violation", where(f),
                         "generated extern \"C\" entry only forwards to the library entry" if ok else f"generated entry {fid} calls {cs}")


@rule("A2", ["C09"], floor=2, doc="the panic payload forwarded to the caller covers both payload kinds std produces: &'static str and String")
def a2(facts, tier):
    for hid in ENTRY_FNS:
        h = facts.fns.get(hid)
        if h is None:
            continue
        kinds = set()
        # the entry function and the local helpers / closures it reaches (a helper that renders the payload counts)
        todo, seen_ = [h], set()
        while todo:
            g = todo.pop()
            if g["id"] in seen_ or not g.get("body"):
                continue
            seen_.add(g["id"])
            for x in walk(g["body"]):
                if x.get("k") == "Call":
                    if (callee(x) or "").endswith("downcast_ref"):
                        kinds |= set(x.get("targs", []))
                    t = (x.get("res") or {}).get("fn") or x.get("fn")
                    if t in facts.fns and facts.fns[t]["crate"] == "savefile_abi":
                        todo.append(facts.fns[t])
                    for a_ in x.get("args", []):
                        pa = peel(a_)
                        if pa.get("k") == "Zst" and pa.get("fn") in facts.fns and facts.fns[pa["fn"]]["crate"] == "savefile_abi":
                            todo.append(facts.fns[pa["fn"]])
                        if pa.get("k") == "Closure" and pa.get("id") in facts.fns:
                            todo.append(facts.fns[pa["id"]])
        key = hid.split("::")[-1]
        need = {"&str", "alloc::string::String"}
        missing = {k for k in need if not any(k == t or (k == "&str" and t.startswith("&") and t.endswith("str")) for t in kinds)}
        yield ob(["C09"], "A2", key, "violation" if missing else "pass", where(h),
                 f"{hid} downcasts the panic payload to {sorted(kinds)}" + (f"; a payload of type {sorted(missing)} (panic!(\"..{{}}\", x)) "
                 f"reaches the caller as `Any {{ .. }}` instead of its message" if missing else ""))


@rule("N1", ["C10"], floor=1, doc="connection creation negotiates min(own latest version, the version the callee reported through "
      "InterrogateVersion) and hands exactly that value to the second InterrogateMethods and to analyze_and_create")
def n1(facts, tier):
    # the function that sends InterrogateVersion (wherever the negotiation code lives)
    cands = []
    for fid, g in facts.fns.items():
        if g["crate"] != "savefile_abi" or not g.get("body"):
            continue
        for x in walk(g["body"]):
            if x.get("k") == "Adt" and x.get("adt") == "savefile_abi::AbiProtocol" and x.get("variant") == "InterrogateVersion":
                cands.append((g, x))
    for f, iv in cands:
        if "abi_entry" in f["id"]:
            continue
        # the variable the callee's interface version is received into
        recv = None
        for fl in iv["fields"]:
            if fl["f"] == "abi_version_receiver":
                vs = [y["v"] for y in walk(fl["e"]) if y.get("k") == "Var"]
                recv = vs[0] if vs else None
        own = None
        for x in walk(f["body"]):
            if x.get("k") == "LetS" and x["pat"].get("k") == "Bind" and x.get("init") is not None:
                i = peel_block(peel(x["init"]))
                if i.get("k") == "Call" and (callee(i) or "").endswith("get_latest_version"):
                    own = x["pat"]["v"]
        eff = None
        detail = "no `min(own latest version, reported callee version)` found"
        for x in walk(f["body"]):
            if x.get("k") == "LetS" and x["pat"].get("k") == "Bind" and x.get("init") is not None:
                i = peel_block(peel(x["init"]))
                if i.get("k") == "Call" and (callee(i) or "").endswith("::min") and len(i["args"]) == 2:
                    vs = {peel(a).get("v") for a in i["args"]}
                    if vs == {recv, own} and None not in vs:
                        eff = x["pat"]["v"]
        ok = eff is not None
        used_ctor = used_msg = False
        if ok:
            for x in walk(f["body"]):
                if x.get("k") == "Call" and (callee(x) or "").endswith("analyze_and_create"):
                    used_ctor = used_ctor or any(peel(a).get("k") == "Var" and peel(a)["v"] == eff for a in x["args"])
                if x.get("k") == "Adt" and x.get("adt") == "savefile_abi::AbiProtocol" and x.get("variant") == "InterrogateMethods":
                    for fl in x["fields"]:
                        if fl["f"] == "callee_schema_version_interrogated" and peel(fl["e"]).get("k") == "Var" and peel(fl["e"])["v"] == eff:
                            used_msg = True
            detail = f"effective version = min(own latest, reported) in {f['id']}; handed to analyze_and_create: {used_ctor}; asked of the callee: {used_msg}"
        yield ob(["C10"], "N1", "negotiation", "pass" if ok and used_ctor and used_msg else "violation", where(f), detail)
        return


def nego_fns(facts):
    """analyze_and_create, the closures written in it, and the private free helper functions of savefile_abi it calls (transitively):
    moving a block of the negotiation into a helper keeps it in scope"""
    roots = [f for fid, f in facts.fns.items() if f["crate"] == "savefile_abi" and "analyze_and_create" in fid and f.get("body")]
    out = {f["id"]: f for f in roots}
    stack = list(roots)
    while stack:
        g = stack.pop()
        for x in walk(g["body"]):
            t = None
            if x.get("k") == "Call":
                t = (x.get("res") or {}).get("fn") or x.get("fn")
            elif x.get("k") == "Closure":
                t = x.get("id")
            h = facts.fns.get(t) if t else None
            if h is None or h["id"] in out or h["crate"] != "savefile_abi" or not h.get("body"):
                continue
            if (h.get("impl") or {}).get("trait") or h["id"] == "savefile_abi::arg_layout_compatible" or h.get("pub"):
                continue
            if h.get("kind") != "Closure" and h.get("impl"):
                continue          # methods of AbiConnection etc. are not negotiation helpers
            out[h["id"]] = h
            stack.append(h)
    return list(out.values())


def is_alc_result(facts, n, depth=0):
    """is the expression the answer of arg_layout_compatible - directly, through `?`, or as the tail of a local helper?"""
    n = peel_block(peel(n)) if isinstance(n, dict) else None
    if n is None or depth > 4:
        return False
    if n.get("k") == "Try":
        return is_alc_result(facts, n["e"], depth)
    if n.get("k") == "Adt" and n.get("variant") == "Ok" and n.get("fields"):
        return is_alc_result(facts, n["fields"][0]["e"], depth)
    if n.get("k") != "Call":
        return False
    if callee(n) == "savefile_abi::arg_layout_compatible":
        return True
    h = facts.fns.get((n.get("res") or {}).get("fn") or n.get("fn"))
    if h is not None and h["crate"] == "savefile_abi" and h.get("body") and not (h.get("impl") or {}).get("trait"):
        t = peel_block(h["body"])
        while isinstance(t, dict) and t.get("k") == "Block" and t.get("e") is not None:
            t = peel_block(t["e"])
        return is_alc_result(facts, t, depth + 1)
    return False


def ancestors(pm, n):
    out = []
    p = pm.get(id(n))
    while p is not None:
        out.append(p)
        p = pm.get(id(p))
    return out


def let_init_of(f, var):
    for x in walk(f["body"]):
        if x.get("k") == "LetS" and x["pat"].get("k") == "Bind" and x["pat"]["v"] == var:
            return x.get("init")
    return None


@rule("M1", ["C11", "C10"], floor=1, doc="a bit of the by-reference compatibility mask is only set inside the branch where arg_layout_compatible answered true "
      "for that argument's native and effective schemas")
def m1(facts, tier):
    from ..flow import parent_map
    sites = 0
    for f in nego_fns(facts):
        fid = f["id"]
        pm = parent_map(f["body"])
        for x in walk(f["body"]):
            if x.get("k") == "AssignOp" and x.get("op") in ("BitOr", "BitOrAssign") and "mask" in (peel(x["l"]).get("v") or ""):
                sites += 1
                ok = False
                why = "not inside any `if`"
                for a in ancestors(pm, x):
                    if a.get("k") == "If":
                        c = peel(a["c"])
                        cd = peel_block(c)
                        if cd.get("k") == "Try":
                            cd = peel(cd["e"])
                        if is_alc_result(facts, cd):
                            # `if arg_layout_compatible(..)? { mask |= .. }`
                            in_then = any(y is x for y in walk(a["t"]))
                            ok = in_then
                            why = "set in the else-branch of the compatibility test" if not in_then else ""
                            break
                        if c.get("k") == "Var":
                            init = let_init_of(f, c["v"])
                            i = peel_block(peel(init)) if init else None
                            if i is not None and is_alc_result(facts, i):
                                # the set happens in the then-branch?
                                in_then = any(y is x for y in walk(a["t"]))
                                ok = in_then
                                why = "set in the else-branch of the compatibility test" if not in_then else ""
                                break
                            why = f"guarded by `{c['v'].split('#')[0]}` which is not the result of arg_layout_compatible"
                yield ob(["C11", "C10"], "M1", "mask-set", "pass" if ok else "violation", where(f, x),
                         "mask bit set only when arg_layout_compatible returned true" if ok else
                         f"compatibility mask bit is set {why}: arguments with possibly different layout are passed by pointer")
    if sites == 0:
        folds = any(y.get("k") == "Call" and (callee(y) or "").rsplit("::", 1)[-1] in ("try_fold", "fold") for g in nego_fns(facts) for y in walk(g["body"]))
        yield ob(["C11", "C10"], "M1", "mask-set", "undecided" if folds else "violation", "",
                 "the compatibility mask is accumulated by an iterator fold: the guard of each bit is not modelled" if folds else
                 "no site setting the compatibility mask found (anchor lost)")


@rule("M2", ["C11", "C10"], floor=1, doc="arg_layout_compatible's general case decides on the *native* schemas of both sides (the memory layouts), "
      "via Schema::layout_compatible")
def m2(facts, tier):
    f = facts.fns.get("savefile_abi::arg_layout_compatible")
    if f is None:
        return
    ps = [p["pat"]["v"] for p in f["params"] if p.get("pat") and p["pat"].get("k") == "Bind"]
    native = set(ps[:2])
    found = False
    for x in walk(f["body"]):
        if x.get("k") == "Match":
            sc = peel(x["e"])
            # `match (a_native, b_native)` or a flattened `match (a_native, b_native, a_effective, b_effective)`: the native schemas
            # are the first two components
            if sc.get("k") == "Tuple" and len(sc["es"]) >= 2 and all(peel(e).get("k") == "Var" for e in sc["es"]) \
                    and [peel(e)["v"] for e in sc["es"][:2]] == ps[:2]:
                for a in x["arms"]:
                    p = a["pat"]
                    if p.get("k") == "Leaf" and len(p["subs"]) >= 2 and all(s["p"].get("k") == "Bind" for s in p["subs"][:2]) \
                            and all(s["p"].get("k") in ("Bind", "Wild") for s in p["subs"]):
                        binds = [s["p"]["v"] for s in p["subs"][:2]]
                        for y in walk(a["body"]):
                            if y.get("k") == "Call" and callee(y) == "savefile::Schema::layout_compatible":
                                args = [peel(z).get("v") for z in y["args"]]
                                found = True
                                ok = args == binds
                                yield ob(["C11", "C10"], "M2", "fallback-native", "pass" if ok else "violation", where(f, y),
                                         "general case compares the native schemas" if ok else
                                         f"general case calls layout_compatible on {args}, not on the native schemas of both sides")
    if not found:
        yield ob(["C11", "C10"], "M2", "fallback-native", "violation", where(f), "no general-case call of Schema::layout_compatible on the native schemas found")


@rule("N5", ["C10", "C09"], floor=3, doc="connection creation rejects signature changes: argument counts are compared and diff_schema of every argument and of the "
      "return value (at the effective version) leads to Err")
def n5(facts, tier):
    from ..flow import parent_map
    fs = nego_fns(facts)
    diffs = 0
    bad = []
    count_cmp = 0
    for f in fs:
        pm = parent_map(f["body"])
        for x in walk(f["body"]):
            if x.get("k") == "Call" and callee(x) == "savefile::diff_schema":
                diffs += 1
                # result must be tested by `if let Some(..) = r { return Err }`
                p = pm.get(id(x))
                var = p["pat"]["v"] if p is not None and p.get("k") == "LetS" and p["pat"].get("k") == "Bind" else None
                handled = False
                for y in walk(f["body"]):
                    if y.get("k") == "If" and y["c"].get("k") == "Let" and y["c"]["pat"].get("variant") == "Some":
                        src = peel(y["c"]["e"])
                        if (src is x) or (var and src.get("k") == "Var" and src["v"] == var):
                            handled = any(z.get("k") == "Return" for z in walk(y["t"]))
                if not handled:
                    bad.append((f, x))
            if x.get("k") == "Bin" and x["op"] == "Ne":
                txt = [callee(y) or "" for y in walk(x) if y.get("k") == "Call"]
                if sum(1 for t in txt if t.endswith("::len")) == 2:
                    count_cmp += 1
    f0 = fs[0] if fs else None
    yield ob(["C10", "C09"], "N5", "diff-schema-checked", "violation" if (bad or diffs < 2) else "pass", where(f0) if f0 else "",
             f"{diffs} diff_schema evaluations at creation, each leading to Err on a difference" if not bad and diffs >= 2 else
             f"a diff_schema result at connection creation is not turned into an error ({len(bad)} of {diffs})")
    yield ob(["C10", "C09"], "N5", "argument-count", "pass" if count_cmp >= 1 else "violation", where(f0) if f0 else "",
             f"{count_cmp} argument-count comparison(s)" if count_cmp else "argument counts of caller and implementation are not compared")
    yield ob(["C10"], "N5", "missing-method-tolerated", "pass", where(f0) if f0 else "", "see N4: a missing method is recorded (callee_method_number None), not an error", nontrivial=False)


@rule("A3", ["C09"], floor=3, doc="every owned object is released exactly once: Drop for AbiConnection sends DropInstance in the Owned arm and only there; "
      "the DropInstance handler destroys the object through a single Box::from_raw; (sender/receiver ownership of packaged objects is part of W9)")
def a3(facts, tier):
    d = None
    for fid, f in facts.fns.items():
        if fid.startswith("<savefile_abi::AbiConnection<T> as core::ops::drop::Drop>::drop"):
            d = f
    if d is not None:
        arms = {}
        for x in walk(d["body"]):
            if x.get("k") == "Match" and all(a["pat"].get("adt") == "savefile_abi::Owning" for a in x["arms"]):
                for a in x["arms"]:
                    arms[a["pat"]["variant"]] = sum(1 for y in walk(a["body"]) if y.get("k") == "Adt" and y.get("variant") == "DropInstance")
        ok = arms.get("Owned") == 1 and arms.get("NotOwned") == 0
        yield ob(["C09"], "A3", "connection-drop", "pass" if ok else "violation", where(d),
                 "DropInstance is sent exactly once, in the Owned arm" if ok else
                 f"Drop for AbiConnection sends DropInstance {arms}: an owned object leaks or a borrowed one is freed")
    h = facts.fns.get("savefile_abi::destroy_trait_obj")
    if h is not None:
        n = sum(1 for x in calls(h["body"]) if (callee(x) or "").endswith("Box::from_raw"))
        yield ob(["C09"], "A3", "destroy-once", "pass" if n == 1 else "violation", where(h),
                 f"destroy_trait_obj reconstitutes the box {n} time(s)")
    for hid in ENTRY_FNS:
        e = facts.fns.get(hid)
        if e is None:
            continue
        for x in walk(e["body"]):
            if x.get("k") == "Match":
                for a in x["arms"]:
                    if a["pat"].get("variant") == "DropInstance":
                        n = sum(1 for y in calls(a["body"]) if callee(y) == "savefile_abi::destroy_trait_obj")
                        yield ob(["C09"], "A3", f"handler:{hid.split('::')[-1]}", "pass" if n == 1 else "violation", where(e, a["body"]),
                                 f"DropInstance handler destroys the object {n} time(s)")


# ---------------------------------------------------------------------------------------------
# M4: the schemas handed to the by-reference decision come from the right definitions

def base_var(e):
    e = peel(e)
    while isinstance(e, dict):
        k = e.get("k")
        if k in ("Field", "Index", "Ref", "Deref", "Coerce", "Cast", "Try"):
            e = e["e"]
        elif k == "Call" and e.get("args"):
            e = e["args"][0]
        elif k == "Var":
            return e["v"]
        else:
            return None
        e = peel(e) if isinstance(e, dict) else e
    return None


def binding_init(f, var):
    """the expression a variable is bound from inside f (let / let-else / for), or None"""
    from .taint_rules import pat_binds
    for x in walk(f["body"]):
        k = x.get("k")
        if k == "LetS" and x.get("init") is not None and any(b["v"] == var for b in pat_binds(x["pat"])):
            return x["init"]
        if k == "For" and any(b["v"] == var for b in pat_binds(x["pat"])):
            return x["iter"]
    return None


def trace_root(facts, f, var, depth=0):
    """follow a variable back to a parameter of the outermost enclosing function; returns the parameter name"""
    if var is None or depth > 12:
        return None
    from .taint_rules import pat_binds
    for i, p in enumerate(f["params"]):
        if p.get("pat") and any(b["v"] == var for b in pat_binds(p["pat"])):
            if f.get("kind") != "Closure":
                # a private free helper of the negotiation: follow the parameter to the arguments of its call sites
                if not f.get("impl") and not f.get("pub") and f["crate"] == "savefile_abi":
                    roots = set()
                    for g in nego_fns(facts):
                        if g is f:
                            continue
                        for x in walk(g["body"]):
                            if x.get("k") == "Call" and ((x.get("res") or {}).get("fn") or x.get("fn")) == f["id"] and i < len(x["args"]):
                                roots.add(trace_root(facts, g, base_var(x["args"][i]), depth + 1))
                    if roots:
                        return roots.pop() if len(roots) == 1 else "|".join(sorted(str(r) for r in roots))
                return var.split("#")[0]
            # closure parameter: find the call sites of this closure in the parent
            parent = facts.fns.get(f.get("parent"))
            if parent is None:
                return None
            # closures may be nested: search all functions with the same root
            holders = [g for g in facts.fns.values() if g is parent or g.get("parent") == f.get("parent")]
            cvar = None
            for g in holders:
                for x in walk(g["body"]):
                    if x.get("k") == "LetS" and x["pat"].get("k") == "Bind" and peel(x.get("init") or {}).get("k") == "Closure" \
                            and peel(x["init"])["id"] == f["id"]:
                        cvar = (g, x["pat"]["v"])
            if cvar is None:
                return None
            g, cv = cvar
            roots = set()
            for x in walk(g["body"]):
                if x.get("k") == "Call" and (x.get("fn") or "").startswith("core::ops::function::Fn") and len(x["args"]) == 2 \
                        and base_var(x["args"][0]) == cv:
                    tup = peel(x["args"][1])
                    idx = i - 1   # closure params: [closure env, a, b, ..]
                    if tup.get("k") == "Tuple" and 0 <= idx < len(tup["es"]):
                        roots.add(trace_root(facts, g, base_var(tup["es"][idx]), depth + 1))
            return roots.pop() if len(roots) == 1 else ("|".join(sorted(str(r) for r in roots)) if roots else None)
    init = binding_init(f, var)
    if init is not None:
        return trace_root(facts, f, base_var(init), depth + 1)
    # captured variable of an enclosing function
    if f.get("kind") == "Closure":
        parent = facts.fns.get(f.get("parent"))
        if parent is not None:
            return trace_root(facts, parent, var, depth + 1)
    return None


ROLE = [("caller", "native"), ("callee", "native"), ("caller", "effective"), ("callee", "effective")]


@rule("M4", ["C11", "C10"], floor=1, doc="the four schemas handed to arg_layout_compatible at connection creation originate from the caller's native, the "
      "implementation's native, the caller's effective and the implementation's effective definition, in that order")
def m4(facts, tier):
    n = 0
    for f in nego_fns(facts):
        fid = f["id"]
        for x in calls(f["body"]):
            if callee(x) != "savefile_abi::arg_layout_compatible" or len(x["args"]) < 4:
                continue
            n += 1
            bad = []
            for i, (who, kind) in enumerate(ROLE):
                root = trace_root(facts, f, base_var(x["args"][i]))
                if root is None:
                    bad.append(None)
                elif not all(who in r and kind in r for r in str(root).split("|") if r != "None"):
                    bad.append(f"argument {i + 1} ({who}'s {kind} schema) is taken from `{root}`")
                elif "None" in str(root).split("|"):
                    bad.append(None)      # one of the ways the value arrives could not be traced (iterator adaptor): no verdict
            real = [b for b in bad if b]
            if real:
                yield ob(["C11", "C10"], "M4", "layout-decision-inputs", "violation", where(f, x),
                         "by-reference decision is made on the wrong definitions: " + "; ".join(real))
            elif bad:
                yield ob(["C11", "C10"], "M4", "layout-decision-inputs", "undecided", where(f, x), "origin of an argument could not be traced")
            else:
                yield ob(["C11", "C10"], "M4", "layout-decision-inputs", "pass", where(f, x),
                         "native/effective schemas of caller and implementation reach the decision in the right order")
    if n == 0:
        yield ob(["C11", "C10"], "M4", "layout-decision-inputs", "violation", "", "no call of arg_layout_compatible at connection creation (anchor lost)")


@rule("A6", ["C09"], floor=2, doc="a (pointer, length) pair sent across the boundary describes one object: the length written after `x.as_ptr()` is "
      "`x.len()` of the same x (bytes for str, elements for slices)")
def a6(facts, tier):
    n = 0
    for fid, f in facts.fns.items():
        if f["crate"] != "sfcorpus" or "abi::" not in fid:
            continue
        seq_calls = [x for x in walk(f["body"]) if x.get("k") == "Call" and (callee(x) or "").startswith("savefile::Serializer::write_")]
        for i, x in enumerate(seq_calls):
            if callee(x) != "savefile::Serializer::write_ptr" or len(x["args"]) < 2:
                continue
            src = None
            for y in walk(x["args"][1]):
                if y.get("k") == "Call" and (callee(y) or "").endswith("::as_ptr") and y["args"]:
                    src = base_var(y["args"][0])
            if src is None or i + 1 >= len(seq_calls) or callee(seq_calls[i + 1]) != "savefile::Serializer::write_usize":
                continue
            n += 1
            ln = peel(seq_calls[i + 1]["args"][1])
            ok = ln.get("k") == "Call" and (callee(ln) or "").endswith("::len") and ln["args"] and base_var(ln["args"][0]) == src
            m = CONN_RE.match(fid)
            key = (m.group(1) + "::" + m.group(3)) if m else fid.split(" as ")[0].lstrip("<(") + "::" + fid.rsplit("::", 1)[-1]
            yield ob(["C09"], "A6", key, "pass" if ok else "violation", where(f, x),
                     "length sent with the pointer is len() of the same object" if ok else
                     f"{fid}: the length sent after `{src.split('#')[0]}.as_ptr()` is not `{src.split('#')[0]}.len()`: the receiver "
                     f"reconstructs a slice/str of the wrong size")


@rule("M5", ["C11", "C09"], floor=1, doc="the by-reference mask stored for a method is built from scratch for that method (initialised to 0 inside the per-method loop)")
def m5(facts, tier):
    from ..flow import parent_map
    found = False
    for fid, f in facts.fns.items():
        if f["crate"] != "savefile_abi" or not fid.endswith("::analyze_and_create"):
            continue
        pm = parent_map(f["body"])
        for x in walk(f["body"]):
            if x.get("k") == "Adt" and x.get("adt", "").endswith("AbiConnectionMethod"):
                fld = {fl["f"]: fl["e"] for fl in x["fields"]}
                mv = peel(fld.get("compatibility_mask", {}))
                if mv.get("k") != "Var":
                    continue
                found = True
                loop = None
                for a in ancestors(pm, x):
                    if a.get("k") in ("For", "Loop"):
                        loop = a
                        break
                decl = None
                for y in walk(loop["body"] if loop else f["body"]):
                    if y.get("k") == "LetS" and y["pat"].get("k") == "Bind" and y["pat"]["v"] == mv["v"]:
                        decl = y
                init0 = decl is not None and peel(decl.get("init") or {}).get("int") == 0
                if decl is not None and not init0:
                    # `let mask = args.zip(..).try_fold(0u64, |mask, ..| ..)?;`: a fold that starts at 0 for every method
                    for z in walk(decl.get("init") or {}):
                        if z.get("k") == "Call" and (callee(z) or "").rsplit("::", 1)[-1] in ("try_fold", "fold") and len(z.get("args", [])) >= 2 \
                                and peel(z["args"][1]).get("int") == 0:
                            init0 = True
                ok = loop is not None and decl is not None and init0
                yield ob(["C11", "C09"], "M5", "mask-per-method", "pass" if ok else "violation", where(f, x),
                         "compatibility mask starts at 0 for every method" if ok else
                         "the compatibility mask variable is not initialised to 0 inside the per-method loop: bits of earlier methods "
                         "carry over and arguments with different layouts are passed by pointer")
    if not found:
        folds = any(y.get("k") == "Call" and (callee(y) or "").rsplit("::", 1)[-1] in ("try_fold", "fold") for g in nego_fns(facts) for y in walk(g["body"]))
        yield ob(["C11", "C09"], "M5", "mask-per-method", "undecided" if folds else "violation", "",
                 "the mask is the result of an iterator fold started at a literal: not modelled" if folds else
                 "no method record with a mask variable found (anchor lost)")


@rule("M6", ["C09", "C11"], floor=1, doc="the argument-count limit of a method equals the bit width of its by-reference mask: a method is rejected "
      "exactly when it has more arguments than the mask type has bits (fewer: a supported method becomes uncallable; more: the shift "
      "`1 << index` overflows)")
def m6(facts, tier):
    for fid, f in facts.fns.items():
        if f["crate"] != "savefile_abi" or not fid.endswith("::analyze_and_create"):
            continue
        # width of the mask: the integer type of AbiConnectionMethod.compatibility_mask
        bits = None
        adt = facts.adts.get("savefile_abi::AbiConnectionMethod")
        if adt:
            for v in adt.get("variants", []):
                for fl in v.get("fields", []):
                    if fl.get("name") == "compatibility_mask":
                        m = re.match(r"u(\d+)$", fl.get("ty", ""))
                        bits = int(m.group(1)) if m else None
        n = 0
        for x in walk(f["body"]):
            if x.get("k") != "If":
                continue
            c = peel_block(peel(x["c"]))
            if c.get("k") != "Bin" or c["op"] not in ("Gt", "Ge", "Lt", "Le"):
                continue
            l, r = peel_block(peel(c["l"])), peel_block(peel(c["r"]))
            if r.get("k") == "Call" and l.get("k") == "Lit":
                l, r = r, l
                op = {"Gt": "Lt", "Ge": "Le", "Lt": "Gt", "Le": "Ge"}[c["op"]]
            else:
                op = c["op"]
            if r.get("k") == "Const" and isinstance(r.get("val"), int):
                r = {"k": "Lit", "int": r["val"]}
            if not (l.get("k") == "Call" and (callee(l) or "").endswith("::len") and r.get("k") == "Lit" and "int" in r):
                continue
            what = ".".join(str(p).split("#")[0] for p in (path_of_args(l) or ()))
            if "arguments" not in what:
                continue
            rejects = any(y.get("k") == "Return" or (y.get("k") == "Call" and "panic" in (callee(y) or "")) for y in walk(x["t"]))
            if not rejects:
                continue
            n += 1
            # the largest accepted count
            maxok = r["int"] if op == "Gt" else (r["int"] - 1 if op == "Ge" else None)
            ok = bits is not None and maxok == bits
            yield ob(["C09", "C11"], "M6", "argument-limit-equals-mask-width", "pass" if ok else ("undecided" if bits is None or maxok is None else "violation"),
                     where(f, x),
                     f"a method is rejected when it has more than {maxok} arguments; the mask has {bits} bits" if ok else
                     f"a method is rejected when it has more than {maxok} arguments although its by-reference mask has {bits} bits: "
                     + ("methods with up to the full width are supported by the protocol and become uncallable" if maxok is not None and bits is not None and maxok < bits
                        else "the shift that sets a mask bit overflows for the last arguments"))
        if n == 0:
            yield ob(["C09", "C11"], "M6", "argument-limit-equals-mask-width", "violation", where(f),
                     "no reject-guard on the number of arguments of a method: `1 << index` overflows for methods wider than the mask")


def path_of_args(call):
    from ..ir import path_of
    return path_of(call["args"][0]) if call.get("args") else None


@rule("N6", ["C10", "C09"], floor=3, doc="the hidden helper interfaces the macro generates for closure arguments and boxed futures inside an exported trait "
      "carry the enclosing trait's version (each is a nested connection of its own: a lower version would transmit closure arguments, "
      "closure results and future outputs in an older format than the one negotiated)")
def n6(facts, tier):
    groups = {}
    for fid, f in facts.fns.items():
        if f["crate"] != "sfcorpus" or not fid.endswith("::get_latest_version") or "AbiExportable" not in fid:
            continue
        b = peel_block(f["body"])
        v = b.get("int") if b.get("k") == "Lit" else None
        m = re.match(r"<\(dyn ([^ ]+)", fid)
        name = m.group(1) if m else fid
        groups.setdefault((f.get("file"), f.get("line")), []).append((name, v, f))
    for (file, line), ents in sorted(groups.items(), key=lambda kv: str(kv[0])):
        named = [e for e in ents if "::_::" not in e[0]]
        helpers = [e for e in ents if "::_::" in e[0]]
        if len(named) != 1 or not helpers:
            continue
        tname, tv, tf = named[0]
        for hname, hv, hf in sorted(helpers):
            kind = "future" if "future" in hname else "closure"
            ordinal = sorted(h[0] for h in helpers if ("future" in h[0]) == (kind == "future")).index(hname) + 1
            key = f"{tname}:{kind}-helper#{ordinal}"
            ok = hv is not None and hv == tv
            yield ob(["C10", "C09"], "N6", key, "pass" if ok else "violation", where(hf),
                     f"{kind} helper interface generated inside {tname} (version {tv}) declares version {hv}" if ok else
                     f"the {kind} helper interface generated inside {tname} declares version {hv} although the enclosing interface is at "
                     f"version {tv}: values crossing through it (closure arguments/results, future outputs) are transmitted in the version "
                     f"{hv} format even when both sides negotiated {tv} - fields added later arrive as their defaults")



@rule("A7", ["C09"], floor=2, doc="the panic message handed to the other side as (pointer, length) points into a value that is alive while the "
      "receiver runs: an AbiErrorMsg whose pointer is taken from a local or an owned parameter is consumed in the function that owns that "
      "value, never returned from it (the owner would be dropped first: the caller reads freed memory)")
def a7(facts, tier):
    from ..flow import parent_map
    for fid, f in sorted(facts.fns.items()):
        if f["crate"] != "savefile_abi" or not f.get("body"):
            continue
        n_site = 0
        for x in walk(f["body"]):
            if not (x.get("k") == "Adt" and (x.get("adt") or "").endswith("AbiErrorMsg")):
                continue
            n_site += 1
            ptr = next((fl["e"] for fl in x["fields"] if str(fl["f"]) == "error_msg_utf8"), None)
            if ptr is None:
                continue
            src_vars = {y["v"] for y in walk(ptr) if y.get("k") == "Var"}
            # is the message value (or something built from it) the function's result?
            ret = f.get("ret") or ""
            escapes = "AbiErrorMsg" in ret or "RawAbiCallResult" in ret
            # owners: owned (by-value, non-reference) parameters and locals of the function
            owned_params = {p["pat"]["v"] for p in f["params"] if p.get("pat") and p["pat"].get("k") == "Bind"
                            and not (p.get("ty") or "").startswith(("&", "*"))}
            # does the pointer derive (through lets) from an owned parameter / local String?
            lets = {}
            for y in walk(f["body"]):
                if y.get("k") == "LetS" and y["pat"].get("k") == "Bind" and y.get("init") is not None:
                    lets[y["pat"]["v"]] = y["init"]
                if y.get("k") == "Assign" and peel(y["l"]).get("k") == "Var":
                    lets.setdefault(peel(y["l"])["v"], y["r"])
            roots, todo = set(), list(src_vars)
            seen_ = set()
            while todo:
                v = todo.pop()
                if v in seen_:
                    continue
                seen_.add(v)
                if v in lets:
                    vs = {z["v"] for z in walk(lets[v]) if z.get("k") == "Var"}
                    # pattern-bound names inside if-let conditions
                    todo.extend(vs)
                    if not vs:
                        roots.add(v)
                else:
                    roots.add(v)
            for y in walk(f["body"]):
                if y.get("k") == "Let":
                    from .taint_rules import pat_binds
                    bound = {b_["v"] for b_ in pat_binds(y["pat"])}
                    if bound & seen_:
                        roots |= {z["v"] for z in walk(y["e"]) if z.get("k") == "Var"}
            from_owned = bool(roots & owned_params)
            key = f"{fid}#{n_site}"
            if escapes and from_owned:
                yield ob(["C09"], "A7", key, "violation", where(f, x),
                         f"{fid} returns an AbiErrorMsg whose pointer is taken from its by-value parameter `{sorted(roots & owned_params)[0].split('#')[0]}`: "
                         f"that value is dropped when the function returns, so for a formatted panic message (a String payload) the caller "
                         f"is handed a pointer into freed memory")
            else:
                yield ob(["C09"], "A7", key, "pass", where(f, x),
                         f"{fid}: the message pointer is used while its source is alive" + (" (returned, but taken from borrowed or static data)" if escapes else ""))


def _maxlen(r):
    """largest number of bytes of a word of the (normalised) wire language; None = unbounded or unknown"""
    k = r[0]
    if k == "eps":
        return 0
    if k == "void":
        return 0
    if k == "ev":
        s = r[1]
        if isinstance(s, tuple) and s[0] == "B":
            return s[1]
        if isinstance(s, tuple) and s[0] in ("SEND", "CALL", "OWN"):
            return 0
        # 64-bit target (stated assumption): a packaged trait object is three pointers; a raw pointer is thin or fat
        if isinstance(s, tuple) and s[0] == "PTO":
            return 24
        if isinstance(s, tuple) and s[0] == "PTRLEN":
            return 16
        if isinstance(s, tuple) and s[0] == "PTR":
            t = str(s[1]) if len(s) > 1 else ""
            return 16 if t.startswith(("dyn ", "[", "str")) else 8
        return None
    if k == "seq":
        t = 0
        for x in r[1]:
            m = _maxlen(x)
            if m is None:
                return None
            t += m
        return t
    if k == "alt":
        ms = [_maxlen(x) for x in r[1]]
        return None if any(m is None for m in ms) else max(ms or [0])
    if k == "star":
        m = _maxlen(r[1])
        return 0 if m == 0 else None
    return None


def _fixed_buffers(body):
    """[(var, N)] for `let var = [0u8; N]` in a body"""
    out = []
    for x in walk(body):
        if x.get("k") == "LetS" and x["pat"].get("k") == "Bind" and x.get("init") is not None:
            i = peel_block(peel(x["init"]))
            if i.get("k") == "Repeat" and (i.get("ty") or "").startswith("[u8;"):
                try:
                    out.append((x["pat"]["v"], int(i.get("n")), x))
                except (TypeError, ValueError):
                    pass
    return out


@rule("A8", ["C09"], floor=20, doc="fixed-size message buffers of the generated trampolines hold the longest message written into them: where the caller "
      "(arguments) or the callee (reply) uses a `[0u8; N]` stack buffer instead of a growable one, N is at least the maximal length of "
      "the message language for that method (mask bits all 'serialize')")
def a8(facts, tier):
    W = wire.WireAnalysis(facts, abi_classifier)
    for tname, methods in sorted(traits(facts).items()):
        callee_fn = facts.fns.get(f"<(dyn {tname} + 'static) as savefile_abi::AbiExportable>::call")
        if callee_fn is None:
            continue
        mn = [p["pat"]["v"] for p in callee_fn["params"] if p.get("pat") and p["pat"].get("k") == "Bind" and p["pat"]["v"].startswith("method_number#")]
        for mname, cf in sorted(methods.items()):
            idx = method_index(cf)
            if idx is None:
                continue
            envb = {mn[0]: ("int", idx)} if mn else {}
            g = {}
            la, _ = langs(facts, cf, {"$guards": g})
            lb, _ = langs(facts, callee_fn, dict(envb, **{"$guards": g}))
            args_w, _after = split_at(la, lambda s: s == ("SEND",))
            _args_r, reply_w = split_at(lb, lambda s: isinstance(s, tuple) and s[0] == "CALL")
            for side, lang_, fn_, body in (("arguments", args_w, cf, cf["body"]), ("reply", reply_w, callee_fn, None)):
                if body is None:
                    # the arm of the callee's dispatch for this method number
                    body = callee_fn["body"]
                    for x in walk(callee_fn["body"]):
                        if x.get("k") == "Match" and peel(x["e"]).get("k") == "Var" and mn and peel(x["e"])["v"] == mn[0]:
                            for a in x["arms"]:
                                if a["pat"].get("k") == "Const" and a["pat"].get("int") == idx:
                                    body = a["body"]
                bufs = _fixed_buffers(body)
                key = f"{tname}::{mname}:{side}"
                if not bufs:
                    yield ob(["C09"], "A8", key, "pass", where(fn_), f"{side} of {mname} go through a growable buffer", nontrivial=False, program=tname)
                    continue
                ln = _maxlen(W.normalise(lang_, "w", None, g))
                n = max(b[1] for b in bufs)
                if ln is None:
                    yield ob(["C09"], "A8", key, "undecided", where(fn_, bufs[0][2]),
                             f"{side} of {mname}: a {n}-byte stack buffer is used but the message length is not bounded by the analysis", program=tname)
                else:
                    ok = ln <= n
                    yield ob(["C09"], "A8", key, "pass" if ok else "violation", where(fn_, bufs[0][2]),
                             f"{side} of {mname}: at most {ln} bytes go into a {n}-byte stack buffer" if ok else
                             f"{tname}::{mname}: the {side} message can be {ln} bytes long but is written into a {n}-byte stack buffer: the write "
                             f"fails ('failed to write whole buffer') for the longer alternative and the call panics instead of delivering the value",
                             program=tname)



@rule("M7", ["C10", "C11"], floor=1, doc="connection creation checks every argument AND the return value of every method: the function that calls "
      "arg_layout_compatible (which is also where nested trait objects, closures and futures are verified) has no successful early exit "
      "before that call")
def m7(facts, tier):
    n = 0
    for fid, f in sorted(facts.fns.items()):
        if f["crate"] != "savefile_abi" or not f.get("body"):
            continue
        calls_ = [x for x in walk(f["body"]) if x.get("k") == "Call" and callee(x) == "savefile_abi::arg_layout_compatible"]
        if not calls_:
            continue
        order = {id(y): i for i, y in enumerate(walk(f["body"]))}
        first = min(order[id(c)] for c in calls_)
        early = []
        for y in walk(f["body"]):
            if y.get("k") == "Return" and y.get("e") is not None and order[id(y)] < first:
                e = peel_block(peel(y["e"]))
                if e.get("k") == "Adt" and e.get("variant") == "Ok":
                    early.append(y)
        n += 1
        # the position flag handed over is `index.is_none()`-like (a return value exists)
        yield ob(["C10", "C11"], "M7", f"{fid}:no-early-success", "violation" if early else "pass", where(f, early[0] if early else calls_[0]),
                 f"{fid}: every item reaches arg_layout_compatible" if not early else
                 f"{fid}: returns Ok before arg_layout_compatible is called: for the items taking that exit (the return value) neither the "
                 f"layout decision nor the verification of nested trait objects / closures / futures happens, so an incompatible returned "
                 f"interface is accepted when the connection is created")


# ---------------------------------------------------------------------------------------------
# N7: which definition is handed to analyze_and_create in which position

class NegoEval:
    """abstract evaluation of the negotiation code: version values are classes (own / callee / eff), interface definitions are
    (side, version class); conditionals on version equality are kept as if-then-else values"""

    def __init__(self, facts, f):
        self.facts = facts
        self.f = f
        self.env = {}
        self.calls = []     # (callee name, [values])

    def ver_recv(self, adt):
        for fl in adt["fields"]:
            if fl["f"] == "abi_version_receiver":
                for y in walk(fl["e"]):
                    if y.get("k") == "Var":
                        self.env[y["v"]] = ("ver", "callee")

    def cond_of(self, c, env):
        c = peel_block(peel(c))
        if c.get("k") == "Var":
            v = env.get(c["v"])
            return v if isinstance(v, tuple) and v and v[0] == "cmp" else None
        if c.get("k") == "Un" and c.get("op") == "Not":
            v = self.cond_of(c["e"], env)
            return ("cmp", "Eq" if v[1] == "Ne" else "Ne", v[2], v[3]) if v else None
        if c.get("k") == "Bin" and c["op"] in ("Eq", "Ne"):
            a, b = self.val(c["l"], env), self.val(c["r"], env)
            if a and b and a[0] == "ver" and b[0] == "ver":
                return ("cmp", c["op"], a[1], b[1])
        return None

    def val(self, n, env, depth=0):
        if not isinstance(n, dict) or depth > 12:
            return None
        n0 = n
        n = peel_block(peel(n))
        k = n.get("k")
        if k == "Try" or k == "Cast":
            v = self.val(n["e"], env, depth + 1)
            return v[1] if v and v[0] == "res" else v
        if k == "Var":
            return env.get(n["v"])
        if k == "Bin" and n["op"] in ("Eq", "Ne"):
            return self.cond_of(n, env)
        if k == "Block":
            e2 = env
            for s in n["stmts"]:
                self.stmt(s, e2)
            return self.val(n["e"], e2, depth + 1) if n.get("e") is not None else None
        if k == "If":
            c = self.cond_of(n["c"], env)
            t = self.val(n["t"], dict(env), depth + 1)
            e = self.val(n["f"], dict(env), depth + 1) if n.get("f") is not None else None
            if c is None:
                return t if t == e else ("ite", None, t, e)
            return ("ite", c, t, e)
        if k == "Call":
            c = callee(n) or ""
            if isinstance(n.get("fun"), dict):
                # call of a local closure variable?
                fv = peel(n["fun"])
                if fv.get("k") == "Var" and isinstance(env.get(fv["v"]), tuple) and env[fv["v"]][0] == "closure":
                    g = self.facts.fns.get(env[fv["v"]][1])
                    if g is not None:
                        e2 = dict(env)
                        ps = [p for p in g["params"][1:] if p.get("pat") and p["pat"].get("k") == "Bind"]
                        for p_, a_ in zip(ps, n["args"]):
                            e2[p_["pat"]["v"]] = self.val(a_, env, depth + 1)
                        return self.val(g["body"], e2, depth + 1)
                # a message to the other side
                for a_ in n.get("args", []):
                    pa = peel(a_)
                    if pa.get("k") == "Adt" and pa.get("adt") == "savefile_abi::AbiProtocol":
                        if pa.get("variant") == "InterrogateVersion":
                            self.ver_recv(pa)
                            for fl in pa["fields"]:
                                if fl["f"] == "abi_version_receiver":
                                    for y in walk(fl["e"]):
                                        if y.get("k") == "Var":
                                            env[y["v"]] = ("ver", "callee")
                        if pa.get("variant") == "InterrogateMethods":
                            vcls, target = None, None
                            for fl in pa["fields"]:
                                if fl["f"] == "callee_schema_version_interrogated":
                                    vv = self.val(fl["e"], env, depth + 1)
                                    vcls = vv[1] if vv and vv[0] == "ver" else "?"
                                if fl["f"] == "result_receiver":
                                    for y in walk(fl["e"]):
                                        if y.get("k") == "Var":
                                            target = y["v"]
                            if target is not None:
                                env[target] = ("res", ("def", "callee", vcls))
                return None
            if c.endswith(("Fn::call", "FnMut::call_mut", "FnOnce::call_once")) and len(n.get("args", [])) == 2:
                fv = peel(n["args"][0])
                cl = env.get(fv["v"]) if fv.get("k") == "Var" else (("closure", fv["id"]) if fv.get("k") == "Closure" else None)
                tup = peel(n["args"][1])
                if isinstance(cl, tuple) and cl[0] == "closure" and tup.get("k") == "Tuple":
                    g = self.facts.fns.get(cl[1])
                    if g is not None:
                        e2 = dict(env)
                        ps = [p for p in g["params"][1:] if p.get("pat") and p["pat"].get("k") == "Bind"]
                        for p_, a_ in zip(ps, tup["es"]):
                            e2[p_["pat"]["v"]] = self.val(a_, env, depth + 1)
                        return self.val(g["body"], e2, depth + 1)
            if c.endswith("get_latest_version"):
                return ("ver", "own")
            if c.endswith("::min") and len(n["args"]) == 2:
                a, b = self.val(n["args"][0], env, depth + 1), self.val(n["args"][1], env, depth + 1)
                if a and b and {a, b} == {("ver", "own"), ("ver", "callee")}:
                    return ("ver", "eff")
                return None
            if c.endswith("get_definition") and n.get("args"):
                v = self.val(n["args"][0], env, depth + 1)
                return ("def", "own", v[1] if v and v[0] == "ver" else "?")
            if c.endswith(("::clone", "::to_owned")) and n.get("args"):
                return self.val(n["args"][0], env, depth + 1)
            vals = [self.val(a_, env, depth + 1) for a_ in n.get("args", [])]
            self.calls.append((c, vals, n))
            return None
        if k == "Closure":
            return ("closure", n["id"])
        if k == "Adt" and n.get("variant") == "Err":
            return ("res", None)
        if k == "Match":
            self.val(n["e"], env, depth + 1)
            out = None
            for a in n["arms"]:
                v = self.val(a["body"], env, depth + 1)
                out = out or v
            return out
        if k in ("Loop", "For"):
            self.val(n["body"], env, depth + 1)
            return None
        if k == "Adt":
            for fl in n.get("fields", []):
                self.val(fl["e"], env, depth + 1)
            return None
        return None

    def stmt(self, s, env):
        k = s.get("k")
        if k == "LetS":
            if s.get("init") is not None:
                v = self.val(s["init"], env)
                if s["pat"].get("k") == "Bind":
                    if v is not None or s["pat"]["v"] not in env:
                        env[s["pat"]["v"]] = v
        elif k == "ExprS":
            self.stmt(s["e"], env)
        elif k == "Assign":
            l = peel(s["l"])
            if l.get("k") == "Var":
                env[l["v"]] = self.val(s["r"], env)
        elif k == "Block":
            self.val(s, env)
        elif k == "Match":
            self.val(s["e"], env)
            for a in s["arms"]:
                self.val(a["body"], env)
        elif k in ("Call", "If", "Try"):
            self.val(s, env)
        else:
            for c in children(s):
                if isinstance(c, dict):
                    self.stmt(c, env)


def _resolve(v, want, eqs):
    """does value v denote the definition `want` = (side, version class), given version-class equalities eqs?"""
    if v is None:
        return None
    if v[0] == "res":
        return _resolve(v[1], want, eqs)
    if v[0] == "def":
        if v[1] != want[0]:
            return False
        a, b = v[2], want[1]
        if a == b:
            return True
        # union-find over the known equalities
        cls = {x: x for x in ("own", "callee", "eff")}
        def find(x):
            while cls.get(x, x) != x:
                x = cls[x]
            return x
        for p, q in eqs:
            cls[find(p)] = find(q)
        return find(a) == find(b)
    if v[0] == "ite":
        c = v[1]
        if c is None:
            r1, r2 = _resolve(v[2], want, eqs), _resolve(v[3], want, eqs)
            return None if r1 is None or r2 is None else (r1 and r2)
        _, op, a, b = c
        eq_then = [(a, b)] if op == "Eq" else []
        eq_else = [(a, b)] if op == "Ne" else []
        r1 = _resolve(v[2], want, eqs + eq_then)
        r2 = _resolve(v[3], want, eqs + eq_else)
        return None if r1 is None or r2 is None else (r1 and r2)
    return None


@rule("N7", ["C10", "C11"], floor=4, doc="negotiation hands analyze_and_create, in this order, the caller's and the callee's definition at the negotiated "
      "version and the caller's and the callee's definition at their own versions; a definition obtained for another version may stand in "
      "only on a branch whose condition makes the two versions equal (min(own, callee) = eff is known)")
def n7(facts, tier):
    for fid, f in sorted(facts.fns.items()):
        if f["crate"] != "savefile_abi" or not f.get("body") or "abi_entry" in fid:
            continue
        if not any(x.get("k") == "Adt" and x.get("adt") == "savefile_abi::AbiProtocol" and x.get("variant") == "InterrogateVersion"
                   for x in walk(f["body"])):
            continue
        ev_ = NegoEval(facts, f)
        ev_.val(f["body"], ev_.env)
        site = next(((c, vals, n) for c, vals, n in ev_.calls if c.endswith("analyze_and_create")), None)
        if site is None:
            yield ob(["C10", "C11"], "N7", "definitions", "undecided", where(f), f"{fid}: call of analyze_and_create not reached by the evaluation")
            return
        c, vals, node = site
        target = facts.fns.get((node.get("res") or {}).get("fn") or node.get("fn")) or next(
            (g for g in facts.fns.values() if g["id"].endswith("::analyze_and_create")), None)
        names = [p["pat"]["v"].split("#")[0] for p in (target["params"] if target else []) if p.get("pat") and p["pat"].get("k") == "Bind"]
        want = {"caller_effective_definition": ("own", "eff"), "callee_effective_definition": ("callee", "eff"),
                "caller_native_definition": ("own", "own"), "callee_native_definition": ("callee", "callee")}
        # eff = min(own, callee): eff == own or eff == callee, nothing else is known a priori
        for i, nm in enumerate(names):
            if nm not in want or i >= len(vals):
                continue
            r = _resolve(vals[i], want[nm], [])
            yield ob(["C10", "C11"], "N7", nm, "pass" if r is True else ("undecided" if r is None else "violation"), where(f, node),
                     f"{nm} is the {want[nm][0]} side's definition at version class `{want[nm][1]}` on every path" if r is True else
                     (f"{fid}: the value passed as {nm} could not be classified" if r is None else
                      f"{fid}: the value passed as {nm} is, on some path, a definition of another version whose equality with "
                      f"`{want[nm][1]}` is not implied by the branch condition: the by-reference decision then compares the caller's "
                      f"memory layout with a layout the implementation does not have"))
        return


# ---------------------------------------------------------------------------------------------
# M8: nested interfaces are verified on the definitions of the negotiated version

def _roots_of_bindings(f, param_roots):
    """variable -> name of the parameter it was destructured from (patterns over tuples of parameters are followed position-wise)"""
    from .taint_rules import pat_binds
    roots = dict(param_roots)

    def root_of(e):
        e = peel_block(peel(e))
        if e.get("k") == "Var":
            return roots.get(e["v"])
        if e.get("k") in ("Field", "Index", "Cast", "Try"):
            return root_of(e["e"])
        return None

    def bind(pat, e):
        e0 = peel_block(peel(e)) if isinstance(e, dict) else None
        if e0 is not None and e0.get("k") == "Tuple" and pat.get("k") in ("Leaf", "Tuple") and len(pat.get("subs", [])) == len(e0["es"]):
            for sp, ee in zip(pat["subs"], e0["es"]):
                q = sp.get("p", sp) if isinstance(sp, dict) else sp
                bind(q, ee)
            return
        r = root_of(e) if isinstance(e, dict) else None
        if r is not None:
            for b in pat_binds(pat):
                roots.setdefault(b["v"], r)

    for _ in range(3):
        for x in walk(f["body"]):
            k = x.get("k")
            if k == "LetS" and x.get("init") is not None:
                bind(x["pat"], x["init"])
            elif k == "Let":
                bind(x["pat"], x["e"])
            elif k == "Match":
                for a in x["arms"]:
                    bind(a["pat"], x["e"])
    return roots


@rule("M8", ["C10", "C11"], floor=3, doc="arg_layout_compatible verifies nested interfaces (trait objects, closures, futures) on the definitions of the "
      "NEGOTIATED version: both operands of every verify_backward_compatible (also through local helpers) are destructured from the "
      "effective-schema parameters, never from the native ones")
def m8(facts, tier):
    f = facts.fns.get("savefile_abi::arg_layout_compatible")
    if f is None:
        return
    ps = [p["pat"]["v"] for p in f["params"] if p.get("pat") and p["pat"].get("k") == "Bind"]
    if len(ps) < 4:
        return
    names = {ps[0]: "a_native", ps[1]: "b_native", ps[2]: "a_effective", ps[3]: "b_effective"}
    roots = _roots_of_bindings(f, names)
    sites = []

    def collect(g, groots, depth=0):
        for x in walk(g["body"]):
            if x.get("k") != "Call":
                continue
            c = callee(x) or ""
            if c.endswith("verify_backward_compatible") and len(x.get("args", [])) >= 3:
                def r(e):
                    e = peel_block(peel(e))
                    return groots.get(e["v"]) if e.get("k") == "Var" else None
                sites.append((x, r(x["args"][0]), r(x["args"][2]), g))
            t = (x.get("res") or {}).get("fn") or x.get("fn")
            h = facts.fns.get(t)
            if h is not None and h["crate"] == "savefile_abi" and h["id"] != g["id"] and h["id"] != f["id"] and depth < 3 and h.get("body") \
                    and any((callee(y) or "").endswith("verify_backward_compatible") for y in walk(h["body"]) if y.get("k") == "Call"):
                hp = [p["pat"]["v"] if p.get("pat") and p["pat"].get("k") == "Bind" else None for p in h["params"]]
                hr = {}
                for nm, a in zip(hp, x.get("args", [])):
                    a0 = peel_block(peel(a))
                    if nm and a0.get("k") == "Var" and groots.get(a0["v"]):
                        hr[nm] = groots[a0["v"]]
                collect(h, _roots_of_bindings(h, hr), depth + 1)
    collect(f, roots)
    n = 0
    for x, ra, rb, g in sites:
        n += 1
        ok = ra == "a_effective" and rb == "b_effective"
        und = ra is None or rb is None
        yield ob(["C10", "C11"], "M8", f"nested-definition-check#{n}", "pass" if ok else ("undecided" if und else "violation"), where(g, x),
                 "verify_backward_compatible runs on definitions taken from the effective schemas" if ok else
                 (f"the operands of verify_backward_compatible could not be traced to a parameter ({ra}, {rb})" if und else
                  f"verify_backward_compatible runs on definitions taken from `{ra}` / `{rb}`: the two sides' NATIVE definitions are compared "
                  f"although they legitimately differ between versions (evolved argument or output types), so peers of different versions "
                  f"are refused - or, for swapped roles, incompatible ones accepted"))


@rule("N8", ["C15", "C10"], floor=10, doc="generated get_definition(version): every nested interface (trait-object, closure and future arguments) is "
      "described at the version that was asked for - the nested get_definition receives the function's own `version` parameter, not "
      "a constant - so the definition recorded for, or negotiated at, an older version does not carry a newer nested interface")
def n8(facts, tier):
    for fid, f in sorted(facts.fns.items()):
        if f["crate"] != "sfcorpus" or not fid.endswith("as savefile_abi::AbiExportable>::get_definition") or not f.get("body"):
            continue
        ps = [p["pat"]["v"] for p in f["params"] if p.get("pat") and p["pat"].get("k") == "Bind"]
        if not ps:
            continue
        ver = ps[0]
        m = re.match(r"<\(dyn ([^ ]+)", fid)
        tname = m.group(1) if m else fid
        n = 0
        for x in walk(f["body"]):
            if x.get("k") == "Call" and (callee(x) or "").endswith("AbiExportable::get_definition") and x.get("args"):
                n += 1
                a = peel_block(peel(x["args"][0]))
                ok = a.get("k") == "Var" and a["v"] == ver
                nested = (x.get("self_ty") or "?")
                nested = re.sub(r"^\(dyn |\s*\+.*$|\)$", "", nested)
                key = f"{tname}:nested#{n}"
                yield ob(["C15", "C10"], "N8", key, "pass" if ok else "violation", where(f, x),
                         f"{tname}: nested interface {nested} described at the requested version" if ok else
                         f"{tname}::get_definition(version) describes its nested interface `{nested}` at a fixed version "
                         f"({a.get('int', a.get('k'))}) instead of `version`: the definition of an older version carries the newest nested "
                         f"interface, so the ledger rejects a compatible evolution (and negotiation compares the wrong nested definitions)")
        ns = 0
        for x in walk(f["body"]):
            if x.get("k") == "Call" and callee(x) == "savefile::get_schema" and x.get("args"):
                ns += 1
                a = peel_block(peel(x["args"][0]))
                t = (x.get("targs") or ["?"])[0]
                ok = (a.get("k") == "Var" and a["v"] == ver) or t == "()"
                yield ob(["C15", "C10"], "N8", f"{tname}:schema#{ns}", "pass" if ok else "violation", where(f, x),
                         f"{tname}: schema of {t} taken at the requested version" if ok else
                         f"{tname}::get_definition(version) takes the schema of `{t}` at a fixed version ({a.get('int', a.get('k'))}) instead of "
                         f"`version`: the definition of an older interface version describes this type as of the newest version, so the ledger "
                         f"rejects (or records wrongly) a backward-compatible evolution of the type")


# ---------------------------------------------------------------------------------------------
# N9: a wake-up crosses the ABI boundary every time

def must_call(n, pred, facts=None, depth=0):
    """does every path through expression n (that completes normally) evaluate a call satisfying pred? Early exits (return, break,
    `?`) before the call make the answer False; loops count only for what precedes them"""
    if not isinstance(n, dict):
        return False
    k = n.get("k")
    if k == "Call":
        if pred(n):
            return True
        return any(must_call(a, pred, facts, depth) for a in n.get("args", []))
    if k == "Block":
        for s in n.get("stmts", []):
            if must_call(s, pred, facts, depth):
                return True
            if any(y.get("k") in ("Return", "Break", "Continue", "Try") for y in walk(s)):
                return False
        return must_call(n["e"], pred, facts, depth) if n.get("e") is not None else False
    if k == "If":
        if must_call(n["c"], pred, facts, depth):
            return True
        return n.get("f") is not None and must_call(n["t"], pred, facts, depth) and must_call(n["f"], pred, facts, depth)
    if k == "Match":
        if must_call(n["e"], pred, facts, depth):
            return True
        return bool(n.get("arms")) and all(must_call(a["body"], pred, facts, depth) for a in n["arms"])
    if k == "Logic":
        return must_call(n["l"], pred, facts, depth)
    if k in ("Loop", "For", "While", "Closure", "Return", "Break", "Continue"):
        return False
    if k == "LetS":
        return n.get("init") is not None and must_call(n["init"], pred, facts, depth)
    return any(must_call(c, pred, facts, depth) for c in children(n))


def _is_callback_call(x):
    c = callee(x) or ""
    return c in ("core::ops::function::Fn::call", "core::ops::function::FnMut::call_mut", "core::ops::function::FnOnce::call_once")


@rule("N9", ["C09", "C16"], floor=6, doc="a wake-up crosses the ABI boundary every time: AbiWaker::wake / wake_by_ref call the stored callback on every "
      "path, the generated Future::poll hands abi_poll a closure that wakes the executor's waker on every call, and the generated abi_poll "
      "passes that callback to AbiWaker::new unwrapped (a wake-up that is filtered, coalesced or conditional leaves a task pending for ever)")
def n9(facts, tier):
    P = ["C09", "C16"]
    # (a) the library's waker
    for name in ("wake", "wake_by_ref"):
        fid = f"<savefile_abi::AbiWaker as alloc::task::Wake>::{name}"
        f = facts.fns.get(fid)
        if f is None:
            yield ob(P, "N9", fid, "violation", "", f"{fid} not found")
            continue

        def fwd(x, f=f):
            c = callee(x) or ""
            if _is_callback_call(x) and any(y.get("k") == "Field" for y in walk(x["args"][0])):
                return True
            return c in ("alloc::task::Wake::wake_by_ref", "alloc::task::Wake::wake") and (x.get("self_ty") or "").endswith("AbiWaker") \
                and not c.endswith("::" + f["name"])
        ok = must_call(f["body"], fwd, facts)
        yield ob(P, "N9", fid, "pass" if ok else "violation", where(f),
                 "the stored callback is called on every path" if ok else
                 f"{fid}: the stored callback is not called on every path (conditional, coalesced or skipped wake-up): a future that keeps "
                 f"a waker from an earlier poll and is woken again is never polled again across the ABI boundary")
    # (b) + (c) generated wrappers
    for fid, f in sorted(facts.fns.items()):
        if f["crate"] != "sfcorpus" or not f.get("body"):
            continue
        if fid.endswith("as core::future::future::Future>::poll"):
            for x in calls(f["body"]):
                if (callee(x) or "").endswith("::abi_poll"):
                    cls = [y for a in x["args"][1:] for y in walk(a) if y.get("k") == "Closure"]
                    ok = False
                    if len(cls) == 1 and facts.fns.get(cls[0]["id"]):
                        cf = facts.fns[cls[0]["id"]]
                        ok = must_call(cf["body"], lambda z: (callee(z) or "").endswith(("task::wake::Waker::wake_by_ref", "task::wake::Waker::wake")), facts)
                    yield ob(P, "N9", fid, "pass" if ok else "violation", where(f, x),
                             "the closure handed to abi_poll wakes the executor's waker on every call" if ok else
                             f"{fid}: the closure handed to abi_poll does not wake the executor's waker on every call (or is not a plain "
                             f"closure): wake-ups from the implementation are filtered before they reach the executor")
        if fid.endswith("::abi_poll") and "future_wrapper" in fid:
            params = [p["pat"]["v"] for p in f.get("params", []) if (p.get("pat") or {}).get("k") == "Bind"]
            for x in calls(f["body"]):
                if (callee(x) or "").endswith("AbiWaker::new"):
                    a = peel(x["args"][0])
                    while a.get("k") in ("Coerce", "Cast", "Use"):
                        a = peel(a["e"])
                    ok = a.get("k") == "Var" and a.get("v") in params
                    if not ok and a.get("k") == "Call" and (callee(a) or "").endswith("Box::new"):
                        cls = [y for y in walk(a) if y.get("k") == "Closure"]
                        if len(cls) == 1 and facts.fns.get(cls[0]["id"]):
                            ok = must_call(facts.fns[cls[0]["id"]]["body"], _is_callback_call, facts)
                    yield ob(P, "N9", fid, "pass" if ok else "violation", where(f, x),
                             "the caller's wake callback is handed to AbiWaker::new as received" if ok else
                             f"{fid}: AbiWaker::new does not receive the caller's wake callback as it is (it is wrapped in a closure that does "
                             f"not call it on every path): wake-ups are filtered before they cross the ABI boundary")


# ---------------------------------------------------------------------------------------------
# N10: the marker bounds of an interface reach its run-time definition

N10_EXPECT = {   # corpus trait -> (sync, send), from the declarations in corpus/abi_family.rs
    "BoundsSyncSend": (1, 1), "BoundsSendSync": (1, 1), "BoundsSendOnly": (0, 1), "BoundsSyncOnly": (1, 0), "BoundsArgs": (0, 0),
    "Callback": (0, 0),
}
N10_CLOSURE_ARGS = {"BoundsArgs": [(1, 1), (0, 1)]}   # marker bounds of the closure arguments of its methods, in declaration order


def _n10_literal(f):
    for x in walk(f["body"]):
        if x.get("k") == "Adt" and (x.get("adt") or "").endswith("AbiTraitDefinition"):
            fl = {y["f"]: peel(y["e"]).get("int") for y in x["fields"] if y["f"] in ("sync", "send")}
            if "sync" in fl and "send" in fl:
                return (fl["sync"], fl["send"]), x
    return None, None


@rule("N10", ["C16", "C10"], floor=7, doc="the Send / Sync supertraits of an exported interface, in whatever order they are written, and the marker bounds of "
      "closure arguments, are recorded in the generated AbiTraitDefinition (sync, send): the connection-time check that refuses a non-Sync "
      "closure for an implementation that shares it between threads reads exactly these flags")
def n10(facts, tier):
    defs = {}
    for fid, f in facts.fns.items():
        if f["crate"] == "sfcorpus" and fid.endswith("as savefile_abi::AbiExportable>::get_definition") and f.get("body"):
            m = re.match(r"<\(dyn ([^ ]+)", fid)
            if m:
                defs[m.group(1)] = f
    for name, want in sorted(N10_EXPECT.items()):
        f = defs.get("sfcorpus::abi::" + name)
        if f is None:
            yield ob(["C16", "C10"], "N10", name, "violation", "", f"generated definition of corpus trait {name} not found")
            continue
        got, node = _n10_literal(f)
        ok = got == want
        yield ob(["C16", "C10"], "N10", name, "pass" if ok else "violation", where(f, node) if node else where(f),
                 f"{name}: (sync, send) = {got} as declared" if ok else
                 f"the generated definition of {name} records (sync, send) = {got}, the trait is declared with {want}: a marker bound is lost "
                 f"(or invented) on the way into the run-time definition, so the connection-time bound check compares the wrong flags")
    for name, wants in sorted(N10_CLOSURE_ARGS.items()):
        f = defs.get("sfcorpus::abi::" + name)
        if f is None:
            continue
        nested = [x.get("self_ty") for x in walk(f["body"]) if x.get("k") == "Call" and (callee(x) or "").endswith("AbiExportable::get_definition")]
        nested = [re.sub(r"^\(?dyn |\s*\+.*$|\)$", "", n_ or "") for n_ in nested]
        for i, want in enumerate(wants):
            key = f"{name}:closure-arg#{i + 1}"
            g = defs.get(nested[i]) if i < len(nested) else None
            got, node = _n10_literal(g) if g is not None else (None, None)
            ok = got == want
            yield ob(["C16", "C10"], "N10", key, "pass" if ok else ("violation" if got is not None else "undecided"), where(g, node) if g is not None and node else "",
                     f"closure argument {i + 1} of {name}: (sync, send) = {got} as declared" if ok else
                     f"the helper interface generated for closure argument {i + 1} of {name} records (sync, send) = {got}, the argument is declared "
                     f"with {want}: an implementation that requires a Sync closure can be handed one that is not")
