"""E1 rules over the library impls: W1 (writer ⊆ reader), W2 (tag tables), W4 (containers)."""
from .. import rx, wire
from ..core import ob, rule, where
from ..ir import callee, peel, peel_block, walk

# writer-only types and the type whose reader is documented to read them back
WRITER_ONLY = {
    "&[$0]": "alloc::vec::Vec<$0>",
    "[$0]": "alloc::vec::Vec<$0>",
    "alloc::boxed::Box<[$0]>": "alloc::boxed::Box<[$0]>",
    "alloc::sync::Arc<[$0]>": "alloc::sync::Arc<[$0]>",
    "str": "alloc::string::String",
    "&str": "alloc::string::String",
    "&'a str": "alloc::string::String",
}


# the schema section is only ever *written* in library format >= 1 (format 0 is read-only legacy: rule W8)
SCHEMA_TYPES = {"savefile::Schema", "savefile::SchemaStruct", "savefile::SchemaEnum", "savefile::Variant", "savefile::Field",
                "savefile::SchemaArray", "savefile::SchemaPrimitive", "savefile::AbiMethodInfo", "savefile::AbiMethod",
                "savefile::AbiMethodArgument", "savefile::AbiTraitDefinition"}


def impl_pairs(facts, crate="savefile"):
    sers, des = {}, {}
    for f in facts.fns.values():
        im = f.get("impl")
        if not im or f["crate"] != crate:
            continue
        if im.get("trait") == "savefile::Serialize" and f.get("name") == "serialize":
            ts = wire.canon_generics(im["self_ty"], im["generics"])
            sers[(wire.subst_ty(im["self_ty"], ts), f["id"])] = (f, ts)
        if im.get("trait") == "savefile::Deserialize" and f.get("name") == "deserialize":
            ts = wire.canon_generics(im["self_ty"], im["generics"])
            des[(wire.subst_ty(im["self_ty"], ts), f["id"])] = (f, ts)
    return sers, des


def compare_pair(facts, wf, wts, rf, rts, W=None, min_version=0):
    """returns list of (env description, ok, word, lw, lr)"""
    W = W or wire.WireAnalysis(facts)
    lits, guards = W.probe([wf, rf], [wts, rts])
    res = []
    versions = W.version_classes(lits)
    if min_version:
        versions = [v for v in versions if v >= min_version] or [min_version]
    for v in versions:
        for g in W.guard_assignments(guards):
            lw, _, _, _ = W.lang(wf, v, g, wts)
            lr, _, _, _ = W.lang(rf, v, g, rts)
            ok, word, lw, lr = W.contains_modulo_expansion(lw, lr, v, g)
            res.append(({"version": v, "guards": {repr(k): val for k, val in g.items()}}, ok, word, lw, lr))
    return res


def split_match_on_self(facts, f):
    """does the function look at the variant of `self` in two separate places (a tag computed by a helper `self.tag()` and a payload
    `match self`)? The wire language is path-insensitive across the two: it pairs every tag with every payload, so a mismatch found
    for such a function is not a verdict"""
    selfv = next((p["pat"]["v"] for p in f.get("params", []) if p.get("self") and (p.get("pat") or {}).get("k") == "Bind"), None)
    if selfv is None:
        return False

    def on_self(m, var):
        e = peel(m.get("e") or {})
        while isinstance(e, dict) and e.get("k") in ("Ref", "Deref", "Coerce"):
            e = peel(e["e"])
        return isinstance(e, dict) and e.get("k") == "Var" and e.get("v") == var
    n = sum(1 for x in walk(f["body"]) if x.get("k") == "Match" and on_self(x, selfv))
    for x in walk(f["body"]):
        if x.get("k") == "Call" and x.get("args"):
            a0 = peel(x["args"][0])
            while isinstance(a0, dict) and a0.get("k") in ("Ref", "Deref", "Coerce"):
                a0 = peel(a0["e"])
            h = facts.fns.get((x.get("res") or {}).get("fn") or x.get("fn"))
            if h is not None and h.get("body") and h["crate"] == f["crate"] and isinstance(a0, dict) and a0.get("k") == "Var" and a0.get("v") == selfv:
                hs = next((p["pat"]["v"] for p in h.get("params", []) if (p.get("pat") or {}).get("k") == "Bind"), None)
                n += sum(1 for y in walk(h["body"]) if y.get("k") == "Match" and on_self(y, hs))
    return n >= 2


@rule("W1", ["C01", "C07"], floor=85, doc="every Serialize impl's wire language is contained in its Deserialize sibling's, "
      "for every version class and guard assignment")
def w1(facts, tier):
    sers, des = impl_pairs(facts)
    des_by_ty = {}
    for (ty, fid), v in des.items():
        des_by_ty.setdefault(ty, []).append(v)
    W = wire.WireAnalysis(facts)
    for (ty, fid), (wf, wts) in sorted(sers.items()):
        rty = ty if ty in des_by_ty else WRITER_ONLY.get(ty)
        cands = des_by_ty.get(rty, [])
        if not cands:
            # the reader may be generic over fewer (defaulted) parameters: pair by path head
            from .. import tys as _t
            h = _t.path_head(ty)
            cands = [v for t2, vs in des_by_ty.items() if h and _t.path_head(t2) == h for v in vs]
        # two versions of one crate (bit-vec 0.6/0.8) print alike: pair by ordinal suffix
        suffix = fid.split("~")[1] if "~" in fid else None
        if len(cands) > 1:
            cands = [c for c in cands if (c[0]["id"].split("~")[1] if "~" in c[0]["id"] else None) == suffix] or cands[:1]
        if not cands:
            yield ob(["C01"], "W1", f"no-reader:{ty}", "undecided", where(wf), f"no Deserialize sibling found for {ty}")
            continue
        rf, rts = cands[0]
        worst = None
        n_env = 0
        minv = 1 if ty in SCHEMA_TYPES else 0
        for envd, ok, word, lw, lr in compare_pair(facts, wf, wts, rf, rts, W, minv):
            n_env += 1
            if ok is not True and worst is None:
                worst = (envd, ok, word, lw, lr)
        key = ty + ("~" + suffix if suffix else "")
        if worst is None:
            yield ob(["C01", "C07"], "W1", key, "pass", where(wf), f"writer ⊆ reader in {n_env} environment(s)", environments=n_env)
        else:
            envd, ok, word, lw, lr = worst
            st = "violation" if ok is False else "undecided"
            if word and any(isinstance(x, tuple) and x[0] in ("BULK", "RAW1") for x in word) and \
                    any(isinstance(x, tuple) and x[0] == "BYTES" for x in rx.symbols(lr)):
                st = "undecided"   # a raw slice whose length expression the classifier cannot attribute to a type
            if st == "violation" and split_match_on_self(facts, wf):
                st = "undecided"   # tag and payload are chosen by two separate matches on self: the pairing is lost in the abstraction
            yield ob(["C01", "C07"], "W1", key, st, where(wf),
                     f"writer {wf['id']} can emit [{rx.show_word(word)}] which reader {rf['id']} does not consume "
                     f"(env {envd}); writer: {rx.show(lw)} ; reader: {rx.show(lr)}",
                     writer=wf["id"], reader=rf["id"], env=envd, word=rx.show_word(word), lw=rx.show(lw), lr=rx.show(lr))


# ---------------------------------------------------------------------------
# W3: the writer's language equals the frozen specification of the documented format

import json
import os

SPEC_PATH = os.path.join(os.path.dirname(os.path.dirname(os.path.dirname(os.path.abspath(__file__)))), "spec", "wire_spec.json")


def writer_langs(facts, W, wf, wts, minv=0):
    lits, guards = W.probe([wf], [wts])
    versions = W.version_classes(lits)
    if minv:
        versions = [v for v in versions if v >= minv] or [minv]
    out = []
    for v in versions:
        for g in W.guard_assignments(guards):
            lw, _, _, _ = W.lang(wf, v, g, wts)
            out.append((v, g, lw))
    return out


def gkey(g):
    return ";".join(f"{k[0]}<{k[1]}>={int(val)}" for k, val in sorted(g.items(), key=lambda kv: repr(kv[0])))


def freeze_spec(facts):
    """(tool) writes spec/wire_spec.json from the current tree; reviewed by hand against DESIGN.md Appendix A"""
    sers, _ = impl_pairs(facts)
    W = wire.WireAnalysis(facts)
    spec = {}
    items = []
    for (ty, fid), (wf, wts) in sorted(sers.items()):
        key = ty + ("~" + fid.split("~")[1] if "~" in fid else "")
        items.append((key, wf, wts, 1 if ty in SCHEMA_TYPES else 0, True))
    for name in CONTAINER_WRITERS:
        f = facts.fns.get(name)
        if f:
            items.append(("container:" + name.split("::")[-1], f, {}, 0, False))
    for key, wf, wts, minv, norm in items:
        ents = []
        for v, g, lw in writer_langs(facts, W, wf, wts, minv):
            if norm:
                lw = W.normalise(lw, "w", v, g)
            ents.append({"v": v, "g": gkey(g), "lang": rx.show(lw), "rx": rx.to_json(lw)})
        spec[key] = ents
    return spec


CONTAINER_WRITERS = ["savefile::Serializer<'a, W>::save_impl", "savefile::Serializer<'a, W>::bare_serialize"]


def spec_lookup(ents, v, gk):
    """the specified language for version v: the entry with the largest specified version <= v (version classes
    are intervals and the specification holds a representative of each)"""
    cands = [e for e in ents if e["g"] == gk and e["v"] <= v]
    if not cands:
        return None
    return max(cands, key=lambda e: e["v"])


@rule("W3", ["C02"], floor=90, doc="the wire language of every library writer (and of the container header) equals the "
      "frozen specification of the documented format (spec/wire_spec.json), modulo expansion of nested values")
def w3(facts, tier):
    spec = json.load(open(SPEC_PATH))
    sers, _ = impl_pairs(facts)
    W = wire.WireAnalysis(facts)
    seen = set()
    items = []
    for (ty, fid), (wf, wts) in sorted(sers.items()):
        key = ty + ("~" + fid.split("~")[1] if "~" in fid else "")
        items.append((key, wf, wts, 1 if ty in SCHEMA_TYPES else 0))
    for name in CONTAINER_WRITERS:
        f = facts.fns.get(name)
        if f:
            items.append(("container:" + name.split("::")[-1], f, {}, 0))
    for key, wf, wts, minv in items:
        seen.add(key)
        ents = spec.get(key)
        if ents is None:
            yield ob(["C02"], "W3", f"unspecified:{key}", "undecided", where(wf),
                     f"writer {wf['id']} has no entry in the frozen wire specification (new type?)")
            continue
        lits, guards = W.probe([wf], [wts])
        versions = set(W.version_classes(lits)) | {e["v"] for e in ents}
        versions = sorted(v for v in versions if v >= minv) or [minv]
        spec_g = {e["g"] for e in ents}
        bad = None
        undec = None
        n_env = 0
        for v in versions:
            for g in W.guard_assignments(guards):
                gk = gkey(g)
                if gk not in spec_g:
                    undec = f"the set of fast-path guards of the writer changed ({gk!r} not in the specification {sorted(spec_g)})"
                    continue
                se = spec_lookup(ents, v, gk)
                if se is None:
                    continue
                n_env += 1
                lw, _, _, _ = W.lang(wf, v, g, wts)
                if key.startswith("container:"):
                    lwn = lw
                else:
                    lwn = W.normalise(lw, "w", v, g)
                ls = rx.from_json(se["rx"])
                ok1, w1_, _, _ = W.contains_modulo_expansion(lwn, ls, v, g)
                if ok1 is False and w1_ and any(isinstance(y, tuple) and y[0] == "B" and y[2] == "other" and
                                                any(isinstance(z, tuple) and z[0] == "B" and z[1] == y[1] and z[2] == rx.ANY for z in rx.symbols(lwn))
                                                for y in w1_):
                    # the value written there is computed (a table lookup, an arithmetic expression): which values it can take is
                    # not known, so "a value outside the documented tags" is not a finding (the tag tables are rule W2's)
                    ok1 = None
                if ok1 is not True:
                    bad = bad or (v, gk, ok1, f"writer emits [{rx.show_word(w1_)}] which the documented format does not contain", lwn, ls)
                    continue
                ok2, w2_, _, _ = W.contains_modulo_expansion(ls, lwn, v, g)
                if ok2 is not True:
                    bad = bad or (v, gk, ok2, f"documented word [{rx.show_word(w2_)}] can no longer be produced by the writer", lwn, ls)
        if bad is not None:
            v, gk, ok, msg, lw, ls = bad
            if ok is False and split_match_on_self(facts, wf):
                ok = None    # tag and payload chosen by two separate matches on self: the pairing is lost in the abstraction
            yield ob(["C02"], "W3", key, "violation" if ok is False else "undecided", where(wf),
                     f"{wf['id']}: {msg} (version {v}, guards {gk or '-'}); writer: {rx.show(lw)} ; spec: {rx.show(ls)}",
                     writer=wf["id"], version=v, guards=gk)
        elif undec:
            yield ob(["C02"], "W3", key, "undecided", where(wf), undec)
        else:
            yield ob(["C02"], "W3", key, "pass", where(wf), f"writer language = specification in {n_env} environment(s)")
    for key in sorted(set(spec) - seen):
        yield ob(["C02"], "W3", f"missing-writer:{key}", "violation", "",
                 f"the specification describes {key} but no such writer exists in the tree any more")


@rule("W4", ["C01", "C02", "C05", "C07", "C14"], floor=3, doc="container header: what save_impl writes is what load_impl reads")
def w4(facts, tier):
    W = wire.WireAnalysis(facts)
    pairs = [("savefile::Serializer<'a, W>::save_impl", "savefile::Deserializer<'_, TR>::load_impl"),
             ("savefile::Serializer<'a, W>::bare_serialize", "savefile::Deserializer<'_, TR>::bare_deserialize"),
             ("savefile::crypto::RandomNonceSequence::serialize", "savefile::crypto::RandomNonceSequence::deserialize")]
    for wn, rn in pairs:
        wf, rf = facts.fns.get(wn), facts.fns.get(rn)
        if not wf or not rf:
            continue
        lw, _, _, _ = W.lang(wf, None, {}, {})
        lr, _, _, _ = W.lang(rf, None, {}, {})
        lw, lr = rx.strip_payload(lw), rx.strip_payload(lr)
        ok, word, lw2, lr2 = W.contains_modulo_expansion(lw, lr, None, {})
        key = wn.split("::")[-2] + "::" + wn.split("::")[-1] if "Nonce" in wn else wn.split("::")[-1]
        pr = ["C14", "C01", "C07"] if "Nonce" in wn else ["C01", "C02", "C05", "C07"]
        if ok is True:
            yield ob(pr, "W4", key, "pass", where(wf), f"{rx.show(lw)} ⊆ reader")
        else:
            yield ob(pr, "W4", key, "violation" if ok is False else "undecided", where(wf),
                     f"{wn} can emit [{rx.show_word(word)}] which {rn} does not consume; writer {rx.show(lw)} ; reader {rx.show(lr)}")


# ---------------------------------------------------------------------------
# W8: the schema readers at library format 0 (read-only legacy) consume the frozen format-0 layout

FORMAT0_PATH = os.path.join(os.path.dirname(SPEC_PATH), "format0_spec.json")


def format0_langs(facts, W=None):
    _, des = impl_pairs(facts)
    W = W or wire.WireAnalysis(facts)
    out = {}
    for (ty, fid), (rf, rts) in sorted(des.items()):
        if ty not in SCHEMA_TYPES and ty != "savefile::VecOrStringLayout":
            continue
        lits, guards = W.probe([rf], [rts])
        ents = []
        for g in W.guard_assignments(guards):
            lr, _, _, _ = W.lang(rf, 0, g, rts)
            ents.append((gkey(g), lr, rf))
        out[ty] = ents
    return out


@rule("W8", ["C13", "C05"], floor=11, doc="library format 0 (old files; read-only): specialised to file_version = 0, the wire language of every schema-component "
      "reader equals the frozen format-0 layout (spec/format0_spec.json: the format-1 layout without the memory-layout annotations "
      "and the discriminant-width byte)")
def w8(facts, tier):
    spec = json.load(open(FORMAT0_PATH))
    W = wire.WireAnalysis(facts)
    seen = set()
    for ty, ents in format0_langs(facts, W).items():
        seen.add(ty)
        se = spec.get(ty)
        for gk, lr, rf in ents:
            key = ty + (":" + gk if gk else "")
            if se is None or gk not in se:
                yield ob(["C13", "C05"], "W8", key, "undecided", where(rf), f"{ty}: no format-0 entry in the frozen specification")
                continue
            ls = rx.from_json(se[gk]["rx"])
            # a reader may call the reader of a nested schema node (`Field::deserialize`) where the frozen layout spells that
            # node out: both sides are compared with every nested non-recursive schema node replaced by ITS frozen format-0
            # layout (the nested node's own reader is a separate obligation)
            def _inl(sym, depth=[0]):
                if isinstance(sym, tuple) and sym[0] == "N" and sym[1] in spec and sym[1] != ty and sym[1] not in ("savefile::Schema",) \
                        and "" in spec[sym[1]] and depth[0] < 3:
                    depth[0] += 1
                    r_ = rx.subst(rx.from_json(spec[sym[1]][""]["rx"]), _inl)
                    depth[0] -= 1
                    return r_
                return rx.ev(sym)
            ls, lr = rx.subst(ls, _inl), rx.subst(lr, _inl)
            ok1, w1_, _, _ = W.contains_modulo_expansion(ls, lr, 0, {})
            ok2, w2_, _, _ = W.contains_modulo_expansion(lr, ls, 0, {})
            if ok1 is True and ok2 is True:
                yield ob(["C13", "C05"], "W8", key, "pass", where(rf), f"{rf['id']} at format 0 consumes {rx.show(lr)[:160]}")
            else:
                st = "violation" if (ok1 is False or ok2 is False) else "undecided"
                msg = (f"a format-0 {ty.split('::')[-1]} laid out as [{rx.show_word(w1_)}] is no longer consumed" if ok1 is not True else
                       f"the reader consumes [{rx.show_word(w2_)}], which is not how format 0 lays out a {ty.split('::')[-1]}")
                yield ob(["C13", "C05"], "W8", key, st, where(rf),
                         f"{rf['id']} at file_version 0: {msg}; reader: {rx.show(lr)[:300]} ; format 0: {rx.show(ls)[:300]}: schema sections of "
                         f"old files are mis-framed")
    for ty in sorted(set(spec) - seen):
        yield ob(["C13", "C05"], "W8", f"missing-reader:{ty}", "violation", "", f"the format-0 specification describes {ty} but no such reader exists")


# ---------------------------------------------------------------------------
# W8d: what the format-0 readers put into the fields that format 0 does not carry

FORMAT0_DEFAULTS = {
    # (ADT, variant or None, field) -> value at file_version 0
    ("savefile::SchemaEnum", "discriminant_size"): ("int", 1),      # format-0 enums were always written with one-byte discriminants
    ("savefile::SchemaEnum", "has_explicit_repr"): ("int", 0),
    ("savefile::SchemaEnum", "size"): ("None",),
    ("savefile::SchemaEnum", "alignment"): ("None",),
    ("savefile::SchemaStruct", "size"): ("None",),
    ("savefile::SchemaStruct", "alignment"): ("None",),
    ("savefile::Field", "offset"): ("None",),
    ("savefile::Schema::Vector", "1"): ("variant", "Unknown"),
    ("savefile::SchemaPrimitive::schema_string", "0"): ("variant", "Unknown"),
}


def _default_of_type(ty):
    ty = ty.strip()
    if ty.startswith("(") and ty.endswith(")"):
        from .. import tys as _t
        parts, depth, cur = [], 0, ""
        for ch in ty[1:-1]:
            if ch in "<([":
                depth += 1
            elif ch in ">)]":
                depth -= 1
            if ch == "," and depth == 0:
                parts.append(cur)
                cur = ""
            else:
                cur += ch
        if cur.strip():
            parts.append(cur)
        return ("tuple", [_default_of_type(p) for p in parts])
    if re.match(r"[ui](8|16|32|64|128|size)$", ty) or ty == "bool":
        return ("int", 0)
    if ty.startswith("core::option::Option<"):
        return ("None",)
    return ("default", ty)


import re


class V0Eval:
    """value of an expression of a schema reader when deserializer.file_version == 0 (constants, tuples, None/unit variants;
    anything read from the stream is ('read',))"""

    def __init__(self, f, facts=None):
        self.f = f
        self.facts = facts
        self.env = {}
        for x in walk(f["body"]):
            if x.get("k") == "LetS" and x.get("init") is not None:
                self.bind(x["pat"], ("lazy", x["init"]))

    def bind(self, pat, val):
        k = pat.get("k")
        if k == "Bind":
            self.env[pat["v"]] = val
        elif k in ("Leaf", "Tuple"):
            for i, sp in enumerate(pat.get("subs", [])):
                q = sp.get("p", sp) if isinstance(sp, dict) else sp
                idx = sp.get("f", i) if isinstance(sp, dict) else i
                if isinstance(q, dict):
                    self.bind(q, ("proj", val, int(idx) if str(idx).isdigit() else i))

    def force(self, v, depth=0):
        if depth > 20:
            return ("?",)
        if v[0] == "lazy":
            return self.ev(v[1], depth + 1)
        if v[0] == "proj":
            b = self.force(v[1], depth + 1)
            if b[0] == "tuple" and v[2] < len(b[1]):
                return b[1][v[2]]
            return ("read",) if b[0] == "read" else ("?",)
        return v

    def cond(self, n):
        n = peel_block(peel(n))
        if n.get("k") == "Bin" and n["op"] in ("Gt", "Ge", "Lt", "Le", "Eq", "Ne"):
            def side(s):
                s = peel_block(peel(s))
                if s.get("k") == "Lit" and "int" in s:
                    return s["int"]
                if s.get("k") == "Field" and s.get("f") == "file_version":
                    return 0
                if s.get("k") == "Cast":
                    return side(s["e"])
                return None
            a, b = side(n["l"]), side(n["r"])
            if a is None or b is None:
                return None
            return {"Gt": a > b, "Ge": a >= b, "Lt": a < b, "Le": a <= b, "Eq": a == b, "Ne": a != b}[n["op"]]
        return None

    def helper_value(self, call, depth):
        """`deserialize_unless_v0(deserializer, DEFAULT)?`: a private generic helper of the readers is evaluated at file_version 0 with
        its parameters bound to the values of the arguments"""
        call = peel_block(peel(call))
        if self.facts is None or call.get("k") != "Call" or depth > 12:
            return None
        h = self.facts.fns.get((call.get("res") or {}).get("fn") or call.get("fn"))
        if h is None or h["crate"] != "savefile" or not h.get("body") or (h.get("impl") or {}).get("trait") or h.get("pub"):
            return None
        sub = V0Eval(h, self.facts)
        for p_, a_ in zip(h.get("params", []), call.get("args", [])):
            if (p_.get("pat") or {}).get("k") == "Bind":
                sub.env[p_["pat"]["v"]] = self.ev(a_, depth + 1)
        v = sub.ev(h["body"], depth + 1)
        return v if v[0] not in ("?", "call") else None

    def ev(self, n, depth=0):
        n = peel_block(peel(n))
        k = n.get("k")
        if depth > 20:
            return ("?",)
        if k == "Lit":
            return ("int", n["int"]) if "int" in n else ("lit",)
        if k == "Block":
            return self.ev(n["e"], depth + 1) if n.get("e") is not None else ("unit",)
        if k == "If":
            c = self.cond(n["c"])
            if c is None:
                return ("?",)
            br = n["t"] if c else n.get("f")
            return self.ev(br, depth + 1) if br is not None else ("unit",)
        if k == "Tuple":
            return ("tuple", [self.ev(e, depth + 1) for e in n["es"]])
        if k == "Var":
            return self.force(self.env.get(n["v"], ("?",)), depth + 1)
        if k == "Try":
            hv = self.helper_value(n["e"], depth)
            return hv if hv is not None else ("read",)
        if k == "Adt":
            if n.get("adt") == "core::result::Result" and n.get("variant") == "Ok" and n.get("fields"):
                return self.ev(n["fields"][0]["e"], depth + 1)
            if n.get("adt") == "core::option::Option":
                return ("None",) if n.get("variant") == "None" else ("Some",)
            if not n.get("fields"):
                return ("variant", n.get("variant"))
            return ("adt", n.get("adt"))
        if k == "Call":
            c = callee(n) or ""
            if c.endswith("Default::default") or c.endswith("::default"):
                return _default_of_type(n.get("ty", ""))
            if c.endswith(("Box::new", "::into", "::from")) and n.get("args"):
                return self.ev(n["args"][0], depth + 1)
            return ("read",) if "deserialize" in c or "read_" in c else ("call", c)
        if k == "Cast":
            return self.ev(n["e"], depth + 1)
        return ("?", k)


@rule("W8d", ["C13", "C05"], floor=7, doc="format 0: the fields that format 0 does not carry are filled with the neutral values (annotations None / false / "
      "Unknown) and the discriminant width with 1 - the width every format-0 enum was written with - so the decoded schema is the stored "
      "one minus memory-layout annotations")
def w8d(facts, tier):
    _, des = impl_pairs(facts)
    seen = {}
    for (ty, fid), (rf, rts) in sorted(des.items()):
        if ty not in SCHEMA_TYPES:
            continue
        ev_ = V0Eval(rf, facts)
        for x in walk(rf["body"]):
            if x.get("k") != "Adt" or not x.get("fields"):
                continue
            adt = x.get("adt", "")
            name = adt if adt in ("savefile::SchemaEnum", "savefile::SchemaStruct", "savefile::Field") else f"{adt}::{x.get('variant')}"
            for fl in x["fields"]:
                want = FORMAT0_DEFAULTS.get((name, str(fl["f"])))
                if want is None:
                    continue
                got = ev_.ev(fl["e"])
                site = f"{name}.{fl['f']}@{ty.split('::')[-1]}"
                key = site
                ok = got == want
                st = "pass" if ok else ("undecided" if got[0] in ("?", "call", "default") else "violation")
                seen[key] = ob(["C13", "C05"], "W8d", key, st, where(rf, x),
                               f"{rf['id']} at format 0: {name}.{fl['f']} = {got}" if ok else
                               f"{rf['id']} at file_version 0 sets {name}.{fl['f']} to {got}, format 0 means {want}: a schema section of an old "
                               f"file no longer decodes to the stored schema (it is then compared, and rejected, as a different schema)")
    yield from seen.values()
