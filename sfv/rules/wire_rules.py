"""E1 rules over the library impls: W1 (writer ⊆ reader), W2 (tag tables), W4 (containers)."""
from .. import rx, wire
from ..core import ob, rule, where

# writer-only types and the type whose reader is documented to read them back
WRITER_ONLY = {
    "&[$0]": "std::vec::Vec<$0>",
    "[$0]": "std::vec::Vec<$0>",
    "std::boxed::Box<[$0]>": "std::boxed::Box<[$0]>",
    "std::sync::Arc<[$0]>": "std::sync::Arc<[$0]>",
    "str": "std::string::String",
    "&str": "std::string::String",
    "&'a str": "std::string::String",
}


# the schema section is only ever *written* in library format >= 1 (format 0 is read-only legacy: rule W8)
SCHEMA_TYPES = {"savefile::Schema", "savefile::SchemaStruct", "savefile::SchemaEnum", "savefile::Variant", "savefile::Field",
                "savefile::SchemaArray", "savefile::SchemaPrimitive", "savefile::AbiMethodInfo", "savefile::AbiMethod",
                "savefile::AbiMethodArgument", "savefile::AbiTraitDefinition"}


def impl_pairs(facts, crate="savefile"):
    sers, des = {}, {}
    for f in facts.fns.values():
        im = f.get("impl")
        if not im or f["crate"] != crate:
            continue
        if im.get("trait") == "savefile::Serialize" and f.get("name") == "serialize":
            ts = wire.canon_generics(im["self_ty"], im["generics"])
            sers[(wire.subst_ty(im["self_ty"], ts), f["id"])] = (f, ts)
        if im.get("trait") == "savefile::Deserialize" and f.get("name") == "deserialize":
            ts = wire.canon_generics(im["self_ty"], im["generics"])
            des[(wire.subst_ty(im["self_ty"], ts), f["id"])] = (f, ts)
    return sers, des


def compare_pair(facts, wf, wts, rf, rts, W=None, min_version=0):
    """returns list of (env description, ok, word, lw, lr)"""
    W = W or wire.WireAnalysis(facts)
    lits, guards = W.probe([wf, rf], [wts, rts])
    res = []
    versions = W.version_classes(lits)
    if min_version:
        versions = [v for v in versions if v >= min_version] or [min_version]
    for v in versions:
        for g in W.guard_assignments(guards):
            lw, _, _, _ = W.lang(wf, v, g, wts)
            lr, _, _, _ = W.lang(rf, v, g, rts)
            ok, word, lw, lr = W.contains_modulo_expansion(lw, lr, v, g)
            res.append(({"version": v, "guards": {repr(k): val for k, val in g.items()}}, ok, word, lw, lr))
    return res


@rule("W1", ["C01", "C07"], floor=85, doc="every Serialize impl's wire language is contained in its Deserialize sibling's, "
      "for every version class and guard assignment")
def w1(facts, tier):
    sers, des = impl_pairs(facts)
    des_by_ty = {}
    for (ty, fid), v in des.items():
        des_by_ty.setdefault(ty, []).append(v)
    W = wire.WireAnalysis(facts)
    for (ty, fid), (wf, wts) in sorted(sers.items()):
        rty = ty if ty in des_by_ty else WRITER_ONLY.get(ty)
        cands = des_by_ty.get(rty, [])
        if not cands:
            # the reader may be generic over fewer (defaulted) parameters: pair by path head
            from .. import tys as _t
            h = _t.path_head(ty)
            cands = [v for t2, vs in des_by_ty.items() if h and _t.path_head(t2) == h for v in vs]
        # two versions of one crate (bit-vec 0.6/0.8) print alike: pair by ordinal suffix
        suffix = fid.split("~")[1] if "~" in fid else None
        if len(cands) > 1:
            cands = [c for c in cands if (c[0]["id"].split("~")[1] if "~" in c[0]["id"] else None) == suffix] or cands[:1]
        if not cands:
            yield ob(["C01"], "W1", f"no-reader:{ty}", "undecided", where(wf), f"no Deserialize sibling found for {ty}")
            continue
        rf, rts = cands[0]
        worst = None
        n_env = 0
        minv = 1 if ty in SCHEMA_TYPES else 0
        for envd, ok, word, lw, lr in compare_pair(facts, wf, wts, rf, rts, W, minv):
            n_env += 1
            if ok is not True and worst is None:
                worst = (envd, ok, word, lw, lr)
        key = ty + ("~" + suffix if suffix else "")
        if worst is None:
            yield ob(["C01", "C07"], "W1", key, "pass", where(wf), f"writer ⊆ reader in {n_env} environment(s)", environments=n_env)
        else:
            envd, ok, word, lw, lr = worst
            st = "violation" if ok is False else "undecided"
            yield ob(["C01", "C07"], "W1", key, st, where(wf),
                     f"writer {wf['id']} can emit [{rx.show_word(word)}] which reader {rf['id']} does not consume "
                     f"(env {envd}); writer: {rx.show(lw)} ; reader: {rx.show(lr)}",
                     writer=wf["id"], reader=rf["id"], env=envd, word=rx.show_word(word), lw=rx.show(lw), lr=rx.show(lr))
