"""Translation validation of the derive macro's output on the witness corpus (W5, W6, H1, H2) and the
Packed decision against the compiler's layout (P2, P3, P5)."""
import re

from .. import packed, rx, wire
from ..core import ob, rule, where
from ..ir import callee, peel, peel_block, walk
from ..rx import EPS, VOID, alt, ev, seq
from ..shape import Analyzer

SER = "savefile::Serialize"
DES = "savefile::Deserialize"


def impl_fn(facts, ty, trait, method):
    return facts.fns.get(f"<{ty} as {trait}>::{method}")


def family_canon(r):
    """evolution families: X_v3 -> X (a nested value is compared at its own level)"""
    def f(sym):
        if isinstance(sym, tuple) and sym[0] == "N":
            return ev(("N", re.sub(r"(sfcorpus::\w+::\w+?)_v\d+\b", r"\1", sym[1])))
        return ev(sym)
    return rx.subst(r, f)


def present(mf, v):
    return (not mf["ignore"]) and mf["from"] <= v and (mf["to"] is None or v <= mf["to"])


def model_writer_struct(m, v):
    """documented writer language of a derived struct at version v (None = diverges: a plain Removed field is present)"""
    out = []
    for mf in m["fields"]:
        if present(mf, v):
            if mf["removed"] == "Removed":
                return VOID
            out.append(ev(("N", mf["wire_ty"])))
    return seq(*out)


def model_reader_struct(m, v):
    out = []
    for mf in m["fields"]:
        if mf["ignore"]:
            continue
        if present(mf, v):
            out.append(ev(("N", mf["wire_ty"])))
        elif mf.get("conv") and mf["conv"]["from"] <= v <= mf["conv"]["to"]:
            out.append(ev(("N", mf["conv"]["old_ty"])))
    return seq(*out)


def model_enum(m, v, reader):
    w = packed.enum_wire_width(m)
    alts = []
    for i, mv in enumerate(m["variants"]):
        if mv["from"] > v:
            continue
        fs = []
        bad = False
        for mf in mv["fields"]:
            if present(mf, v):
                if mf["removed"] == "Removed" and not reader:
                    bad = True
                fs.append(ev(("N", mf["wire_ty"])))
        if bad:
            continue
        alts.append(seq(ev(("B", w, ("in", frozenset([i])), "LE")), *fs))
    return alt(*alts) if alts else VOID


def lang_of(W, facts, f, v, guards, side):
    l, _, _, an = W.lang(f, v, guards, {})
    l = wire.expand_regions(l, facts)
    return W.normalise(l, side, v, guards)


def lang_equal(W, a, b, v, g):
    a2, b2 = rx.minterm_expand([a, b])
    ok, w = rx.contains(a2, b2)
    if ok is not True:
        return ok, ("left", w)
    ok, w = rx.contains(b2, a2)
    if ok is not True:
        return ok, ("right", w)
    return True, None


def corpus_types(facts):
    return [t for t in facts.corpus_meta.get("types", []) if not t.get("generic")]


@rule("W5", ["C01", "C02", "C05", "C03", "C18", "C10"], floor=250, doc="derived Serialize/Deserialize of every corpus definition, at every version "
      "class and both Packed outcomes, produce exactly the documented field sequence (declaration order, version ranges, "
      "discriminant = variant index in the documented width)")
def w5(facts, tier):
    W = wire.WireAnalysis(facts)
    pe = packed.PackedEval(facts)

    def erase_zst(l):
        """a bulk copy of zero-sized elements moves no bytes"""
        def f_(sym):
            if isinstance(sym, tuple) and sym[0] in ("BULK", "RAW1") and len(sym) > 1 and (facts.layouts.get(sym[1]) or {}).get("size") == 0:
                return rx.EPS
            return rx.ev(sym)
        return rx.subst(l, f_)
    for m in corpus_types(facts):
        ty = m["id"]
        wf, rf = impl_fn(facts, ty, SER, "serialize"), impl_fn(facts, ty, DES, "deserialize")
        if wf is None or rf is None:
            yield ob(["C01"], "W5", f"missing-impl:{ty}", "violation", "", f"derive produced no Serialize/Deserialize impl for {ty}")
            continue
        cur = m.get("cur_version", 0)
        bad = None
        n_env = 0
        for v in range(0, cur + 2):
            if m["kind"] == "struct":
                mw, mr = model_writer_struct(m, v), model_reader_struct(m, v)
            else:
                mw, mr = model_enum(m, v, False), model_enum(m, v, True)
            mw = erase_zst(W.normalise(mw, "w", v, {}))
            mr = erase_zst(W.normalise(mr, "r", v, {}))
            for pk in (False, True):
                if pk and pe.decide(ty, v) is False:
                    continue   # the decision cannot say yes here (that it must not is rule P2)
                g = {("Packed", ty): pk}
                n_env += 1
                lw = erase_zst(lang_of(W, facts, wf, v, g, "w"))
                ok, info = lang_equal(W, lw, mw, v, g)
                if ok is not True and bad is None:
                    bad = ("writer", v, pk, info, lw, mw)
                lr = erase_zst(lang_of(W, facts, rf, v, g, "r"))
                if m["kind"] == "enum":
                    # a reader may also accept variants that no writer of this version produces
                    a2, b2 = rx.minterm_expand([mr, lr])
                    ok, wd = rx.contains(a2, b2)
                    info = ("right", wd)
                    if ok is True:
                        mall = W.normalise(model_enum(dict(m, variants=[dict(x, **{"from": 0}) for x in m["variants"]]), v, True), "r", v, {})
                        a2, b2 = rx.minterm_expand([lr, mall])
                        ok, wd = rx.contains(a2, b2)
                        info = ("left", wd)
                else:
                    ok, info = lang_equal(W, lr, mr, v, g)
                if ok is not True and bad is None:
                    bad = ("reader", v, pk, info, lr, mr)
        props = ["C01", "C02", "C05"] + (["C03", "C18", "C10"] if m.get("family", "").startswith("EVO") or cur > 0 else [])
        if bad is None:
            yield ob(props, "W5", ty, "pass", where(wf), f"writer and reader = documented sequence in {n_env} environments",
                     program=ty, environments=n_env)
        else:
            who, v, pk, info, l, mdl = bad
            side, word = info
            msg = (f"derived {who} of {ty} at version {v} (Packed={pk}): " +
                   (f"emits/consumes [{rx.show_word(word)}] which the documented format does not contain" if side == "left"
                    else f"documented word [{rx.show_word(word)}] is not produced/accepted") +
                   f"; generated: {rx.show(l)[:300]} ; documented: {rx.show(mdl)[:300]}")
            yield ob(props, "W5", ty, "violation", where(wf), msg, program=ty, version=v, packed=pk)


# ---------------------------------------------------------------------------------------------
# W6: field flow of the derived struct reader: each field is initialised from the right source

def field_source(an, expr, env, lets=None):
    """('read', T) | ('conv', fn, T) | ('default', kind, detail) | ('?',)"""
    e = peel_block(expr)
    k = e.get("k")
    lets = dict(lets or {})
    if k == "Block" and e.get("e") is not None and all(s["k"] == "LetS" and s["pat"].get("k") == "Bind" and s.get("init")
                                                       for s in e["stmts"]):
        for s in e["stmts"]:
            lets[s["pat"]["v"]] = field_source(an, s["init"], env, lets)
        return field_source(an, e["e"], env, lets)
    if k == "Var" and e["v"] in lets:
        return lets[e["v"]]
    if k == "Try":
        return field_source(an, e["e"], env)
    if k == "If":
        _, vc = an.expr(e["c"], dict(env))
        c = an.cond(vc, env)
        if c is True:
            return field_source(an, e["t"], env, lets)
        if c is False:
            return field_source(an, e["f"], env, lets) if e.get("f") else ("?",)
        return ("?cond",)
    if k == "Call":
        c = callee(e)
        if c == "savefile::Deserialize::deserialize":
            return ("read", e["self_ty"])
        if c == "core::default::Default::default":
            return ("default", "Default", e.get("self_ty"))
        if c in ("savefile::Removed::new", "savefile::AbiRemoved::new"):
            return ("default", "Removed", None)
        if c in ("core::result::Result::expect", "core::result::Result::unwrap") and e["args"]:
            inner = peel(e["args"][0])
            if inner.get("k") == "Call" and (callee(inner) or "").endswith("str::parse") and inner["args"]:
                lit = peel(inner["args"][0])
                if lit.get("k") == "Lit" and "str" in lit:
                    return ("default", "val", lit["str"])
            return ("?",)
        if c in ("core::convert::From::from", "core::convert::Into::into") and e["args"]:
            inner = field_source(an, e["args"][0], env, lets)
            if inner[0] == "read":
                return ("conv", "From", inner[1])
            return inner
        if e["args"]:
            inner = field_source(an, e["args"][0], env, lets)
            if inner[0] == "read":
                return ("conv", (e.get("fn") or "").split("::")[-1], inner[1])
        if not e["args"]:
            return ("default", "fn", (e.get("fn") or "").split("::")[-1])
        return ("?",)
    if k == "Lit":
        return ("default", "val", str(e.get("int", e.get("str", e.get("float")))))
    if k == "Un" and e["e"].get("k") == "Lit":
        return ("default", "val", "-" + str(e["e"].get("int")))
    if k == "Cast":
        return field_source(an, e["e"], env)
    return ("?",)


def find_struct_literal(body, adt):
    from ..ir import walk
    for x in walk(body):
        if x.get("k") == "Adt" and x.get("adt") == adt:
            return x
    return None


@rule("W6", ["C03", "C01"], floor=150, doc="field flow of derived struct readers: at every file version each field is initialised by a read "
      "of its (historical) wire type, by the documented conversion of the old type, or by exactly the documented default")
def w6(facts, tier):
    for m in corpus_types(facts):
        if m["kind"] != "struct":
            continue
        ty = m["id"]
        rf = impl_fn(facts, ty, DES, "deserialize")
        if rf is None:
            continue
        lit = find_struct_literal(rf["body"], ty)
        if lit is None:
            if m["fields"]:
                yield ob(["C03"], "W6", ty, "undecided", where(rf), "struct literal not found in the derived reader")
            continue
        by_name = {f["f"]: f["e"] for f in lit["fields"]}
        cur = m.get("cur_version", 0)
        bad = None
        checked = 0
        for v in range(0, cur + 2):
            an = Analyzer(facts, wire.wire_classifier)
            env = {"$ver": v, "$guards": {}, "$tsub": {}}
            for mf in m["fields"]:
                e = by_name.get(mf["name"])
                if e is None:
                    bad = bad or (v, mf["name"], "field not initialised in the struct literal", None)
                    continue
                src = field_source(an, e, env)
                checked += 1
                if mf["ignore"]:
                    want = ("default",)
                elif present(mf, v):
                    want = ("read", mf["ty"])
                elif mf.get("conv") and mf["conv"]["from"] <= v <= mf["conv"]["to"]:
                    want = ("conv", mf["conv"]["fn"] or "From", mf["conv"]["old_ty"])
                elif mf["removed"]:
                    want = ("default", "Removed", None)
                elif mf["default"]:
                    want = ("default", mf["default"][0], mf["default"][1])
                else:
                    want = ("default", "Default", mf["ty"])
                ok = src[:len(want)] == want if want != ("default",) else src[0] == "default"
                if want[0] == "default" and len(want) == 3 and want[1] == "val":
                    ok = src[0] == "default" and src[1] == "val" and str(src[2]) == str(want[2])
                if not ok and bad is None:
                    bad = (v, mf["name"], f"initialised from {src}, documented: {want}", None)
        props = ["C03", "C01"]
        if bad is None:
            yield ob(props, "W6", ty, "pass", where(rf), f"{checked} field initialisations match the documented sources", program=ty)
        else:
            v, fname, msg, _ = bad
            yield ob(props, "W6", ty, "violation", where(rf), f"derived reader of {ty} at file version {v}: field `{fname}` {msg}",
                     program=ty, version=v, field=fname)


# ---------------------------------------------------------------------------------------------
# H1 (C03): the reader of every later definition, at file version k, consumes what the version-k definition wrote
# H2 (C18): the writer of a later definition, told to write version k, emits the version-k layout

@rule("H1", ["C03", "C05"], floor=80, doc="for every evolution history and every pair k <= j: the reader derived from the version-j definition, "
      "specialised to file version k, consumes exactly the language the version-k definition's writer produces (= the timeline model)")
def h1(facts, tier):
    W = wire.WireAnalysis(facts)
    pe = packed.PackedEval(facts)
    for h in facts.corpus_meta.get("histories", []):
        types = h["types"]
        bad = None
        pairs = 0
        for k in range(len(types)):
            model_k = family_canon(W.normalise(seq(*[ev(("N", f["ty"])) for f in h["wire"][k]]), "w", k, {}))
            wf = impl_fn(facts, types[k], SER, "serialize")
            if wf is None:
                bad = bad or (k, k, "missing writer", None, None)
                continue
            for pk in (False, True):
                if pk and pe.decide(types[k], k) is False:
                    continue
                lw = family_canon(lang_of(W, facts, wf, k, {("Packed", types[k]): pk}, "w"))
                ok, info = lang_equal(W, lw, model_k, k, {})
                if ok is not True and bad is None:
                    bad = (k, k, f"writer of the version-{k} definition (Packed={pk}) does not produce the timeline's version-{k} layout", lw, model_k)
            for j in range(k, len(types)):
                rf = impl_fn(facts, types[j], DES, "deserialize")
                if rf is None:
                    continue
                pairs += 1
                lr = family_canon(lang_of(W, facts, rf, k, {}, "r"))
                mr = family_canon(W.normalise(model_k, "r", k, {}))
                ok, info = lang_equal(W, lr, mr, k, {})
                if ok is not True and bad is None:
                    bad = (k, j, f"reader of the version-{j} definition at file version {k} does not consume the version-{k} layout", lr, mr)
        key = h["name"]
        if bad is None:
            yield ob(["C03", "C05"], "H1", key, "pass", "", f"history {h['script']}: {pairs} (saved, loaded) version pairs agree", program=key, pairs=pairs)
        else:
            k, j, msg, l, mdl = bad
            yield ob(["C03", "C05"], "H1", key, "violation", "", f"history {h['name']} {h['script']}: {msg}; generated: "
                     f"{rx.show(l)[:200] if l else '-'} ; documented: {rx.show(mdl)[:200] if mdl else '-'}", program=key, saved=k, loaded=j)


@rule("H2", ["C18", "C10"], floor=60, doc="for every evolution history and k < n: the writer derived from the newest definition, told to write version k, "
      "emits the version-k layout (later fields omitted, AbiRemoved fields filled from their value constructor), or diverges when "
      "a plain Removed field would have to be written")
def h2(facts, tier):
    W = wire.WireAnalysis(facts)
    pe = packed.PackedEval(facts)
    meta = {t["id"]: t for t in facts.corpus_meta.get("types", [])}
    for h in facts.corpus_meta.get("histories", []):
        if any(step[0] == "retype" for step in h["script"]):
            continue   # C18 quantifies over field addition and removal only
        types = h["types"]
        n = len(types) - 1
        bad = None
        cnt = 0
        for j in range(1, n + 1):
            wf = impl_fn(facts, types[j], SER, "serialize")
            mj = meta[types[j]]
            for k in range(0, j):
                cnt += 1
                plain_removed = any(present(mf, k) and mf["removed"] == "Removed" for mf in mj["fields"])
                model_k = VOID if plain_removed else family_canon(W.normalise(seq(*[ev(("N", f["ty"])) for f in h["wire"][k]]), "w", k, {}))
                for pk in (False, True):
                    if pk and pe.decide(types[j], k) is False:
                        continue   # the raw path cannot be taken at this version (that it must not is rule P2)
                    lw = family_canon(lang_of(W, facts, wf, k, {("Packed", types[j]): pk}, "w"))
                    ok, info = lang_equal(W, lw, model_k, k, {})
                    if ok is not True and bad is None:
                        bad = (j, k, lw, model_k)
        key = h["name"]
        if bad is None:
            yield ob(["C18", "C10"], "H2", key, "pass", "", f"history {h['script']}: {cnt} (current, written) version pairs agree", program=key, pairs=cnt)
        else:
            j, k, l, mdl = bad
            yield ob(["C18", "C10"], "H2", key, "violation", "", f"history {h['name']} {h['script']}: the version-{j} definition writing version {k} "
                     f"emits {rx.show(l)[:200]} ; documented version-{k} layout: {rx.show(mdl)[:200]}", program=key, current=j, written=k)


# ---------------------------------------------------------------------------------------------
# P2 / P5: the Packed decision against the compiler's layout

@rule("P2", ["C04", "C01", "C02", "C12", "C18", "C10", "C03"], floor=250, doc="whenever repr_c_optimization_safe(v) can answer yes for a corpus type, rustc's layout of the type is "
      "byte-identical to its field-by-field encoding at v (fields in wire order, contiguous from 0 to size_of, no padding, tag = "
      "variant index in the wire width, every wire field present in memory and vice versa)")
def p2(facts, tier):
    pe = packed.PackedEval(facts)
    orc = packed.Oracle(facts)
    for m in corpus_types(facts):
        ty = m["id"]
        cur = m.get("cur_version", 0)
        bad = None
        und = None
        yes = 0
        for v in range(0, cur + 2):
            d = pe.decide(ty, v)
            if d is None:
                und = v
                continue
            if d:
                yes += 1
                ok, why = orc.ok(ty, v)
                if not ok and bad is None:
                    bad = (v, why)
        props = ["C04", "C01", "C02", "C12"] + (["C18", "C10", "C03"] if cur > 0 else [])
        if bad:
            v, why = bad
            root = root_cause(pe, orc, ty, v)
            yield ob(props, "P2", ty, "violation", where_ty(facts, ty),
                     f"Packed decision for {ty} at version {v} is YES but the memory image differs from the wire encoding: {why}"
                     + (f" [root cause: {root}]" if root else ""), program=ty, version=v, root=root)
        elif und is not None:
            yield ob(props, "P2", ty, "undecided", where_ty(facts, ty), f"decision at version {und} not evaluable (tuple / foreign pointer arithmetic)",
                     program=ty)
        else:
            yield ob(props, "P2", ty, "pass", where_ty(facts, ty), f"decision yes at {yes} version(s), each confirmed by the layout oracle; "
                     f"no at the others", program=ty, nontrivial=True)


def where_ty(facts, ty):
    a = facts.adts.get(ty)
    return f"{a['file']}:{a['line']}" if a else ""


def root_cause(pe, orc, ty, v, depth=0):
    """the innermost type for which the decision is yes and the oracle no"""
    lay = orc.layout(ty)
    if lay is None or depth > 6:
        return ty
    subs = []
    if lay.get("kind") == "array":
        subs = [lay["elem"]]
    else:
        subs = [f["ty"] for f in lay.get("fields", [])]
        for vr in lay.get("variants", []) or []:
            subs += [f["ty"] for f in vr.get("fields", [])]
    for s in subs:
        if pe.decide(s, v) and not orc.ok(s, v)[0]:
            return root_cause(pe, orc, s, v, depth + 1)
    return ty


@rule("P5", ["C06"], floor=3, doc="a type whose bit patterns are restricted (bool, char, enums) is never declared bulk-copyable: otherwise a "
      "bulk read of untrusted bytes manufactures invalid values")
def p5(facts, tier):
    pe = packed.PackedEval(facts)
    orc = packed.Oracle(facts)
    causes = {}
    examined = 0
    for m in corpus_types(facts):
        ty = m["id"]
        for v in (0, m.get("cur_version", 0)):
            if pe.decide(ty, v):
                examined += 1
                ok, why = orc.all_bits_valid(ty)
                if not ok:
                    causes.setdefault(why, []).append(ty)
    for prim in ("bool", "char", "u8", "u32", "f32"):
        if pe.decide(prim, 0):
            examined += 1
            ok, why = orc.all_bits_valid(prim)
            if not ok:
                causes.setdefault(why, []).append(prim)
    for why in ("bool", "char", "derived-enum"):
        ws = sorted(set(causes.get(why, [])))
        if ws:
            yield ob(["C06"], "P5", why, "violation", "",
                     f"types containing a `{why}` are declared bulk-copyable (e.g. {', '.join(ws[:4])}): Vec<T>/[T;N]/Box<[T]> of them "
                     f"are filled by a raw read of untrusted bytes, producing values outside the type's valid range (undefined behaviour)",
                     witnesses=ws[:20])
        else:
            yield ob(["C06"], "P5", why, "pass", "", f"no bulk-copyable corpus type contains a `{why}` ({examined} yes-decisions examined)")
    for why, ws in causes.items():
        if why not in ("bool", "char", "derived-enum"):
            yield ob(["C06"], "P5", "other:" + why, "violation", "", f"bulk-copyable types with restricted bit patterns: {sorted(set(ws))[:6]}")


# ---------------------------------------------------------------------------------------------
# P3: raw memory events only under the Packed guard

RAW = ("BULK", "RAW1", "REGION")


def region_why(facts, orc, sym, ver):
    """None if the partial region is legal, else the reason it is not"""
    _, full, variant, f1, f2 = sym
    lay = facts.layouts.get(full)
    if not lay or f1 is None or f2 is None:
        return "no layout / open-ended region"
    fields = lay.get("fields")
    if variant is not None:
        fields = next((v.get("fields") for v in lay.get("variants", []) if v["name"] == variant), None)
    if not fields:
        return "no fields"
    names = [x["name"] for x in fields]
    if f1 not in names or f2 not in names:
        return f"fields {f1}/{f2} not in the layout"
    run = fields[names.index(f1):names.index(f2) + 1]
    pos = run[0]["offset"]
    for x in run:
        if x["offset"] != pos:
            return f"field {x['name']} is at offset {x['offset']}, the run reaches it at {pos} (padding or reordering)"
        ok, why = orc.ok(x["ty"], ver)
        if not ok:
            return f"field {x['name']}: {x['ty']} is not stored as it is written ({why})"
        pos += x["size"]
    return None


def region_ok(facts, orc, sym, ver):
    return region_why(facts, orc, sym, ver) is None


@rule("P3", ["C04", "C01", "C02"], floor=300, doc="every raw memory write/read (bulk slice, raw_write_region) of every library and derived impl lies in a branch "
      "guarded by the Packed decision of that type: with all guards false no raw event is reachable, and writer and reader "
      "branch on the same guard")
def p3(facts, tier):
    W = wire.WireAnalysis(facts)
    orc = packed.Oracle(facts)
    for f in facts.fns.values():
        im = f.get("impl")
        if not im or im.get("trait") not in (SER, DES) or f.get("name") not in ("serialize", "deserialize") or "~" in f["id"]:
            continue
        ts = wire.canon_generics(im["self_ty"], im["generics"])
        lits, guards = W.probe([f], [ts])
        g0 = {g: False for g in guards}
        l, _, _, _ = W.lang(f, 0, g0, ts, expand=False)
        raws = [s for s in rx.symbols(l) if isinstance(s, tuple) and s[0] in RAW]
        # a partial region guarded by the pairwise adjacency test (evaluated here from rustc's layout) is legal iff the
        # run of fields really is contiguous in declaration order and every field type is itself byte-identical
        raws = [s for s in raws if not (s[0] == "REGION" and region_ok(facts, orc, s, 0))]
        key = f["id"]
        if raws:
            if raws[0][0] == "REGION":
                yield ob(["C04", "C01", "C02"], "P3", key, "violation", where(f),
                         f"{f['id']}: the run of fields {raws[0][3]}..{raws[0][4]} is written with one raw copy of memory (the type as a whole is not "
                         f"Packed), but {region_why(facts, orc, raws[0], 0)}: the bytes differ from the field-by-field encoding that the reader consumes")
            else:
                yield ob(["C04", "C01", "C02"], "P3", key, "violation", where(f), f"{f['id']}: raw memory event {raws[0]} is reachable although every Packed "
                         f"decision answers no (guards: {sorted(map(repr, guards))})")
        else:
            l1, _, _, _ = W.lang(f, 0, {g: True for g in guards}, ts, expand=False)
            has_raw = any(isinstance(s, tuple) and s[0] in RAW for s in rx.symbols(l1))
            yield ob(["C04", "C01", "C02"], "P3", key, "pass", where(f), "no raw event without a Packed yes" +
                     (f"; raw path guarded by {sorted(map(repr, guards))}" if has_raw else ""), nontrivial=has_raw)


# ---------------------------------------------------------------------------------------------
# P8 (C06): derived readers never fill a value with restricted bit patterns from raw stream bytes

@rule("P8", ["C06"], floor=300, doc="a derived Deserialize impl fills memory from raw stream bytes (bulk read / region read) only for types of which "
      "every bit pattern is a valid value; bool, char and enum fields of a stand-alone value are always read through their checked readers")
def p8(facts, tier):
    W = wire.WireAnalysis(facts)
    orc = packed.Oracle(facts)
    for m in corpus_types(facts):
        ty = m["id"]
        f = impl_fn(facts, ty, DES, "deserialize")
        if f is None:
            continue
        im = f["impl"]
        ts = wire.canon_generics(im["self_ty"], im["generics"])
        lits, guards = W.probe([f], [ts])
        bad = None
        nraw = 0
        for v in sorted(set([0, m.get("cur_version", 0)])):
            l, _, _, _ = W.lang(f, v, {g: True for g in guards}, ts, expand=False)
            raws = [s for s in rx.symbols(l) if isinstance(s, tuple) and s[0] in RAW]
            nraw += len(raws)
            for s in raws:
                target = s[1] if len(s) > 1 and isinstance(s[1], str) else ty
                ok, why = orc.all_bits_valid(target if target in facts.layouts else ty)
                if not ok and bad is None:
                    bad = (v, s, why)
        if bad:
            v, s, why = bad
            yield ob(["C06"], "P8", ty, "violation", where(f), f"derived reader of {ty} (version {v}) fills memory with raw stream bytes ({s[0]}) although "
                     f"the filled type contains a `{why}`: untrusted bytes become invalid values (undefined behaviour) instead of an error")
        else:
            yield ob(["C06"], "P8", ty, "pass", where(f), "no raw read" if not nraw else f"{nraw} raw read(s), each of a type whose every bit pattern is valid",
                     nontrivial=bool(nraw))


# ---------------------------------------------------------------------------------------------
# P6 (C11): the layout facts recorded in derived schemas are the compiler's facts

def str_lit(n):
    for x in walk_(n):
        if x.get("k") == "Lit" and "str" in x:
            return x["str"]
    return None


def walk_(n):
    from ..ir import walk
    return walk(n)


def some_const(n):
    n = peel_block(peel(n))
    if n.get("k") == "Adt" and n.get("variant") == "Some" and n["fields"]:
        v = peel_block(peel(n["fields"][0]["e"]))
        while v.get("k") == "Block" and v.get("e"):
            v = peel_block(peel(v["e"]))
        if v.get("k") in ("ConstBlock", "Const", "Lit"):
            return v.get("val", v.get("int"))
        if v.get("k") == "Call" and callee(v) in ("core::mem::size_of", "core::mem::align_of"):
            return (callee(v).rsplit("::", 1)[-1], v["targs"][0])
    if n.get("k") == "Adt" and n.get("variant") == "None":
        return "None"
    return "?"


@rule("P6", ["C11"], floor=200, doc="layout facts recorded in derived schemas are rustc's facts: size_of/align_of are taken of Self, each field's recorded "
      "offset is that field's offset in layout_of(Self), the discriminant width is the tag's, and an enum that claims an explicit repr "
      "records its real discriminant values")
def p6(facts, tier):
    from ..flow import parent_map
    from ..ir import walk
    for m in corpus_types(facts):
        ty = m["id"]
        sf = impl_fn(facts, ty, "savefile::WithSchema", "schema")
        lay = facts.layouts.get(ty)
        if sf is None or lay is None:
            continue
        bad = []
        checked = 0
        pm = parent_map(sf["body"])
        fcalls = [y for y in walk(sf["body"]) if y.get("k") == "Call" and (callee(y) or "") == "savefile::Field::unsafe_new"]
        field_ord = {id(y): i for i, y in enumerate(fcalls)}
        n_field_calls = len(fcalls)
        for x in walk(sf["body"]):
            if x.get("k") != "Call":
                continue
            c = callee(x) or ""
            if c in ("savefile::SchemaStruct::new_unsafe", "savefile::SchemaEnum::new_unsafe"):
                sz, al = some_const(x["args"][-2]), some_const(x["args"][-1])
                checked += 2
                if sz != ("size_of", ty):
                    bad.append(f"recorded size is {sz}, not size_of::<Self>()")
                if al != ("align_of", ty):
                    bad.append(f"recorded alignment is {al}, not align_of::<Self>()")
                if c.endswith("SchemaEnum::new_unsafe") and len(x["args"]) >= 6:
                    w = peel(x["args"][2])
                    explicit = peel(x["args"][3])
                    wv = w.get("int") if w.get("k") == "Lit" else None
                    ev_ = explicit.get("int") if explicit.get("k") == "Lit" else None
                    checked += 1
                    tagw = {"u8": 1, "i8": 1, "u16": 2, "i16": 2, "u32": 4, "i32": 4, "u64": 8, "i64": 8, "isize": 8, "usize": 8}.get(
                        (lay.get("tag") or {}).get("prim"))
                    if ev_:
                        # recorded discriminants vs actual
                        rec = {}
                        for y in walk(x):
                            if y.get("k") == "Adt" and y.get("adt") == "savefile::Variant":
                                nm = d = None
                                for fl in y["fields"]:
                                    if fl["f"] == "name":
                                        nm = str_lit(fl["e"])
                                    if fl["f"] == "discriminant":
                                        dd = peel(fl["e"])
                                        d = dd.get("int") if dd.get("k") == "Lit" else None
                                rec[nm] = d
                        for lv in lay.get("variants", []):
                            checked += 1
                            if lv["name"] in rec and rec[lv["name"]] is not None and rec[lv["name"]] != lv["discr"]:
                                bad.append(f"variant {lv['name']}: schema records discriminant {rec[lv['name']]}, memory holds {lv['discr']} "
                                           f"(explicit repr claimed): two sides with different explicit values compare as layout-compatible")
            if c == "savefile::Field::unsafe_new" and len(x["args"]) == 3:
                name = str_lit(x["args"][0])
                off = some_const(x["args"][2])
                # which variant?
                variant = None
                for a in ancestors_(pm, x):
                    if a.get("k") == "Adt" and a.get("adt") == "savefile::Variant":
                        for fl in a["fields"]:
                            if fl["f"] == "name":
                                variant = str_lit(fl["e"])
                        break
                fields = lay.get("fields")
                if variant is not None:
                    fields = next((v.get("fields") for v in lay.get("variants", []) if v["name"] == variant), None)
                lf = next((f for f in (fields or []) if f["name"] == name), None)
                if variant is None and m.get("kind") == "struct":
                    # the k-th field the schema describes is the k-th field of the definition that is not ignored (names are
                    # not significant, so the field is identified by its position, not by the name the schema gives it)
                    decl = [fl_ for fl_ in m.get("fields", []) if not fl_.get("ignore")]
                    k_ = field_ord.get(id(x))
                    if k_ is not None and len(decl) == n_field_calls and k_ < len(decl):
                        lf = next((f for f in (fields or []) if f["name"] == decl[k_]["name"]), lf)
                if off in ("None", "?") or lf is None:
                    continue   # unknown / computed at run time (enum variant fields): nothing recorded statically
                checked += 1
                if off != lf["offset"]:
                    bad.append(f"field {variant + '.' if variant else ''}{name}: schema records offset {off}, layout_of says {lf['offset']}")
        if bad:
            yield ob(["C11"], "P6", ty, "violation", where(sf), f"{ty}: " + "; ".join(bad[:3]), program=ty)
        elif checked:
            yield ob(["C11"], "P6", ty, "pass", where(sf), f"{checked} recorded layout facts equal the compiler's", program=ty)


def ancestors_(pm, n):
    p = pm.get(id(n))
    while p is not None:
        yield p
        p = pm.get(id(p))


@rule("CB", ["C01", "C02", "C03", "C04", "C06", "C09", "C10", "C11", "C12", "C17", "C18"], floor=1, doc="the witness corpus (documented uses of #[derive(Savefile)] "
      "and #[savefile_abi_exportable] over the enumerated definitions) compiles against /repo's current macros, including rustc's "
      "compile-time evaluation of the generated constants")
def cb(facts, tier):
    err = getattr(facts, "corpus_build_error", None)
    if err:
        import re as _re
        m = _re.search(r"(error(\[E\d+\])?: .*?)(?:\n\n|$)", err, _re.S)
        first = (m.group(1) if m else err[:600]).strip()
        yield ob(["C01", "C02", "C03", "C04", "C06", "C09", "C10", "C11", "C12", "C17", "C18"], "CB", "corpus-builds", "violation", "",
                 "the witness corpus no longer compiles against the macros of /repo (rustc rejects generated code for a documented "
                 "definition): " + first[:900], rustc=err[-3000:])
    else:
        yield ob(["C01", "C02", "C03", "C04", "C06", "C09", "C10", "C11", "C12", "C17", "C18"], "CB", "corpus-builds", "pass", "",
                 f"{len(facts.corpus_meta.get('types', []))} corpus definitions and {len(facts.corpus_meta.get('traits', [])) or 6} traits compile")


@rule("P7", ["C04", "C03", "C01"], floor=3, doc="the Packed decision is taken afresh, for the file version at hand, wherever it guards a raw copy: no function of "
      "the library that asks repr_c_optimization_safe touches a static, a thread-local or a cache (a memoised answer is the answer for "
      "the version of the first call, not of this file)")
def p7(facts, tier):
    for f in sorted(facts.fns_of_crate("savefile"), key=lambda g: g["id"]):
        body = f.get("body")
        if not body:
            continue
        asks = [x for x in walk(body) if x.get("k") == "Call" and (callee(x) or "").endswith("repr_c_optimization_safe")]
        if not asks:
            continue
        im = f.get("impl") or {}
        if im.get("trait") == "savefile::Packed":
            continue       # the decision functions themselves (pure by construction: checked by P2's evaluator)
        state = []
        for x in walk(body):
            if x.get("k") == "Static":
                state.append("static " + str(x.get("id")))
            if x.get("k") == "Call":
                c = callee(x) or ""
                if "LocalKey" in c or c.endswith(("OnceCell::get_or_init", "OnceLock::get_or_init", "Lazy::force")):
                    state.append(c)
        # the version argument is the (de)serializer's own file_version
        args_ok = True
        for a in asks:
            if a.get("args"):
                arg = peel(a["args"][0])
                ok_arg = (arg.get("k") == "Field" and arg.get("f") == "file_version") or arg.get("k") == "Var"
                args_ok = args_ok and ok_arg
        key = f["id"]
        yield ob(["C04", "C03", "C01"], "P7", key, "violation" if state else ("pass" if args_ok else "undecided"), where(f, asks[0]),
                 f"{f['id']}: asks the Packed decision directly, for the version it is handed" if not state else
                 f"{f['id']}: the Packed decision is combined with shared state ({state[0]}): the answer obtained for one file version is "
                 f"reused for files of another version, and a Vec/array of an evolved struct is bulk-copied with the wrong layout")


# ---------------------------------------------------------------------------------------------
# H3 (C03): every declared conversion of a field is applied, each under its own version range

@rule("H3", ["C03"], floor=2, doc="a field with two `savefile_versions_as` ranges of the same stored type but different conversion functions "
      "(corpus type conv2::Conv2): the derived reader calls each conversion, and the two calls are guarded by different version tests - "
      "adjoining ranges are not merged into one that applies the first conversion to both")
def h3(facts, tier):
    f = facts.fns.get("<sfcorpus::conv2::Conv2 as savefile::Deserialize>::deserialize")
    if f is None:
        yield ob(["C03"], "H3", "anchor", "violation", "", "derived reader of sfcorpus::conv2::Conv2 not found")
        return
    from ..flow import parent_map
    pm = parent_map(f["body"])
    guards = {}
    for name in ("tenths_to_units", "hundredths_to_units"):
        site = next((x for x in walk_(f["body"]) if x.get("k") == "Call" and (callee(x) or "").endswith("conv2::" + name)), None)
        lits = None
        if site is not None:
            lits = []
            p, ch = pm.get(id(site)), site
            while p is not None:
                if p.get("k") == "If" and ch is not p.get("c"):
                    lits.append((tuple(sorted(y["int"] for y in walk_(p["c"]) if y.get("k") == "Lit" and "int" in y)), ch is p.get("t")))
                ch, p = p, pm.get(id(p))
        guards[name] = lits
        yield ob(["C03"], "H3", name, "pass" if site is not None else "violation", where(f, site) if site is not None else where(f),
                 f"the reader applies {name} (guards {lits})" if site is not None else
                 f"the derived reader of Conv2 never calls {name}: files of the version range it was declared for are read through another "
                 f"conversion (or none) - a stored 150 hundredths loads as 15 instead of 1")
    if all(v is not None for v in guards.values()):
        same = guards["tenths_to_units"] == guards["hundredths_to_units"]
        yield ob(["C03"], "H3", "distinct-ranges", "violation" if same else "pass", where(f),
                 "both conversions are applied under the same version tests" if same else "the two conversions are applied under different version tests")
