"""S1/S2 (C17): for every Introspect impl, the number of children served by introspect_child (as a function of the
container's length) is the number reported by introspect_len; literal child chains are 0,1,..,k-1 without gaps."""
from ..core import ob, rule, where
from ..ir import callee, peel, peel_block, walk

TRAIT = "savefile::Introspect"


def index_vars(f):
    """(index variable, {derived var: divisor})"""
    ps = f["params"]
    if len(ps) < 2 or not ps[1].get("pat") or ps[1]["pat"].get("k") != "Bind":
        return None, {}
    idx = ps[1]["pat"]["v"]
    derived = {idx: 1}
    for x in walk(f["body"]):
        if x.get("k") == "LetS" and x["pat"].get("k") == "Bind" and x.get("init"):
            i = peel(x["init"])
            if i.get("k") == "Bin" and i["op"] == "Div" and is_var(i["l"], idx):
                r = peel(i["r"])
                if r.get("k") == "Lit" and "int" in r:
                    derived[x["pat"]["v"]] = r["int"]
            if i.get("k") == "Var" and i["v"] == idx:
                derived[x["pat"]["v"]] = 1
    return idx, derived


def is_var(n, v):
    n = peel(n)
    while isinstance(n, dict) and n.get("k") == "Cast":
        n = peel(n["e"])
    return isinstance(n, dict) and n.get("k") == "Var" and n["v"] == v


def var_of(n):
    n = peel(n)
    while isinstance(n, dict) and n.get("k") == "Cast":
        n = peel(n["e"])
    return n["v"] if isinstance(n, dict) and n.get("k") == "Var" else None


BOUNDED = ("::nth", "::get", "::index", "::get_index", "::get_mut")


def split_by_variant(f):
    """if the body dispatches on the variant of `self`: {variant name: arm body}"""
    ps = f["params"]
    if not ps or not ps[0].get("pat") or ps[0]["pat"].get("k") != "Bind":
        return None
    selfv = ps[0]["pat"]["v"]
    for x in walk(f["body"]):
        if x.get("k") == "Match" and is_var(x["e"], selfv) and x["arms"] and all(a["pat"].get("k") == "Variant" for a in x["arms"]):
            return {a["pat"]["variant"]: a["body"] for a in x["arms"]}
    return None


def recv_path(f, n):
    """the container an accessor is applied to, as a path from `self` (let-bound aliases resolved; a value obtained from a
    non-view call keeps the call's name: self.as_slices().0 is a different container than self)"""
    from ..ir import path_of, DEREF_LIKE
    lets = {}
    for x in walk(f["body"]):
        if x.get("k") == "LetS" and x.get("init") is not None:
            if x["pat"].get("k") == "Bind":
                lets[x["pat"]["v"]] = (x["init"], None)
            elif x["pat"].get("k") in ("Leaf", "Tuple"):
                for i, sp in enumerate(x["pat"].get("subs", [])):
                    q = sp.get("p", sp) if isinstance(sp, dict) else sp
                    if isinstance(q, dict) and q.get("k") == "Bind":
                        lets[q["v"]] = (x["init"], str(i))

    def go(n, depth=0):
        n = peel(n)
        k = n.get("k")
        if depth > 8:
            return ("?",)
        if k == "Var":
            if n["v"] in lets:
                init, proj = lets[n["v"]]
                b = go(init, depth + 1)
                return b + ((proj,) if proj is not None else ())
            return (n["v"].split("#")[0],)
        if k == "Field":
            return go(n["e"], depth + 1) + (n["f"],)
        if k == "Index":
            return go(n["e"], depth + 1) + ("*",)
        if k == "Cast":
            return go(n["e"], depth + 1)
        if k == "Block":
            b = peel_block(n)
            return go(b, depth + 1) if b is not n else ("?",)
        if k == "Call" and n.get("args"):
            c = callee(n) or ""
            if c in DEREF_LIKE or c.endswith(("::as_ref", "::deref", "::borrow", "::as_slice", "::as_mut_slice", "::iter", "::as_str", "::load",
                                              "::read", "::lock", "::unwrap", "::borrow_mut", "::deref_mut", "::as_mut", "::values", "::keys")):
                return go(n["args"][0], depth + 1)
            return go(n["args"][0], depth + 1) + ("<" + c.rsplit("::", 1)[-1] + ">",)
        return ("?",)
    return go(n)


def combinator_variants(facts, f, which):
    """`self.as_ref().and_then(|c| ..)` / `.map_or(d, |c| ..)` on an Option / Result receiver: {variant: body node}"""
    ps = f["params"]
    if not ps or not ps[0].get("pat") or ps[0]["pat"].get("k") != "Bind":
        return None
    selfv = ps[0]["pat"]["v"]
    e = peel_block(f["body"])
    if e.get("k") != "Call":
        return None
    c = callee(e) or ""
    name = c.rsplit("::", 1)[-1]
    if name not in ("and_then", "map_or", "map", "map_or_else") or not e.get("args"):
        return None
    r = peel_block(peel(e["args"][0]))
    if not (r.get("k") == "Call" and (callee(r) or "").endswith("::as_ref") and r.get("args") and is_var(r["args"][0], selfv)):
        return None
    is_result = c.startswith("core::result::Result")
    is_option = c.startswith("core::option::Option")
    if not (is_result or is_option):
        return None
    clo = peel(e["args"][-1])
    g = facts.fns.get(clo.get("id")) if clo.get("k") == "Closure" else None
    if g is None:
        return None
    if which == "child":
        other = {"k": "Adt", "adt": "core::option::Option", "variant": "None", "fields": []}
        if name != "and_then":
            return None
    else:
        if name != "map_or" or len(e["args"]) != 3:
            return None
        other = e["args"][1]
    return {"Ok": g["body"], "Err": other} if is_result else {"Some": g["body"], "None": other}


S1_FACTS = None
_depth = [0]


def child_classes(f, body=None, recvs=None):
    idx, derived = index_vars(f)
    out = set()
    lits = set()
    recvs = recvs if recvs is not None else set()
    if idx is None:
        return {("?",)}, lits
    for x in walk(body if body is not None else f["body"]):
        k = x.get("k")
        if k == "Call":
            c = callee(x) or ""
            h = None
            if S1_FACTS is not None:
                h = S1_FACTS.fns.get((x.get("res") or {}).get("fn") or x.get("fn"))
            if h is not None and h["crate"] == "savefile" and not (h.get("impl") or {}).get("trait") and h.get("body") and h is not f \
                    and any(var_of(a) in derived for a in x["args"]) and _depth[0] < 3:
                # a shared helper that is handed the index (`introspect_slice_child(self, index)`): its classification is ours,
                # with the helper's parameters read as the arguments they receive
                _depth[0] += 1
                hrecv = set()
                hc, hl = child_classes(h, None, hrecv)
                _depth[0] -= 1
                out |= {c_ for c_ in hc if c_ != ("const", 0)}
                lits |= hl
                pnames = [(p.get("pat") or {}).get("v", "").split("#")[0] for p in h.get("params", [])]
                for rp in hrecv:
                    # (element accessors `<index>` / `<get>` / `*` at the end of a path name an element, not another container)
                    while rp and (str(rp[-1]).startswith("<") or rp[-1] == "*"):
                        rp = rp[:-1]
                    if rp and rp[0] in pnames and pnames.index(rp[0]) < len(x["args"]):
                        ap = recv_path(f, x["args"][pnames.index(rp[0])])
                        while ap and (str(ap[-1]).startswith("<") or ap[-1] == "*"):
                            ap = ap[:-1]          # `&self[..]`: the whole container again
                        recvs.add(ap + tuple(rp[1:]))
                    elif rp:
                        recvs.add(rp)
            elif c == "savefile::Introspect::introspect_child" and len(x["args"]) == 2 and var_of(x["args"][1]) in derived:
                out.add(("delegate", x.get("self_ty")))
            elif c.endswith(BOUNDED) and len(x["args"]) >= 2:
                v = var_of(x["args"][-1])
                if v in derived:
                    out.add(("len", derived[v]))
                    recvs.add(recv_path(f, x["args"][0]))
        elif k == "Index":
            v = var_of(x["i"])
            if v in derived:
                out.add(("len", derived[v]))
                recvs.add(recv_path(f, x["e"]))
        elif k == "Bin" and x["op"] in ("Ge", "Lt", "Gt", "Le", "Eq", "Ne"):
            for a, b in ((x["l"], x["r"]), (x["r"], x["l"])):
                v = var_of(a)
                if v in derived:
                    bb = peel(b)
                    if bb.get("k") == "Call" and (callee(bb) or "").endswith("::len"):
                        out.add(("len", derived[v]))
                    elif bb.get("k") == "Lit" and "int" in bb and x["op"] in ("Eq", "Ne") and v == idx:
                        lits.add(bb["int"])
                    elif bb.get("k") == "ConstParam" and x["op"] in ("Ge", "Lt"):
                        out.add(("constparam", bb["name"]))
        elif k == "Match" and var_of(x["e"]) == idx:
            for a in x["arms"]:
                if a["pat"].get("k") == "Const" and "int" in a["pat"]:
                    lits.add(a["pat"]["int"])
    if lits:
        out.add(("const", len(lits)) if lits == set(range(len(lits))) else ("const-gap", tuple(sorted(lits))))
        # a `None` that does not depend on the index (a poisoned lock, a failed borrow ...): the children may be absent altogether
        for x in walk(body if body is not None else f["body"]):
            if x.get("k") == "Try" and (x.get("rty") or "").startswith("core::option::Option") \
                    and not any(y.get("k") == "Var" and y["v"] in derived for y in walk(x["e"])):
                out.add(("const", 0, "state-dependent"))
            if x.get("k") == "Match" and var_of(x["e"]) not in derived and len(x["arms"]) >= 2:
                if any(y.get("k") == "Var" and y["v"] in derived for y in walk(x["e"])):
                    continue
                def only_none(b):
                    b = peel_block(b)
                    return b.get("k") == "Adt" and b.get("variant") == "None" and b.get("adt") == "core::option::Option"
                serves = [a for a in x["arms"] if any(y.get("k") == "Adt" and y.get("variant") == "Some" for y in walk(a["body"]))]
                nones = [a for a in x["arms"] if only_none(a["body"])]
                if serves and nones:
                    out.add(("const", 0, "state-dependent"))
    if not out:
        out.add(("const", 0))
    return out, lits


LEN_RECVS = None
LEN_FN = None


def len_classes(n):
    n = peel_block(n)
    k = n.get("k")
    if k == "Block":
        if n.get("e") is not None and not n["stmts"]:
            return len_classes(n["e"])
        rets = [x["e"] for x in walk(n) if x.get("k") == "Return" and x.get("e")]
        out = set()
        for r in rets:
            out |= len_classes(r)
        if n.get("e") is not None:
            out |= len_classes(n["e"])
        return out or {("?",)}
    if k == "Return":
        return len_classes(n["e"])
    if k == "Lit" and "int" in n:
        return {("const", n["int"])}
    if k == "ConstParam":
        return {("constparam", n["name"])}
    if k == "Cast":
        return len_classes(n["e"])
    if k == "Call":
        c = callee(n) or ""
        if c == "savefile::Introspect::introspect_len":
            return {("delegate", n.get("self_ty"))}
        if c.endswith("::len"):
            if LEN_RECVS is not None and n.get("args"):
                LEN_RECVS.add(recv_path(LEN_FN, n["args"][0]))
            return {("len", 1)}
        return {("?", c)}
    if k == "Bin" and n["op"] == "Mul":
        for a, b in ((n["l"], n["r"]), (n["r"], n["l"])):
            ca = len_classes(a)
            bb = peel(b)
            if ca == {("len", 1)} and bb.get("k") == "Lit" and "int" in bb:
                return {("len", bb["int"])}
        return {("?",)}
    if k == "If":
        out = len_classes(n["t"])
        out |= len_classes(n["f"]) if n.get("f") else {("const", 0)}
        return out
    if k == "Match":
        out = set()
        for a in n["arms"]:
            out |= len_classes(a["body"])
        return out
    return {("?",)}


@rule("S1", ["C17"], floor=150, doc="for every Introspect impl (library and derived) the children served by introspect_child and the count "
      "reported by introspect_len belong to the same class (len, 2*len, a literal k with indices 0..k-1, or delegation)")
def s1(facts, tier):
    global S1_FACTS
    S1_FACTS = facts
    impls = {}
    for f in facts.fns.values():
        im = f.get("impl")
        if im and im.get("trait") == TRAIT and f.get("name") in ("introspect_child", "introspect_len"):
            key = f["id"].rsplit("::", 1)[0]
            impls.setdefault(key, {})[f["name"]] = f
    for key, d in sorted(impls.items()):
        ch = d.get("introspect_child")
        ln = d.get("introspect_len")
        if ch is None:
            continue
        name = key[1:].split(" as ")[0] if key.startswith("<") else key
        cv = split_by_variant(ch) or combinator_variants(facts, ch, "child")
        lv = (split_by_variant(ln) or combinator_variants(facts, ln, "len")) if ln is not None else None
        if cv is not None and lv is not None and set(cv) == set(lv):
            bad = []
            for vn in sorted(cv):
                a, _ = child_classes(ch, cv[vn])
                b = len_classes(lv[vn])
                if any(c[0] == "const-gap" for c in a):
                    bad.append(f"variant {vn}: child indices not consecutive from 0")
                elif any(c[0] == "?" for c in a | b):
                    bad.append(None)
                elif ({c for c in a if c != ("const", 0)} or {("const", 0)}) != ({c for c in b if c != ("const", 0)} or {("const", 0)}):
                    bad.append(f"variant {vn}: introspect_child serves {sorted(map(str, a))}, introspect_len reports {sorted(map(str, b))}")
            real = [x for x in bad if x]
            if real:
                yield ob(["C17"], "S1", name, "violation", where(ln), f"{name}: " + "; ".join(real))
            elif bad:
                yield ob(["C17"], "S1", name, "undecided", where(ch), "a variant arm has a shape that is not modelled")
            else:
                yield ob(["C17"], "S1", name, "pass", where(ch), f"children and introspect_len agree for each of {len(cv)} variants")
            continue
        crecv = set()
        cc, lits = child_classes(ch, None, crecv)
        if ("const-gap",) in {c[:1] for c in cc}:
            gap = [c for c in cc if c[0] == "const-gap"][0][1]
            yield ob(["C17"], "S1", name, "violation", where(ch), f"{ch['id']} serves children at indices {gap}: not consecutive from 0")
            continue
        if ln is None:
            yield ob(["C17"], "S1", name, "pass", where(ch), f"children {sorted(map(str, cc))}; introspect_len is the trait default "
                     f"(counts the children actually served)", nontrivial=False)
            continue
        global LEN_RECVS, LEN_FN
        LEN_RECVS, LEN_FN = set(), ln
        lc = len_classes(ln["body"])
        lrecv, LEN_RECVS = LEN_RECVS, None
        # Option-like: `None` child <-> 0
        norm = lambda s: {c for c in s}
        a, b = norm(cc), norm(lc)
        if any(c[0] == "?" for c in a | b):
            yield ob(["C17"], "S1", name, "undecided", where(ch), f"children {sorted(map(str, a))} vs len {sorted(map(str, b))}: shape not modelled")
            continue
        a_cmp = {c for c in a if c != ("const", 0)} or {("const", 0)}
        b_cmp = {c for c in b if c != ("const", 0)} or {("const", 0)}
        if ("const", 0, "state-dependent") in a_cmp:
            a_cmp.discard(("const", 0, "state-dependent"))
            if b_cmp and all(c[0] == "const" and c[1] > 0 for c in b_cmp):
                yield ob(["C17"], "S1", name, "violation", where(ln),
                         f"{name}: introspect_len always reports {sorted(b_cmp)[0][1]} but introspect_child returns None for every index when "
                         f"a condition that does not depend on the index fails (e.g. a poisoned lock): the reported count exceeds the fetchable children")
                continue
        known = lambda ps: {p for p in ps if "?" not in p}
        if a_cmp == b_cmp and known(crecv) and known(lrecv) and not (known(crecv) & known(lrecv)):
            yield ob(["C17"], "S1", name, "violation", where(ch),
                     f"{name}: introspect_len counts the elements of `{'.'.join(sorted(known(lrecv))[0])}` but introspect_child fetches them from "
                     f"`{'.'.join(sorted(known(crecv))[0])}`: the reported count and the fetchable children are those of two different sequences")
        elif a_cmp == b_cmp:
            yield ob(["C17"], "S1", name, "pass", where(ch), f"children and introspect_len agree: {sorted(map(str, a_cmp))}")
        else:
            yield ob(["C17"], "S1", name, "violation", where(ln), f"{name}: introspect_child serves {sorted(map(str, a_cmp))} children but "
                     f"introspect_len reports {sorted(map(str, b_cmp))}")


# ---------------------------------------------------------------------------------------------
# S3: flat-index accounting of IntrospectionResult::total_index (path-wise affine relations)

def _t_add(a, b, k=1):
    out = dict(a)
    for s, c in b.items():
        out[s] = out.get(s, 0) + k * c
        if out[s] == 0:
            del out[s]
    return out


def _t_show(t):
    if not t:
        return "0"
    parts = []
    for s, c in sorted(t.items(), key=lambda kv: str(kv[0])):
        if s == 1:
            parts.append(str(c))
        else:
            parts.append(("" if c == 1 else "-" if c == -1 else f"{c}*") + str(s))
    return " + ".join(parts).replace("+ -", "- ")


class AffinePaths:
    """enumerates the acyclic paths of a loop-free function; every integer variable holds an affine term over the symbols of
    the frame (selection, len(keyvals), index, the cursor on entry, the advance REC of the recursive call)"""

    def __init__(self, f, cur_param, rec_fn):
        self.f = f
        self.cur = cur_param
        self.rec_fn = rec_fn
        self.post = None        # state -> affine term (>= 0) that holds when the recursive call found nothing
        self.some_facts = None  # name bound by `if let Some(name) = ..` -> list of terms >= 0 (data-structure invariant)
        self.results = []      # (kind, data, state)
        self.entry_facts = []  # affine terms known to be >= 0 on entry
        self.subs = []         # (l - r, facts, node, trace) for every subtraction met
        self.reccalls = []     # (cursor at the recursive call, facts, trace)
        self.adds = []         # (l + r, facts, node, trace) for every addition met

    def sym(self, n):
        from ..ir import path_of
        p = path_of(n)
        if p:
            return ".".join(x.split("#")[0] for x in p)
        return None

    def ev(self, n, st):
        n = peel_block(peel(n)) if n.get("k") != "Deref" else n
        k = n.get("k")
        if k in ("Ref", "Coerce", "Cast"):
            return self.ev(n["e"], st)
        if k == "Deref":
            inner = peel(n)
            if inner.get("k") == "Var" and inner["v"] == self.cur:
                return dict(st["cur"])
            return self.ev(n["e"], st)
        if k == "Lit" and "int" in n:
            return {1: n["int"]} if n["int"] else {}
        if k == "Var":
            if n["v"] == self.cur:
                return dict(st["cur"])
            if n["v"] in st["vars"]:
                return dict(st["vars"][n["v"]])
            return {n["v"].split("#")[0]: 1}
        if k == "Bin" and n["op"] in ("Add", "Sub"):
            a, b = self.ev(n["l"], st), self.ev(n["r"], st)
            if a is None or b is None:
                return None
            if n["op"] == "Sub" and "subs" in st:
                st["subs"].append((_t_add(a, b, -1), list(st["facts"]), n, list(st["trace"])))
            if n["op"] == "Add" and "subs" in st:
                self.adds.append((_t_add(a, b, 1), list(st["facts"]), n, list(st["trace"])))
            return _t_add(a, b, 1 if n["op"] == "Add" else -1)
        if k == "Call" and (callee(n) or "").endswith("::len") and n.get("args"):
            s = self.sym(n["args"][0])
            return {f"len({s})": 1} if s else None
        if k == "Field":
            s = self.sym(n)
            return {s: 1} if s else None
        return None

    def run(self):
        st = {"vars": {}, "cur": {"cur0": 1}, "rec": 0, "trace": [], "facts": list(self.entry_facts), "subs": self.subs,
              "reccalls": self.reccalls}
        for end in self.block(self.f["body"], st):
            self.results.append(("fallthrough", None, end))
        return self.results

    def fork(self, st):
        return {"vars": dict(st["vars"]), "cur": dict(st["cur"]), "rec": st["rec"], "trace": list(st["trace"]),
                "facts": list(st.get("facts", [])), "subs": st.get("subs"), "reccalls": st.get("reccalls")}

    def block(self, n, st):
        """yields the states that leave n normally"""
        k = n.get("k")
        if k == "Block":
            states = [st]
            for s in n["stmts"]:
                nxt = []
                for s0 in states:
                    nxt.extend(self.stmt(s, s0))
                states = nxt
            if n.get("e") is not None:
                nxt = []
                for s0 in states:
                    nxt.extend(self.stmt(n["e"], s0))
                states = nxt
            yield from states
            return
        yield from self.stmt(n, st)

    def effects(self, n, st):
        """apply the side effects of evaluating expression n (recursive call advancing the cursor)"""
        for x in walk(n):
            if x.get("k") == "Call" and ((x.get("res") or {}).get("fn") or x.get("fn")) == self.rec_fn:
                if st.get("reccalls") is not None:
                    st["reccalls"].append((dict(st["cur"]), list(st.get("facts", [])), list(st["trace"])))
                st["rec"] += 1
                st["cur"] = _t_add(st["cur"], {f"REC{st['rec']}": 1})
                st["trace"].append("recursive call")

    def arm_state(self, m, arm, st):
        """state on entry to a match arm: the scrutinee's effects, the arm's bindings as symbols, the frame invariant for `Some(name)`"""
        from .taint_rules import pat_binds
        a = self.fork(st)
        self.effects(m["e"], a)
        is_rec = any(y.get("k") == "Call" and ((y.get("res") or {}).get("fn") or y.get("fn")) == self.rec_fn for y in walk(m["e"]))
        scr = self.sym(m["e"]) or "scrutinee"
        pat = arm["pat"]
        for bnd in pat_binds(pat):
            a["vars"][bnd["v"]] = {bnd["v"].split("#")[0]: 1}
        a["trace"].append(f"{scr} is {pat.get('variant', 'matched')}")
        if not is_rec and pat.get("variant") == "Some" and self.some_facts is not None:
            for bnd in pat_binds(pat):
                a["facts"].extend(self.some_facts(bnd["v"].split("#")[0]))
        if is_rec and pat.get("variant") == "None" and self.post is not None:
            a["facts"].append(self.post(a))
            a["facts"].append({f"REC{a['rec']}": 1})
        return a

    def expr_paths(self, n, st):
        """(state, affine value or None) for every way through expression n that completes normally"""
        n = peel(n)
        k = n.get("k")
        if k == "Block":
            states = [st]
            for s_ in n.get("stmts", []):
                nxt = []
                for s0 in states:
                    nxt.extend(self.stmt(s_, s0))
                states = nxt
            for s0 in states:
                if n.get("e") is None:
                    yield s0, None
                else:
                    yield from self.expr_paths(n["e"], s0)
            return
        if k == "Match":
            for arm in n["arms"]:
                a = self.arm_state(n, arm, st)
                yield from self.expr_paths(arm["body"], a)
            return
        self.effects(n, st)
        yield st, self.ev(n, st)

    def stmt(self, s, st):
        k = s.get("k")
        if k == "ExprS":
            yield from self.stmt(s["e"], st)
        elif k == "LetS":
            init = s.get("init")
            pi = peel(init) if init is not None else None
            if pi is not None and pi.get("k") in ("Match", "Block") and s["pat"].get("k") == "Bind" and \
                    any(y.get("k") in ("Return", "If", "Match", "LetS") for y in walk(pi)):
                # `let x = match opt { Some(v) => { ..; v + 1 } None => 0 };` : one state per way through the initialiser
                for st2, t in self.expr_paths(pi, st):
                    if t is not None:
                        st2["vars"][s["pat"]["v"]] = t
                    else:
                        st2["vars"].pop(s["pat"]["v"], None)
                    yield st2
                return
            if init is not None:
                self.effects(s["init"], st)
                if s["pat"].get("k") == "Bind":
                    t = self.ev(s["init"], st)
                    if t is not None:
                        st["vars"][s["pat"]["v"]] = t
                    else:
                        st["vars"].pop(s["pat"]["v"], None)
            yield st
        elif k == "Block":
            yield from self.block(s, st)
        elif k == "Assign":
            l = peel(s["l"])
            t = self.ev(s["r"], st)
            if l.get("k") == "Var" and l["v"] == self.cur:
                st["cur"] = t if t is not None else {"?": 1}
            elif l.get("k") == "Var":
                if t is not None:
                    st["vars"][l["v"]] = t
                else:
                    st["vars"][l["v"]] = {"?" + l["v"]: 1}
            yield st
        elif k == "AssignOp":
            l = peel(s["l"])
            t = self.ev(s["r"], st)
            sign = {"AddAssign": 1, "SubAssign": -1}.get(s["op"])
            tgt = "cur" if (l.get("k") == "Var" and l["v"] == self.cur) else None
            if sign is None or t is None:
                t, sign = {"?": 1}, 1
            if tgt:
                st["cur"] = _t_add(st["cur"], t, sign)
                st["trace"].append(f"cur {'+=' if sign > 0 else '-='} {_t_show(t)}")
            elif l.get("k") == "Var":
                st["vars"][l["v"]] = _t_add(st["vars"].get(l["v"], {l["v"].split('#')[0]: 1}), t, sign)
            yield st
        elif k == "If":
            c = s["c"]
            a, b = self.fork(st), self.fork(st)
            self.effects(c, a)
            self.effects(c, b)
            pc = peel_block(c)
            if pc.get("k") == "Bin" and pc["op"] in ("Le", "Lt", "Ge", "Gt"):
                lt, rt = self.ev(pc["l"], st), self.ev(pc["r"], st)
                if lt is not None and rt is not None:
                    d = _t_add(rt, lt, -1)            # r - l
                    op = pc["op"]
                    # then-branch fact / else-branch fact, each as (term >= 0)
                    tf = {"Le": d, "Lt": _t_add(d, {1: 1}, -1), "Ge": _t_add(lt, rt, -1), "Gt": _t_add(_t_add(lt, rt, -1), {1: 1}, -1)}[op]
                    ef = {"Le": _t_add(_t_add(lt, rt, -1), {1: 1}, -1), "Lt": _t_add(lt, rt, -1), "Ge": _t_add(d, {1: 1}, -1), "Gt": d}[op]
                    a["facts"].append(tf)
                    b["facts"].append(ef)
            if pc.get("k") == "Let":
                # binding branch: variables of the pattern become symbols named after the scrutinee
                from .taint_rules import pat_binds
                scr = self.sym(pc["e"]) or "scrutinee"
                for bnd in pat_binds(pc["pat"]):
                    a["vars"][bnd["v"]] = {bnd["v"].split("#")[0]: 1}
                a["trace"].append(f"{scr} is {pc['pat'].get('variant', 'matched')}")
                b["trace"].append(f"{scr} is not {pc['pat'].get('variant', 'matched')}")
                is_rec = any(y.get("k") == "Call" and ((y.get("res") or {}).get("fn") or y.get("fn")) == self.rec_fn for y in walk(pc["e"]))
                if is_rec and self.post is not None:
                    b["facts"].append(self.post(b))
                    b["facts"].append({f"REC{b['rec']}": 1})
                if not is_rec and pc["pat"].get("variant") == "Some" and self.some_facts is not None:
                    for bnd in pat_binds(pc["pat"]):
                        a["facts"].extend(self.some_facts(bnd["v"].split("#")[0]))
            yield from self.block(s["t"], a)
            if s.get("f") is not None:
                yield from self.block(s["f"], b)
            else:
                yield b
        elif k == "Return":
            e = s.get("e")
            self.results.append(("return", e, st))
            return
        elif k == "Match":
            for arm in s["arms"]:
                a = self.arm_state(s, arm, st)
                yield from self.block(arm["body"], a)
        else:
            self.effects(s, st)
            yield st


@rule("S3", ["C17"], floor=5, doc="IntrospectionResult::total_index: on every acyclic path of total_index_impl (affine terms over selection, "
      "len(keyvals), index, cursor) (a) a frame that yields no element advances the cursor by exactly len(frame.keyvals) — the amount "
      "do_introspect adds to total_len for that frame — and (b) an element returned from a frame is keyvals[index - cursor-on-entry - "
      "advance of the expanded sub-tree]")
def s3(facts, tier):
    f = facts.fns.get("savefile::IntrospectionResult::total_index_impl")
    if f is None:
        # renamed / turned into an associated function: the self-recursive function that `total_index` calls
        t = facts.fns.get("savefile::IntrospectionResult::total_index")
        if t is not None:
            for x in walk(t["body"]):
                if x.get("k") == "Call":
                    h = facts.fns.get((x.get("res") or {}).get("fn") or x.get("fn"))
                    if h is not None and h["crate"] == "savefile" and h.get("body") and any(
                            y.get("k") == "Call" and ((y.get("res") or {}).get("fn") or y.get("fn")) == h["id"] for y in walk(h["body"])):
                        f = h
    g = facts.fns.get("savefile::Introspector::do_introspect")
    if f is None or g is None:
        return
    # the total is the sum of len(frame.keyvals) over the frames
    ok_total = False
    for x in walk(g["body"]):
        if x.get("k") == "For":
            for y in walk(x["body"]):
                if y.get("k") == "AssignOp" and y["op"] == "AddAssign":
                    r = peel_block(peel(y["r"]))
                    if r.get("k") == "Call" and (callee(r) or "").endswith("::len") and "keyvals" in str(r["args"][0]):
                        tot = peel(y["l"])
                        ok_total = tot.get("k") == "Var"
    yield ob(["C17"], "S3", "total-is-sum-of-frame-lengths", "pass" if ok_total else "undecided", where(g),
             "do_introspect: total_len = Σ len(frame.keyvals)" if ok_total else "do_introspect: computation of the total length not recognised")
    ps = f["params"]
    names = [p["pat"]["v"] for p in ps if p.get("pat") and p["pat"].get("k") == "Bind"]
    cur = next((v for v in names if v.split("#")[0] == "cur"), names[-1] if names else None)
    idx = next((v.split("#")[0] for v in names if v.split("#")[0] == "index"), "index")
    ap = AffinePaths(f, cur, f["id"])
    # inductive invariant of the flat cursor:  INV(entry): index >= cursor ;  INV(exit with None): index >= cursor
    ap.entry_facts = [_t_add({idx: 1}, {"cur0": 1}, -1)]
    ap.post = lambda st: _t_add({idx: 1}, st["cur"], -1)
    # data-structure invariant of a frame (established by dive: `selected = Some(i)` is set right after keyvals[i] was pushed)
    ap.some_facts = lambda name: [_t_add({"len(frame.keyvals)": 1}, {name: 1, 1: 1}, -1), {name: 1}]
    res = ap.run()
    na = nb = 0
    for kind, e, st in res:
        if kind == "fallthrough":
            continue
        e0 = peel_block(peel(e)) if e is not None else {}
        is_none = e0.get("k") == "Adt" and e0.get("variant") == "None"
        frame_len = [s for s in _syms(st) if str(s).startswith("len(") and "keyvals" in str(s)]
        recs = {f"REC{i}": 1 for i in range(1, st["rec"] + 1)}
        if is_none:
            touched = any("cur" in t for t in st["trace"]) or st["rec"]
            if not touched and not any("selected" in t for t in st["trace"]):
                continue       # the depth guard: no frame, cursor untouched
            na += 1
            delta = _t_add(st["cur"], {"cur0": 1}, -1)
            lens = {s for s in delta if str(s).startswith("len(")} or {"len(frame.keyvals)"}
            want = _t_add({next(iter(lens)): 1}, recs)
            ok = delta == want
            opaque = any(str(sy).startswith("?") for sy in delta)      # arithmetic outside the affine fragment (checked_*, min, ...)
            yield ob(["C17"], "S3", f"no-element-path#{na}:cursor-advance", "pass" if ok else ("undecided" if opaque else "violation"), where(f),
                     (f"path [{'; '.join(st['trace'])}]: cursor advances by {_t_show(delta)}" if ok else
                      f"total_index_impl, path [{'; '.join(st['trace'])}]: a frame that yields no element advances the flat cursor by "
                      f"{_t_show(delta)} instead of {_t_show(want)}: indices handed to the enclosing frames are shifted, so total_index "
                      f"returns the wrong element, None below total_len, or underflows"))
        elif e0.get("k") == "Adt" and e0.get("variant") == "Some":
            inner = e0["fields"][0]["e"]
            ix = next((y for y in walk(inner) if (y.get("k") == "Call" and (callee(y) or "").endswith("Index::index")
                                                   and "keyvals" in str(y["args"][0])) or
                       (y.get("k") == "Index" and "keyvals" in str(y["e"]))), None)
            if ix is None:
                continue       # the element found by the recursive call is passed through
            nb += 1
            it = ap.ev(ix["args"][1] if ix.get("k") == "Call" else ix["i"], st)
            want = _t_add(_t_add({idx: 1}, {"cur0": 1}, -1), recs, -1)
            ok = it == want
            yield ob(["C17"], "S3", f"element-path#{nb}:frame-index", "pass" if ok else
                     ("undecided" if it is None or any(str(sy).startswith("?") for sy in it) else "violation"), where(f),
                     f"path [{'; '.join(st['trace'])}]: returns keyvals[{_t_show(it) if it is not None else '?'}]" if ok else
                     f"total_index_impl, path [{'; '.join(st['trace'])}]: returns keyvals[{_t_show(it) if it is not None else '?'}], "
                     f"expected keyvals[{_t_show(want)}]")
    # (c) no subtraction underflows, by induction on the invariant index >= cursor
    groups = {}
    for term, facts, node, trace in ap.subs:
        groups.setdefault(id(node), []).append((term, facts, node, trace))
    k_ = 0
    for gid, insts in sorted(groups.items(), key=lambda kv: (kv[1][0][2].get("ln") or 0, _t_show(kv[1][0][0]))):
        k_ += 1
        bad = [(t, fa, nd, tr) for t, fa, nd, tr in insts if not _entails(fa, t)]
        node = insts[0][2]
        if not bad:
            yield ob(["C17"], "S3", f"no-underflow#{k_}", "pass", where(f, node),
                     f"`{_t_show(insts[0][0])} >= 0` follows from the path conditions and the invariant index >= cursor on {len(insts)} path(s)")
            continue
        term, facts, _, trace = bad[0]
        opaque = any(str(sy).startswith("?") for sy in term)
        yield ob(["C17"], "S3", f"no-underflow#{k_}", "undecided" if opaque else "violation", where(f, node),
                 f"total_index_impl, path [{'; '.join(trace)}]: the subtraction computing `{_t_show(term)}` can underflow - `{_t_show(term)} >= 0` does "
                 f"not follow from the conditions on this path ({', '.join(_t_show(x) + ' >= 0' for x in facts[:5])}): total_index panics (debug) or "
                 f"indexes out of range for some index below total_len")
    # (d) no addition overflows: a sum that involves the caller-supplied index (any usize) must be provably <= index
    agroups = {}
    for term, facts, node, trace in ap.adds:
        agroups.setdefault(id(node), []).append((term, facts, node, trace))
    k_ = 0
    for gid, insts in sorted(agroups.items(), key=lambda kv: (kv[1][0][2].get("ln") or 0, _t_show(kv[1][0][0]))):
        if not any(t.get(idx, 0) for t, _, _, _ in insts):
            continue          # sums of frame sizes / selections: bounded by the size of the tree
        k_ += 1
        bad = []
        for t, fa, nd, tr in insts:
            c = t.get(idx, 0)
            rest = _t_add({idx: 1}, t, -1)          # index - t  must be >= 0
            if c != 1 or not _entails(fa, rest):
                bad.append((t, fa, nd, tr))
        node = insts[0][2]
        if not bad:
            yield ob(["C17"], "S3", f"no-overflow#{k_}", "pass", where(f, node),
                     f"`{_t_show(insts[0][0])}` involves the caller's index and is provably <= index on {len(insts)} path(s)")
        else:
            t, fa, nd, tr = bad[0]
            yield ob(["C17"], "S3", f"no-overflow#{k_}", "violation", where(f, node),
                     f"total_index_impl, path [{'; '.join(tr)}]: the sum `{_t_show(t)}` adds to the caller-supplied index (any usize): for an index "
                     f"close to usize::MAX it overflows - total_index panics instead of returning None for an index beyond total_len")
    ap.reccalls = list({(tuple(sorted((str(k), v) for k, v in c.items())), tuple(tr)): (c, fa, tr) for c, fa, tr in ap.reccalls}.values())
    for i_, (curt, facts, trace) in enumerate(ap.reccalls, 1):
        term = _t_add({idx: 1}, curt, -1)
        ok = _entails(facts, term)
        yield ob(["C17"], "S3", f"recursive-call#{i_}:precondition", "pass" if ok else "violation", where(f),
                 "the nested frame is entered with index >= cursor" if ok else
                 f"total_index_impl, path [{'; '.join(trace)}]: the nested frame is entered although `{_t_show(term)} >= 0` is not established: "
                 f"its `index - cursor` underflows")
    n_post = 0
    for kind, e, st in res:
        e0 = peel_block(peel(e)) if e is not None else {}
        if kind == "return" and e0.get("k") == "Adt" and e0.get("variant") == "None":
            n_post += 1
            term = _t_add({idx: 1}, st["cur"], -1)
            ok = _entails(st.get("facts", []), term)
            yield ob(["C17"], "S3", f"none-exit#{n_post}:postcondition", "pass" if ok else "violation", where(f),
                     "a frame that yields nothing leaves index >= cursor" if ok else
                     f"total_index_impl, path [{'; '.join(st['trace'])}]: returns None with `{_t_show(term)} >= 0` not established: the enclosing "
                     f"frame's `index - cursor` underflows")


def _entails(facts, target):
    """is `target >= 0` a consequence of the facts (each `>= 0`)? subset-sum search: target - sum(S) is a constant >= 0"""
    import itertools
    fs = [f_ for f_ in facts if f_]
    # every symbol is an unsigned quantity
    fs += [{sy: 1} for sy, c in target.items() if sy != 1 and c > 0 and {sy: 1} not in fs]
    for r in range(0, min(5, len(fs)) + 1):
        for S in itertools.combinations(fs, r):
            t = dict(target)
            for f_ in S:
                t = _t_add(t, f_, -1)
            if all(k == 1 for k in t) and t.get(1, 0) >= 0:
                return True
    return False


def _syms(st):
    out = set(st["cur"])
    for t in st["vars"].values():
        out |= set(t)
    return out


# ---------------------------------------------------------------------------------------------
# S4: the unwraps in the navigation code are justified by a typestate argument that the code itself carries

NAV_FNS = ("savefile::Introspector::dive", "savefile::Introspector::do_introspect", "savefile::IntrospectionResult::total_index",
           "savefile::IntrospectionResult::total_index_impl", "savefile::IntrospectionResult::format_result_row")


def _path_str(n):
    from ..ir import path_of
    p = path_of(n)
    return ".".join(x.split("#")[0] for x in p) if p else None


def _conjuncts(c):
    c = peel_block(peel(c))
    if c.get("k") == "Logic" and c.get("op") == "And":
        return _conjuncts(c["l"]) + _conjuncts(c["r"])
    return [c]


@rule("S4", ["C17"], floor=2, doc="navigation never panics, unwrap sites: every Option::unwrap/expect in Introspector::dive / do_introspect / "
      "total_index is justified by the code around it: (a) `x.take().unwrap()` in a loop runs at most once per call because it is "
      "guarded by `flag.is_none()` and the branch sets `flag = Some(..)` first, with no reset of the flag; (b) `v.last_mut().unwrap()` "
      "/ `v.pop().unwrap()` follows a push to the same vector (directly, or through a boolean that is only set next to such a push)")
def s4(facts, tier):
    from ..flow import parent_map
    for fid in NAV_FNS:
        f = facts.fns.get(fid)
        if f is None or not f.get("body"):
            continue
        pm = parent_map(f["body"])

        def ancestors(n):
            p = pm.get(id(n))
            while p is not None:
                yield p
                p = pm.get(id(p))

        def preceding_in_blocks(n):
            """statements that are executed before n on every path through the enclosing blocks (straight-line predecessors)"""
            chain = [n] + list(ancestors(n))
            for i, a in enumerate(chain):
                if a.get("k") == "Block":
                    inner = chain[i - 1] if i > 0 else None
                    for s in a["stmts"]:
                        if s is inner or any(s is c for c in chain[:i]):
                            break
                        yield s
                if a.get("k") in ("Loop", "For", "Closure"):
                    break

        ord_ = 0
        for x in walk(f["body"]):
            if x.get("k") != "Call":
                continue
            c = callee(x) or ""
            if c not in ("core::option::Option::unwrap", "core::option::Option::expect", "core::result::Result::unwrap", "core::result::Result::expect"):
                continue
            if x.get("from_expansion"):
                continue
            ord_ += 1
            recv = peel_block(peel(x["args"][0]))
            rc = callee(recv) or "" if recv.get("k") == "Call" else ""
            key = f"{fid.split('::')[-1]}:unwrap#{ord_}:{rc.rsplit('::', 1)[-1] or 'value'}"
            why = None
            ok = False
            if rc.endswith("Option::take") and recv.get("args"):
                # (a) once-guard
                in_loop = any(a.get("k") in ("Loop", "For") for a in ancestors(x))
                flag = None
                for a in ancestors(x):
                    if a.get("k") == "If" and any(x is y for y in walk(a["t"])):
                        for cj in _conjuncts(a["c"]):
                            if cj.get("k") == "Call" and (callee(cj) or "").endswith("Option::is_none") and cj.get("args"):
                                p = _path_str(cj["args"][0])
                                if p is None:
                                    continue
                                # the branch assigns Some(..) to the flag before the site
                                sets = False
                                for s in preceding_in_blocks(x):
                                    for y in walk(s):
                                        if y.get("k") == "Assign" and _path_str(y["l"]) == p:
                                            r = peel_block(peel(y["r"]))
                                            if r.get("k") == "Adt" and r.get("variant") == "Some":
                                                sets = True
                                # no reset anywhere in the function
                                resets = False
                                for y in walk(f["body"]):
                                    if y.get("k") == "Assign" and _path_str(y["l"]) == p:
                                        r = peel_block(peel(y["r"]))
                                        if not (r.get("k") == "Adt" and r.get("variant") == "Some"):
                                            resets = True
                                    if y.get("k") == "Call" and (callee(y) or "").endswith(("Option::take", "Option::replace")) and y.get("args") \
                                            and _path_str(y["args"][0]) == p:
                                        resets = True
                                if sets and not resets:
                                    flag = p
                    if a.get("k") in ("Loop", "For"):
                        break
                ok = (not in_loop) or flag is not None
                why = (f"runs at most once per call: guarded by `{flag}.is_none()` and the branch sets `{flag} = Some(..)` first" if flag else
                       "not inside a loop" if not in_loop else
                       "`take()` empties the option, and nothing on the way to this site ensures it is reached only once per call: the second "
                       "time round the loop `unwrap()` hits None")
            elif rc.endswith(("::last_mut", "::last", "::pop", "::first", "::first_mut")) and recv.get("args"):
                vp = _path_str(recv["args"][0])
                pushed = False
                for s in preceding_in_blocks(x):
                    for y in walk(s):
                        if y.get("k") == "Call" and (callee(y) or "").endswith(("::push", "::insert")) and y.get("args") and _path_str(y["args"][0]) == vp:
                            pushed = True
                        elif y.get("k") == "Call" and (callee(y) or "").endswith(("::pop", "::clear", "::drain", "::truncate", "::remove")) and y.get("args") \
                                and _path_str(y["args"][0]) == vp:
                            pushed = False
                flagged = None
                if not pushed:
                    # through a boolean that is only ever set true right after a push to the same vector
                    for a in ancestors(x):
                        if a.get("k") == "If" and any(x is y for y in walk(a["t"])):
                            for cj in _conjuncts(a["c"]):
                                cj = peel(cj)
                                if cj.get("k") == "Var":
                                    sets_ok, any_set = True, False
                                    for y in walk(f["body"]):
                                        if y.get("k") == "Assign" and peel(y["l"]).get("k") == "Var" and peel(y["l"])["v"] == cj["v"]:
                                            r = peel(y["r"])
                                            if r.get("k") == "Lit" and r.get("int") == 1:
                                                any_set = True
                                                if not any(z.get("k") == "Call" and (callee(z) or "").endswith("::push") and z.get("args")
                                                           and _path_str(z["args"][0]) == vp for s in preceding_in_blocks(y) for z in walk(s)):
                                                    sets_ok = False
                                    if any_set and sets_ok:
                                        flagged = cj["v"].split("#")[0]
                ok = pushed or flagged is not None
                why = (f"follows a push to `{vp}` in the same straight-line code" if pushed else
                       f"only reached when `{flagged}` is set, which happens only right after a push to `{vp}`" if flagged else
                       f"no push to `{vp}` is known to precede it")
            else:
                why = "no typestate argument recognised for this unwrap"
            yield ob(["C17"], "S4", key, "pass" if ok else ("violation" if rc.endswith(("Option::take", "::last_mut", "::last", "::pop")) else "undecided"),
                     where(f, x), f"{fid}: `{rc.rsplit('::', 1)[-1] or 'value'}().unwrap()` {why}" if ok else
                     f"{fid}: `{rc.rsplit('::', 1)[-1] or 'value'}().unwrap()` can panic: {why}")


# ---------------------------------------------------------------------------------------------
# S5: the trait's default introspect_len is the linear probe

@rule("S5", ["C17"], floor=1, doc="the default Introspect::introspect_len (used by every impl that does not override it) is the linear probe: it asks for "
      "child 0, 1, 2 ... in a `for` over 0..MAX_CHILDREN, returns the first index for which introspect_child is None, and the cap only "
      "after the loop. Any other search (doubling, bisection) is not judged: whether it returns the same count is a value-level question")
def s5(facts, tier):
    f = facts.fns.get("savefile::Introspect::introspect_len")
    if f is None or not f.get("body"):
        yield ob(["C17"], "S5", "default-introspect_len", "violation", "", "savefile::Introspect::introspect_len (provided method) not found")
        return
    fors = [x for x in walk(f["body"]) if x.get("k") == "For"]
    ok = False
    why = "not a single `for` loop"
    if len(fors) == 1 and not any(x.get("k") in ("Loop", "While") for x in walk(f["body"])):
        lp = fors[0]
        v = lp["pat"].get("v") if lp["pat"].get("k") == "Bind" else None
        rets = [x for x in walk(lp["body"]) if x.get("k") == "Return"]
        probes = [x for x in walk(lp["body"]) if x.get("k") == "Call" and (callee(x) or "").endswith("Introspect::introspect_child")]
        idx_ok = probes and all(peel(p["args"][1]).get("k") == "Var" and peel(p["args"][1]).get("v") == v for p in probes)
        ret_ok = rets and all(r.get("e") is not None and peel(r["e"]).get("k") == "Var" and peel(r["e"])["v"] == v for r in rets)
        it = peel(lp.get("iter") or {})
        start0 = it.get("k") == "Adt" and any(fl.get("f") == "start" and peel(fl["e"]).get("int") == 0 for fl in it.get("fields", []))
        ok = bool(v and idx_ok and ret_ok and start0)
        why = "the loop variable is the probed index and the returned count, starting at 0" if ok else "loop shape differs (index / return / start)"
    yield ob(["C17"], "S5", "default-introspect_len", "pass" if ok else "undecided", where(f), why)


# ---------------------------------------------------------------------------------------------
# S6 / S7: Introspect impls neither panic on a value nor disagree with their siblings

def _shape(n, depth=0):
    """expression shape with receivers and variable names erased"""
    n = peel_block(peel(n)) if isinstance(n, dict) else n
    if not isinstance(n, dict) or depth > 12:
        return "?"
    k = n.get("k")
    if k in ("Ref", "Deref", "Coerce", "Cast"):
        return _shape(n["e"], depth + 1)
    if k == "Var" or k == "Field":
        return "x"
    if k == "Lit":
        return str(n.get("int", "lit"))
    if k in ("Const", "ConstBlock"):
        return str(n.get("id", "const")).rsplit("::", 1)[-1]
    if k == "Bin":
        return f"({_shape(n['l'], depth + 1)} {n['op']} {_shape(n['r'], depth + 1)})"
    if k == "Call":
        return (callee(n) or "?").rsplit("::", 1)[-1] + "(" + ",".join(_shape(a, depth + 1) for a in n.get("args", [])) + ")"
    if k == "Block":
        return _shape(n.get("e") or {}, depth + 1)
    return k or "?"


def _inline_shape(facts, f, depth=0):
    """shape of a function's tail expression, with calls to private free helpers replaced by the helper's own shape"""
    def go(n, d):
        n = peel_block(peel(n)) if isinstance(n, dict) else n
        if isinstance(n, dict) and n.get("k") == "Call" and d < 3:
            h = facts.fns.get((n.get("res") or {}).get("fn") or n.get("fn"))
            if h is not None and h["crate"] == "savefile" and h.get("body") and not h.get("impl") and not h.get("pub"):
                inner = _inline_shape(facts, h, d + 1)
                return inner.replace("x", "<" + ",".join(go(a, d + 1) for a in n.get("args", [])) + ">", 1) if "x" in inner else inner
        if isinstance(n, dict) and n.get("k") == "Bin":
            return f"({go(n['l'], d)} {n['op']} {go(n['r'], d)})"
        if isinstance(n, dict) and n.get("k") in ("Ref", "Deref", "Coerce", "Cast"):
            return go(n["e"], d)
        return _shape(n)
    t = peel_block(f["body"])
    while isinstance(t, dict) and t.get("k") == "Block" and t.get("e") is not None and not t.get("stmts"):
        t = peel_block(t["e"])
    return go(t, depth)


MAP_SIBLINGS = ("std::collections::hash::map::HashMap<", "alloc::collections::btree::map::BTreeMap<", "indexmap::map::IndexMap<")
SET_SIBLINGS = ("std::collections::hash::set::HashSet<", "alloc::collections::btree::set::BTreeSet<", "indexmap::set::IndexSet<")


@rule("S7", ["C17"], floor=2, doc="sibling containers agree: the introspect_len of the key-value maps (HashMap, BTreeMap, IndexMap) are the same expression of "
      "the container's length, and so are those of the sets; a cap or factor applied in a different place in one sibling makes its count "
      "disagree with the children it serves for some sizes")
def s7(facts, tier):
    for label, heads in (("maps", MAP_SIBLINGS), ("sets", SET_SIBLINGS)):
        shapes = {}
        for fid, f in facts.fns.items():
            im = f.get("impl") or {}
            if f["crate"] == "savefile" and im.get("trait") == TRAIT and f.get("name") == "introspect_len" and f.get("body") \
                    and (im.get("self_ty") or "").startswith(heads) and "~" not in fid:
                shapes[im["self_ty"].split("<")[0]] = (_inline_shape(facts, f), f)
        if len(shapes) < 2:
            yield ob(["C17"], "S7", label, "undecided", "", f"fewer than two {label} impls found")
            continue
        vals = {}
        for ty, (sh, f) in shapes.items():
            vals.setdefault(sh, []).append((ty, f))
        if len(vals) == 1:
            yield ob(["C17"], "S7", label, "pass", where(next(iter(shapes.values()))[1]), f"{len(shapes)} {label}: introspect_len = {next(iter(vals))}")
        else:
            major = max(vals.items(), key=lambda kv: len(kv[1]))
            odd = [(ty, f, sh) for sh, lst in vals.items() if sh != major[0] for ty, f in lst]
            ty, f, sh = odd[0]
            yield ob(["C17"], "S7", label, "violation", where(f),
                     f"{ty}: introspect_len is `{sh}` while its sibling {label} compute `{major[0]}`: for some sizes the reported count differs from "
                     f"the number of children introspect_child serves (the children are served by the same shared code in all siblings)")


S6_TRIAGE = {
    "<bit_set::BitSet as savefile::Introspect>::introspect_value:Result::unwrap": "write! into a String cannot fail",
    "<alloc::collections::binary_heap::BinaryHeap<T> as savefile::Introspect>::introspect_child:Option::unwrap": "nth(index) after `index >= len()` returned None",
}


@rule("S6", ["C17"], floor=150, doc="rendering a value never panics: no Introspect / IntrospectItem impl of the library contains a panicking construct "
      "(panic!/unwrap/expect/range indexing/time arithmetic, or a library conversion documented to panic for some values such as "
      "DateTime::from(SystemTime)) outside the reviewed list - the Introspector renders every child of every frame it expands")
def s6(facts, tier):
    from .taint_rules import panic_kind
    for fid, f in sorted(facts.fns.items()):
        im = f.get("impl") or {}
        if f["crate"] != "savefile" or im.get("trait") not in (TRAIT, "savefile::IntrospectItem") or not f.get("body"):
            continue
        bad = []
        for x in walk(f["body"]):
            if x.get("k") == "Call":
                k = panic_kind(x)
                if k and f"{fid.split('~')[0]}:{k}" not in S6_TRIAGE:
                    bad.append((k, x))
        yield ob(["C17"], "S6", fid, "violation" if bad else "pass", where(f, bad[0][1]) if bad else where(f),
                 f"{fid}: panicking construct `{bad[0][0]}`: rendering a value of this type can panic for some values, and the Introspector "
                 f"renders every child of every frame it expands (navigation panics)" if bad else "no untriaged panicking construct")
