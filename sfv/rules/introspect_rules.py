"""S1/S2 (C17): for every Introspect impl, the number of children served by introspect_child (as a function of the
container's length) is the number reported by introspect_len; literal child chains are 0,1,..,k-1 without gaps."""
from ..core import ob, rule, where
from ..ir import callee, peel, peel_block, walk

TRAIT = "savefile::Introspect"


def index_vars(f):
    """(index variable, {derived var: divisor})"""
    ps = f["params"]
    if len(ps) < 2 or not ps[1].get("pat") or ps[1]["pat"].get("k") != "Bind":
        return None, {}
    idx = ps[1]["pat"]["v"]
    derived = {idx: 1}
    for x in walk(f["body"]):
        if x.get("k") == "LetS" and x["pat"].get("k") == "Bind" and x.get("init"):
            i = peel(x["init"])
            if i.get("k") == "Bin" and i["op"] == "Div" and is_var(i["l"], idx):
                r = peel(i["r"])
                if r.get("k") == "Lit" and "int" in r:
                    derived[x["pat"]["v"]] = r["int"]
            if i.get("k") == "Var" and i["v"] == idx:
                derived[x["pat"]["v"]] = 1
    return idx, derived


def is_var(n, v):
    n = peel(n)
    while isinstance(n, dict) and n.get("k") == "Cast":
        n = peel(n["e"])
    return isinstance(n, dict) and n.get("k") == "Var" and n["v"] == v


def var_of(n):
    n = peel(n)
    while isinstance(n, dict) and n.get("k") == "Cast":
        n = peel(n["e"])
    return n["v"] if isinstance(n, dict) and n.get("k") == "Var" else None


BOUNDED = ("::nth", "::get", "::index", "::get_index", "::get_mut")


def split_by_variant(f):
    """if the body dispatches on the variant of `self`: {variant name: arm body}"""
    ps = f["params"]
    if not ps or not ps[0].get("pat") or ps[0]["pat"].get("k") != "Bind":
        return None
    selfv = ps[0]["pat"]["v"]
    for x in walk(f["body"]):
        if x.get("k") == "Match" and is_var(x["e"], selfv) and x["arms"] and all(a["pat"].get("k") == "Variant" for a in x["arms"]):
            return {a["pat"]["variant"]: a["body"] for a in x["arms"]}
    return None


def child_classes(f, body=None):
    idx, derived = index_vars(f)
    out = set()
    lits = set()
    if idx is None:
        return {("?",)}, lits
    for x in walk(body if body is not None else f["body"]):
        k = x.get("k")
        if k == "Call":
            c = callee(x) or ""
            if c == "savefile::Introspect::introspect_child" and len(x["args"]) == 2 and var_of(x["args"][1]) in derived:
                out.add(("delegate", x.get("self_ty")))
            elif c.endswith(BOUNDED) and len(x["args"]) >= 2:
                v = var_of(x["args"][-1])
                if v in derived:
                    out.add(("len", derived[v]))
        elif k == "Index":
            v = var_of(x["i"])
            if v in derived:
                out.add(("len", derived[v]))
        elif k == "Bin" and x["op"] in ("Ge", "Lt", "Gt", "Le", "Eq", "Ne"):
            for a, b in ((x["l"], x["r"]), (x["r"], x["l"])):
                v = var_of(a)
                if v in derived:
                    bb = peel(b)
                    if bb.get("k") == "Call" and (callee(bb) or "").endswith("::len"):
                        out.add(("len", derived[v]))
                    elif bb.get("k") == "Lit" and "int" in bb and x["op"] in ("Eq", "Ne") and v == idx:
                        lits.add(bb["int"])
                    elif bb.get("k") == "ConstParam" and x["op"] in ("Ge", "Lt"):
                        out.add(("constparam", bb["name"]))
        elif k == "Match" and var_of(x["e"]) == idx:
            for a in x["arms"]:
                if a["pat"].get("k") == "Const" and "int" in a["pat"]:
                    lits.add(a["pat"]["int"])
    if lits:
        out.add(("const", len(lits)) if lits == set(range(len(lits))) else ("const-gap", tuple(sorted(lits))))
    if not out:
        out.add(("const", 0))
    return out, lits


def len_classes(n):
    n = peel_block(n)
    k = n.get("k")
    if k == "Block":
        if n.get("e") is not None and not n["stmts"]:
            return len_classes(n["e"])
        rets = [x["e"] for x in walk(n) if x.get("k") == "Return" and x.get("e")]
        out = set()
        for r in rets:
            out |= len_classes(r)
        if n.get("e") is not None:
            out |= len_classes(n["e"])
        return out or {("?",)}
    if k == "Return":
        return len_classes(n["e"])
    if k == "Lit" and "int" in n:
        return {("const", n["int"])}
    if k == "ConstParam":
        return {("constparam", n["name"])}
    if k == "Cast":
        return len_classes(n["e"])
    if k == "Call":
        c = callee(n) or ""
        if c == "savefile::Introspect::introspect_len":
            return {("delegate", n.get("self_ty"))}
        if c.endswith("::len"):
            return {("len", 1)}
        return {("?", c)}
    if k == "Bin" and n["op"] == "Mul":
        for a, b in ((n["l"], n["r"]), (n["r"], n["l"])):
            ca = len_classes(a)
            bb = peel(b)
            if ca == {("len", 1)} and bb.get("k") == "Lit" and "int" in bb:
                return {("len", bb["int"])}
        return {("?",)}
    if k == "If":
        out = len_classes(n["t"])
        out |= len_classes(n["f"]) if n.get("f") else {("const", 0)}
        return out
    if k == "Match":
        out = set()
        for a in n["arms"]:
            out |= len_classes(a["body"])
        return out
    return {("?",)}


@rule("S1", ["C17"], floor=150, doc="for every Introspect impl (library and derived) the children served by introspect_child and the count "
      "reported by introspect_len belong to the same class (len, 2*len, a literal k with indices 0..k-1, or delegation)")
def s1(facts, tier):
    impls = {}
    for f in facts.fns.values():
        im = f.get("impl")
        if im and im.get("trait") == TRAIT and f.get("name") in ("introspect_child", "introspect_len"):
            key = f["id"].rsplit("::", 1)[0]
            impls.setdefault(key, {})[f["name"]] = f
    for key, d in sorted(impls.items()):
        ch = d.get("introspect_child")
        ln = d.get("introspect_len")
        if ch is None:
            continue
        name = key[1:].split(" as ")[0] if key.startswith("<") else key
        cv = split_by_variant(ch)
        lv = split_by_variant(ln) if ln is not None else None
        if cv is not None and lv is not None and set(cv) == set(lv):
            bad = []
            for vn in sorted(cv):
                a, _ = child_classes(ch, cv[vn])
                b = len_classes(lv[vn])
                if any(c[0] == "const-gap" for c in a):
                    bad.append(f"variant {vn}: child indices not consecutive from 0")
                elif any(c[0] == "?" for c in a | b):
                    bad.append(None)
                elif ({c for c in a if c != ("const", 0)} or {("const", 0)}) != ({c for c in b if c != ("const", 0)} or {("const", 0)}):
                    bad.append(f"variant {vn}: introspect_child serves {sorted(map(str, a))}, introspect_len reports {sorted(map(str, b))}")
            real = [x for x in bad if x]
            if real:
                yield ob(["C17"], "S1", name, "violation", where(ln), f"{name}: " + "; ".join(real))
            elif bad:
                yield ob(["C17"], "S1", name, "undecided", where(ch), "a variant arm has a shape that is not modelled")
            else:
                yield ob(["C17"], "S1", name, "pass", where(ch), f"children and introspect_len agree for each of {len(cv)} variants")
            continue
        cc, lits = child_classes(ch)
        if ("const-gap",) in {c[:1] for c in cc}:
            gap = [c for c in cc if c[0] == "const-gap"][0][1]
            yield ob(["C17"], "S1", name, "violation", where(ch), f"{ch['id']} serves children at indices {gap}: not consecutive from 0")
            continue
        if ln is None:
            yield ob(["C17"], "S1", name, "pass", where(ch), f"children {sorted(map(str, cc))}; introspect_len is the trait default "
                     f"(counts the children actually served)", nontrivial=False)
            continue
        lc = len_classes(ln["body"])
        # Option-like: `None` child <-> 0
        norm = lambda s: {c for c in s}
        a, b = norm(cc), norm(lc)
        if any(c[0] == "?" for c in a | b):
            yield ob(["C17"], "S1", name, "undecided", where(ch), f"children {sorted(map(str, a))} vs len {sorted(map(str, b))}: shape not modelled")
            continue
        a_cmp = {c for c in a if c != ("const", 0)} or {("const", 0)}
        b_cmp = {c for c in b if c != ("const", 0)} or {("const", 0)}
        if a_cmp == b_cmp:
            yield ob(["C17"], "S1", name, "pass", where(ch), f"children and introspect_len agree: {sorted(map(str, a_cmp))}")
        else:
            yield ob(["C17"], "S1", name, "violation", where(ln), f"{name}: introspect_child serves {sorted(map(str, a_cmp))} children but "
                     f"introspect_len reports {sorted(map(str, b_cmp))}")
