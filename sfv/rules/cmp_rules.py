"""E3 rules: Q1/Q2 (diff_schema complete + reflexive), Q3 (layout_compatible conservative),
Q4/Q6 (ledger comparison), M2 (arg_layout_compatible fallback)."""
from ..cmptab import CmpExtractor, ROOTS
from ..core import ob, rule, where


def rel(p):
    """path relative to the matched variant: ('A','Enum.0','variants','len') -> ('0','variants','len')"""
    if not (isinstance(p, tuple) and p and p[0] in tuple(ROOTS)):
        return None
    q = list(p[1:])
    if q and "." in q[0] and q[0][:1].isupper():
        q[0] = q[0].split(".")[1]
    return tuple(q)


def side(p):
    return p[0] if isinstance(p, tuple) and p and p[0] in tuple(ROOTS) else None


class Table:
    """normalised facts per arm"""

    def __init__(self, facts):
        self.arms = {}
        for f in facts:
            self.arms.setdefault(f["arm"], []).append(f)
        # `(A, A) | (B, B) => ..` is one arm for two variants: its facts hold for each of them (so merging or splitting arms of
        # identical bodies does not change any lookup)
        for name in list(self.arms):
            if "|" in name:
                for part in name.split("|"):
                    if part not in self.arms:
                        self.arms[part] = self.arms[name]
        for name in ("Trait|FnClosure",):
            if name not in self.arms and all(p in self.arms for p in name.split("|")):
                self.arms[name] = [dict(f, arm=name) for p in name.split("|") for f in self.arms[p]]

    def neq(self, arm, path):
        """is there, on every alternative that can produce the accepting result, a comparison of the two operands' `path`
        whose inequality leads to the rejecting result?"""
        fs = self.arms.get(arm, [])

        def is_eq(f):
            if f["kind"] != "cmp":
                return False
            l, r = f["l"], f["r"]
            rl, rr = rel(l), rel(r)
            if rl is None or rr is None or side(l) == side(r):
                return False
            same = rl == tuple(path) and rr == tuple(path)
            # the single payload of a one-field variant stands for the whole value inside an alternative that matched that variant
            ext = rl == rr and len(rl) == len(path) + 1 and rl[:len(path)] == tuple(path) and str(rl[-1]).endswith(".0") and f.get("alt")
            return (same or ext) and ((f["op"] == "Ne" and f["reject_when"] is True) or (f["op"] == "Eq" and f["reject_when"] is False))
        eqs = [f for f in fs if is_eq(f)]
        if not eqs:
            return False
        alts = {tuple(f.get("alt", ())) for f in fs}
        leaves = [a for a in alts if a and not any(b != a and b[:len(a)] == a for b in alts)]
        for leaf in leaves:
            group = [f for f in fs if tuple(f.get("alt", ())) == leaf]
            # an alternative that only ever rejects needs no comparison
            if group and all(f["kind"] == "literal" and f.get("reject") for f in group):
                continue
            # `PAT if guard => REJECT`: an alternative whose only outcome is the rejecting literal, reached on conditions that reject
            if any(f["kind"] == "literal" and f.get("reject") for f in group) and \
                    all((f["kind"] == "literal" and f.get("reject")) or f.get("reject_when") is True for f in group):
                continue
            if not any(tuple(e.get("alt", ())) == leaf[:len(tuple(e.get("alt", ())))] for e in eqs):
                self.last_gap = (arm, path, leaf)
                return False
        return True

    def rec(self, arm, path, fn=None):
        for f in self.arms.get(arm, []):
            if f["kind"] == "rec" and (fn is None or f["fn"] == fn):
                a = f["args"]
                if len(a) >= 2 and rel(a[0]) == tuple(path) and rel(a[1]) == tuple(path) and side(a[0]) != side(a[1]):
                    if f["reject_when"] in ("same", False, "bound", "err"):
                        return f
        return None

    def const_reject(self, arm, sd, path, const_suffix=None, lit=None):
        """`<operand sd>.path == CONST` leads to reject (or `!= CONST` required for accept)"""
        for f in self.arms.get(arm, []):
            if f["kind"] != "cmp":
                continue
            for x, y in ((f["l"], f["r"]), (f["r"], f["l"])):
                if side(x) == sd and rel(x) == tuple(path) and isinstance(y, tuple) and y and y[0] in ("const", "lit"):
                    if const_suffix is not None and not (y[0] == "const" and str(y[1]).endswith(const_suffix)):
                        continue
                    if lit is not None and not (y[0] == "lit" and y[1] == lit):
                        continue
                    if (f["op"] == "Eq" and f["reject_when"] is True) or (f["op"] == "Ne" and f["reject_when"] is False):
                        return True
        return False

    def none_reject(self, arm, path):
        """a None in `path` of at least one operand leads to reject (with equality of both this covers both)"""
        for f in self.arms.get(arm, []):
            if f["kind"] == "isnone" and rel(f["p"]) == tuple(path) and f["reject_when"] is True:
                return True
            if f["kind"] == "letelse" and f.get("reject_when_nomatch") and "Some" in f["pat"]:
                p = f["p"]
                ps = p[1] if isinstance(p, tuple) and p and p[0] == "tuple" else [p]
                if any(rel(x) == tuple(path) for x in ps if x is not None):
                    return True
        return False

    def literal_only(self, arm, reject):
        fs = self.arms.get(arm, [])
        kinds = {f["kind"] for f in fs}
        return bool(fs) and kinds <= {"literal"} and all(f["reject"] is reject for f in fs)

    def has_cmp(self, arm):
        return any(f["kind"] in ("cmp", "rec", "joint", "isnone") for f in self.arms.get(arm, []))

    def joint(self, arm, path_a, path_b_negated):
        for f in self.arms.get(arm, []):
            if f["kind"] == "joint" and f["op"] == "And" and f["reject_when"] is True:
                parts = f["parts"]
                pos = [p for p in parts if not (isinstance(p, tuple) and p and p[0] == "not")]
                neg = [p[1] for p in parts if isinstance(p, tuple) and p and p[0] == "not"]
                if any(rel(p) == tuple(path_a) for p in pos) and any(rel(p) == tuple(path_b_negated) for p in neg):
                    return True
        return False


def extract(facts, fn_id, reject_kind, operand_params=None, recursive=()):
    f = facts.fns.get(fn_id)
    if f is None:
        return None, None, None
    ex = CmpExtractor(facts, f, reject_kind, 2, recursive=recursive, operand_params=operand_params)
    out = ex.run()
    return f, Table(out), ex


# ---------------------------------------------------------------------------------------------
# Q1: diff_schema reports every wire-relevant difference.  Written from the statement of C05/C13:
# a primitive's kind, a field or variant added/removed/reordered, a variant's name or discriminant,
# the discriminant width, an array length, option / vector / box wrapping.

DIFF_REQUIRED = {
    "Struct": {"neq": [("0", "fields", "len")], "rec": [("0", "fields", "*", "value")]},
    "Enum": {"neq": [("0", "variants", "len"), ("0", "discriminant_size"), ("0", "variants", "*", "name"),
                     ("0", "variants", "*", "discriminant"), ("0", "variants", "*", "fields", "len")],
             "rec": [("0", "variants", "*", "fields", "*", "value")]},
    "Primitive": {"neq": [("0",)]},
    "Vector": {"rec": [("0",)]},
    "SchemaOption": {"rec": [("0",)]},
    "Array": {"neq": [("0", "count")], "rec": [("0", "item_type")]},
    "Custom": {"neq": [("0",)]},
    "Boxed": {"rec": [("0",)]},
    "Reference": {"rec": [("0",)]},
    "Slice": {"rec": [("0",)]},
    "Recursion": {"neq": [("0",)]},
    "Trait|FnClosure": {"neq": [("0",), ("1", "methods", "*", "info", "arguments", "len")],
                        "rec": [("1", "methods", "*", "info", "arguments", "*", "schema")]},
    "Future": {"neq": [("0", "methods", "*", "info", "arguments", "len")],
               "rec": [("0", "methods", "*", "info", "arguments", "*", "schema")],
               "joint": [("1",), ("2",), ("3",)]},
}
DIFF_LITERAL_ACCEPT = ["ZeroSize", "Str", "UtcTimestamp", "StdIoError", "UninitSlice"]
DIFF_LITERAL_REJECT = ["Undefined", "<top>"]
# facts that are documented as *not* significant: they may appear in messages, never in a condition
DIFF_FORBIDDEN = ("dbg_name", "size", "alignment", "offset", "has_explicit_repr")


@rule("Q1", ["C05", "C13", "C15"], floor=30, doc="diff_schema compares every wire-relevant fact of each schema variant with a "
      "difference-reporting result, recurses into every nested schema, rejects mismatched variants, and never lets "
      "names / memory-layout annotations influence the result")
def q1(facts, tier):
    f, tab, ex = extract(facts, "savefile::diff_schema", "some")
    if f is None:
        return
    props = ["C05", "C13", "C15"]
    for arm, req in sorted(DIFF_REQUIRED.items()):
        for p in req.get("neq", []):
            ok = tab.neq(arm, p)
            yield ob(props, "Q1", f"{arm}:neq:{'.'.join(p)}", "pass" if ok else "violation", where(f),
                     f"diff_schema arm {arm}: {'.'.join(p)} of both schemas " +
                     ("is compared and a difference is reported" if ok else
                      "is NOT compared with a difference-reporting result: two types whose wire layout differs in this fact "
                      "compare as compatible"))
        for p in req.get("rec", []):
            ok = tab.rec(arm, p, "savefile::diff_schema") is not None
            yield ob(props, "Q1", f"{arm}:rec:{'.'.join(p)}", "pass" if ok else "violation", where(f),
                     f"diff_schema arm {arm}: nested schema {'.'.join(p)} " +
                     ("is compared recursively" if ok else "is NOT compared recursively (differences below it go unnoticed)"))
        for p in req.get("joint", []):
            ok = tab.joint(arm, p, p)
            yield ob(props, "Q1", f"{arm}:implies:{'.'.join(p)}", "pass" if ok else "violation", where(f),
                     f"diff_schema arm {arm}: bound {'.'.join(p)} required by the first and missing in the second " +
                     ("is reported" if ok else "is NOT reported"))
    for arm in DIFF_LITERAL_ACCEPT:
        ok = tab.literal_only(arm, False)
        yield ob(props, "Q1", f"{arm}:literal-same", "pass" if ok else "violation", where(f),
                 f"diff_schema arm {arm} (no payload) " + ("reports no difference" if ok else "does not plainly report 'no difference'"))
    # the fall-through after the variant arms, or a catch-all arm `(a, b) => Some(..)` / `_ => ..`
    ok = tab.literal_only("<top>", True) or any(x["kind"] == "literal" and x["reject"] for x in tab.arms.get("<top>", [])) \
        or tab.literal_only("_", True) or any(x["kind"] == "literal" and x["reject"] for x in tab.arms.get("_", []))
    yield ob(props, "Q1", "fallback:literal-differs", "pass" if ok else "violation", where(f),
             "diff_schema: schemas of different variants " + ("are reported as different" if ok else "are NOT reported as different"))
    cross = sorted({pr for fs in tab.arms.values() for x in fs if x["kind"] == "cross-variant-arm" for pr in x["pairs"]})
    yield ob(props, "Q1", "no-cross-variant-arm", "violation" if cross else "pass", where(f),
             (f"a diff_schema arm matches operands of different variants ({', '.join(cross[:4])}) and compares only their payloads: "
              "a value that changed from one wrapping to the other (e.g. a borrowed to an owned trait object) is reported as unchanged") if cross
             else "every arm that can report 'no difference' matches the same variant on both sides")
    short = [x for fs in tab.arms.values() for x in fs if x["kind"] == "one-sided-shortcut"]
    yield ob(props, "Q1", "no-one-sided-shortcut", "violation" if short else "pass", where(f),
             ("diff_schema skips the remaining comparisons on a condition that looks at one operand only (" +
              "; ".join(f"arm {x['arm']}: {x['cond']}" for x in short[:2]) + "): a difference on the other side goes unreported") if short
             else "no accepting shortcut is taken on a one-sided condition")
    skip = [x for fs in tab.arms.values() for x in fs if x["kind"] == "skipping-shortcut"]
    yield ob(props, "Q1", "no-shortcut-past-a-comparison", "violation" if skip else "pass", where(f),
             ("diff_schema leaves early with 'no difference' on a condition that does not look at " +
              "; ".join(f"{', '.join(x['skipped'][:3])} (arm {x['arm']})" for x in skip[:2]) +
              ", and thereby skips the comparison of exactly that fact: two schemas that differ only there compare as identical") if skip
             else "every accepting shortcut is taken on a condition that covers, on both operands, every fact whose comparison it skips")
    lr = [x for fs in tab.arms.values() for x in fs if x["kind"] == "loop-return"]
    yield ob(props, "Q1", "no-undetermined-return-inside-a-loop", "violation" if lr else "pass", where(f),
             ("inside a loop over elements (arm " + ", ".join(sorted({x['arm'] for x in lr})) + ") the function returns the result of a nested "
              "comparison as it is: when that comparison finds no difference, the remaining elements (methods, fields, variants) are never "
              "compared") if lr else "inside loops only definite differences are returned")
    bad = sorted({(arm, p) for arm, p in ex.cond_paths if any(x in DIFF_FORBIDDEN for x in p[-1:]) or
                  (len(p) >= 2 and p[-1] == "name" and "fields" in p) or p[-1] == "Vector.1" or "schema_string.0" in p[-1]})
    if bad:
        for arm, p in bad:
            yield ob(props, "Q1", f"{arm}:insignificant:{'.'.join(rel(p) or ())}", "violation", where(f),
                     f"diff_schema arm {arm}: {'.'.join(p)} (a name or memory-layout annotation, documented as not significant) "
                     f"influences the comparison: layout-equal types can now be rejected")
    else:
        yield ob(props, "Q1", "insignificant-facts", "pass", where(f),
                 f"no condition of diff_schema reads dbg_name / field names / size / alignment / offset / repr flag / "
                 f"Vec-String layout ({len(ex.cond_paths)} condition operands examined)")


@rule("Q2", ["C13"], floor=15, doc="reflexivity shape: inside a same-variant arm every reported difference is guarded by a "
      "comparison of *corresponding* paths of the two operands, so comparing a schema with itself reports nothing")
def q2(facts, tier):
    f, tab, ex = extract(facts, "savefile::diff_schema", "some")
    if f is None:
        return
    for arm, fs in sorted(tab.arms.items()):
        if arm in ("<top>", "_"):    # the fall-through and a catch-all arm only see operands of different variants
            continue
        bad = []
        for x in fs:
            if x["kind"] == "cmp" and side(x["l"]) and side(x["r"]) and rel(x["l"]) != rel(x["r"]):
                bad.append(f"compares {'.'.join(x['l'])} with {'.'.join(x['r'])}")
            if x["kind"] == "rec" and len(x["args"]) >= 2 and side(x["args"][0]) and side(x["args"][1]) \
                    and rel(x["args"][0]) != rel(x["args"][1]):
                bad.append(f"recurses on {'.'.join(x['args'][0])} vs {'.'.join(x['args'][1])}")
        uncond = [x for x in fs if x["kind"] == "literal" and x["reject"]]
        if not tab.has_cmp(arm) and uncond:
            bad.append("reports a difference unconditionally")
        if bad:
            yield ob(["C13"], "Q2", arm, "violation", where(f),
                     f"diff_schema arm {arm}: {'; '.join(bad)} — a schema compared with itself is reported as different")
        else:
            yield ob(["C13"], "Q2", arm, "pass", where(f), f"arm {arm}: differences only from comparisons of corresponding paths")


# ---------------------------------------------------------------------------------------------
# Q3: layout_compatible answers yes only when everything is known and equal (statement of C11)

LAYOUT_REQUIRED = {
    "Struct": {"neq": [("0", "fields", "len"), ("0", "alignment"), ("0", "size"), ("0", "fields", "*", "offset", "Some")],
               "none": [("0", "alignment"), ("0", "size"), ("0", "fields", "*", "offset")],
               "rec": [("0", "fields", "*", "value")]},
    "Enum": {"neq": [("0", "alignment"), ("0", "size"), ("0", "discriminant_size"), ("0", "variants", "len"),
                     ("0", "variants", "*", "discriminant"), ("0", "variants", "*", "fields", "len"),
                     ("0", "variants", "*", "fields", "*", "offset", "Some")],
             "none": [("0", "alignment"), ("0", "size"), ("0", "variants", "*", "fields", "*", "offset")],
             "flag": [("A", ("0", "has_explicit_repr")), ("B", ("0", "has_explicit_repr"))],
             "rec": [("0", "variants", "*", "fields", "*", "value")]},
    "Primitive": {"neq": [("0",)], "unknown": [("A", ("0", "schema_string.0")), ("B", ("0", "schema_string.0"))]},
    "Vector": {"neq": [("1",)], "unknown": [("A", ("1",)), ("B", ("1",))], "rec": [("0",)]},
    "Array": {"neq": [("0", "count")], "rec": [("0", "item_type")]},
    "Boxed": {"rec": [("0",)]},
    "Reference": {"rec": [("0",)]},
    "Slice": {"rec": [("0",)]},
}
LAYOUT_LITERAL_REJECT = ["SchemaOption", "Custom", "FnClosure", "_"]
LAYOUT_LITERAL_ACCEPT = ["ZeroSize"]


@rule("Q3", ["C11", "C10", "C09"], floor=35, doc="Schema::layout_compatible is conservative and complete: yes only if size, alignment, "
      "every field offset, discriminant width and values, collection layout are known on both sides and equal, recursively")
def q3(facts, tier):
    f, tab, ex = extract(facts, "savefile::Schema::layout_compatible", "false")
    if f is None:
        return
    P = ["C11", "C10", "C09"]
    for arm, req in sorted(LAYOUT_REQUIRED.items()):
        for p in req.get("neq", []):
            ok = tab.neq(arm, p)
            yield ob(P, "Q3", f"{arm}:eq:{'.'.join(p)}", "pass" if ok else "violation", where(f),
                     f"layout_compatible arm {arm}: {'.'.join(p)} " + ("must be equal on both sides" if ok else
                     "is NOT required to be equal: arguments with different memory layout would be passed by pointer"))
        for p in req.get("none", []):
            ok = tab.none_reject(arm, p)
            yield ob(P, "Q3", f"{arm}:known:{'.'.join(p)}", "pass" if ok else "violation", where(f),
                     f"layout_compatible arm {arm}: an unknown (None) {'.'.join(p)} " +
                     ("answers no" if ok else "does NOT answer no: two unknown layouts compare as identical"))
        for sd, p in req.get("flag", []):
            ok = tab.const_reject(arm, sd, p, lit=0)
            yield ob(P, "Q3", f"{arm}:flag:{sd}.{'.'.join(p)}", "pass" if ok else "violation", where(f),
                     f"layout_compatible arm {arm}: operand {sd} without explicit repr " + ("answers no" if ok else "does NOT answer no"))
        for sd, p in req.get("unknown", []):
            ok = tab.const_reject(arm, sd, p, const_suffix="VecOrStringLayout::Unknown")
            yield ob(P, "Q3", f"{arm}:known-layout:{sd}.{'.'.join(p)}", "pass" if ok else "violation", where(f),
                     f"layout_compatible arm {arm}: an unknown Vec/String layout on side {sd} " +
                     ("answers no" if ok else "does NOT answer no"))
        for p in req.get("rec", []):
            ok = tab.rec(arm, p, "savefile::Schema::layout_compatible") is not None
            yield ob(P, "Q3", f"{arm}:rec:{'.'.join(p)}", "pass" if ok else "violation", where(f),
                     f"layout_compatible arm {arm}: nested {'.'.join(p)} " + ("is checked recursively" if ok else "is NOT checked recursively"))
    for arm in LAYOUT_LITERAL_REJECT:
        ok = tab.literal_only(arm, True)
        yield ob(P, "Q3", f"{arm}:literal-no", "pass" if ok else "violation", where(f),
                 f"layout_compatible arm {arm} " + ("is a plain no" if ok else "is no longer a plain `false`"))
    for arm in LAYOUT_LITERAL_ACCEPT:
        ok = tab.literal_only(arm, False)
        yield ob(P, "Q3", f"{arm}:literal-yes", "pass" if ok else "violation", where(f), f"arm {arm} plain yes: {ok}")
    short = [x for fs in tab.arms.values() for x in fs if x["kind"] == "one-sided-shortcut"]
    yield ob(P, "Q3", "no-one-sided-shortcut", "violation" if short else "pass", where(f),
             ("layout_compatible answers yes early on a one-sided condition: " + "; ".join(f"arm {x['arm']}: {x['cond']}" for x in short[:2])) if short
             else "no accepting shortcut is taken on a one-sided condition")
    skip = [x for fs in tab.arms.values() for x in fs if x["kind"] == "skipping-shortcut"]
    yield ob(P, "Q3", "no-shortcut-past-a-comparison", "violation" if skip else "pass", where(f),
             ("layout_compatible answers yes early on a condition that does not look at " +
              "; ".join(f"{', '.join(x['skipped'][:3])} (arm {x['arm']})" for x in skip[:2]) +
              " and thereby skips the comparison of that fact") if skip
             else "every accepting shortcut is taken on a condition that covers, on both operands, every fact whose comparison it skips")
    known = set(LAYOUT_REQUIRED) | set(LAYOUT_LITERAL_REJECT) | set(LAYOUT_LITERAL_ACCEPT)
    for arm in sorted(set(tab.arms) - known):
        fs = tab.arms[arm]
        if tab.literal_only(arm, True):
            continue
        yield ob(P, "Q3", f"{arm}:unreviewed-arm", "violation", where(f),
                 f"layout_compatible has an arm {arm} that can answer yes and is not in the reviewed table (C11: nothing unknown may pass)")


# ---------------------------------------------------------------------------------------------
# Q4/Q6: the ledger comparison (AbiTraitDefinition::verify_backward_compatible)

LEDGER_FN = "savefile::AbiTraitDefinition::verify_compatible_with_old_impl"


@rule("Q4", ["C15", "C10"], floor=6, doc="verify_backward_compatible: a recorded method missing now, a changed argument count, "
      "argument schema, return schema or async flag each lead to Err")
def q4(facts, tier):
    f, tab, ex = extract(facts, LEDGER_FN, "err", operand_params=[0, 2], recursive=("savefile::diff_schema",))
    if f is None:
        return
    P = ["C15", "C10"]
    arm = "<top>"
    fs = tab.arms.get(arm, [])
    # method presence: `let Some(new) = self.methods.find(..) else { Err }`
    ok = any(x["kind"] == "letelse" and x.get("reject_when_nomatch") and isinstance(x["p"], tuple) and x["p"][0] == "opt"
             and rel(x["p"][1]) == ("methods", "*") for x in fs)
    yield ob(P, "Q4", "method-removed", "pass" if ok else "violation", where(f),
             "a method of the recorded version that is missing in the new definition " + ("is an error" if ok else "is NOT an error"))
    for name, path in (("argument-count", ("methods", "*", "info", "arguments", "len")),
                       ("async-flag", ("methods", "*", "info", "async_trait_heuristic"))):
        ok = tab.neq(arm, path)
        yield ob(P, "Q4", name, "pass" if ok else "violation", where(f),
                 f"{'.'.join(path)} of recorded and new definition " + ("must agree" if ok else "is NOT compared"))
    for name, path in (("return-schema", ("methods", "*", "info", "return_value")),
                       ("argument-schema", ("methods", "*", "info", "arguments", "*", "schema"))):
        r = None
        for x in fs:
            if x["kind"] == "rec" and x["fn"] == "savefile::diff_schema" and len(x["args"]) >= 2 \
                    and rel(x["args"][0]) == path and rel(x["args"][1]) == path:
                r = x
        yield ob(P, "Q4", name, "pass" if r is not None else "violation", where(f),
                 f"diff_schema of {'.'.join(path)} " + ("is evaluated" if r is not None else "is NOT evaluated"))
        if r is not None:
            flag = r["extra"][-1] if r.get("extra") else None
            if name == "return-schema":
                good = flag == ("lit", 1)
                yield ob(["C15"], "Q6", "ledger:return-position-flag", "pass" if good else "violation", where(f),
                         "diff_schema on the methods' return values is called with is_return_pos = " +
                         ("true" if good else f"{flag!r}, not `true`: for a future-returning method the comparison panics "
                          "('Futures are only supported in return position') on the second ledger run"))
    for bound in ("sync", "send"):
        ok = sum(1 for x in fs if x["kind"] == "joint" and any(rel(p if not (isinstance(p, tuple) and p[0] == "not") else p[1]) == (bound,)
                                                               for p in x["parts"])) >= 2
        yield ob(P, "Q4", f"bound-{bound}", "pass" if ok else "violation", where(f),
                 f"{bound} bound direction rules (both polarities) " + ("present" if ok else "missing"))


# ---------------------------------------------------------------------------------------------
# Q4b: the comparison of NESTED interface definitions (trait-object, closure and future arguments / return values)

@rule("Q4b", ["C15", "C10"], floor=3, doc="diff_abi_def (reached from diff_schema for Trait / FnClosure / Future schemas): for every method that both "
      "nested definitions have, the argument count, every argument schema AND the return schema are compared - a closure argument whose "
      "return type changed, or an async method whose output type changed, is otherwise accepted by the ledger and at connection time")
def q4b(facts, tier):
    f, tab, ex = extract(facts, "savefile::diff_abi_def", "some", operand_params=[0, 1], recursive=("savefile::diff_schema",))
    if f is None:
        yield ob(["C15", "C10"], "Q4b", "anchor", "violation", "", "savefile::diff_abi_def not found")
        return
    P = ["C15", "C10"]
    arm = "<top>"
    fs = tab.arms.get(arm, [])
    path = ("methods", "*", "info", "arguments", "len")
    ok = tab.neq(arm, path)
    yield ob(P, "Q4b", "argument-count", "pass" if ok else "violation", where(f),
             f"{'.'.join(path)} of both nested definitions " + ("must agree" if ok else "is NOT compared"))
    for name, path in (("return-schema", ("methods", "*", "info", "return_value")),
                       ("argument-schema", ("methods", "*", "info", "arguments", "*", "schema"))):
        r = None
        for x in fs:
            if x["kind"] == "rec" and x["fn"] == "savefile::diff_schema" and len(x["args"]) >= 2 \
                    and rel(x["args"][0]) == path and rel(x["args"][1]) == path:
                r = x
        yield ob(P, "Q4b", name, "pass" if r is not None else "violation", where(f),
                 f"nested interface: diff_schema of {'.'.join(path)} " + ("is evaluated" if r is not None else
                 "is NOT evaluated: a changed " + ("return type of a closure argument / output type of an async method" if name == "return-schema"
                                                   else "argument type of a nested interface") + " is not reported"))
