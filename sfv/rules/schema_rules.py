"""C12: W7 (the schema of a type describes the bytes its writer emits) and W10 (recursion guards name the right type)."""
import json
import os

from .. import rx, wire
from ..core import ob, rule, where
from ..ir import calls, callee, children, peel
from ..schema_tree import SchemaReader, Undecided
from ..shape import Analyzer
from .wire_rules import impl_pairs, SCHEMA_TYPES

WS = "savefile::WithSchema"


@rule("W10", ["C12"], floor=16, doc="in every `possible_recursion::<X>(|c| Y::schema(..))` the guarded type X is the type Y whose schema is "
      "computed (otherwise non-recursive types yield recursion markers)")
def w10(facts, tier):
    def guards_of(f):
        """(call node, guard type, inner type) of every possible_recursion call written in f, in source order, with the local helper
        calls interleaved as ('call', helper)"""
        out = []
        for x in calls(f["body"]):
            c = callee(x) or ""
            if c.endswith("WithSchemaContext::possible_recursion"):
                guard = x["targs"][0] if x.get("targs") else None
                inner = None
                for a in x["args"]:
                    cl = peel(a)
                    if cl.get("k") == "Closure":
                        cf = facts.fns.get(cl["id"])
                        if cf:
                            tys = [y.get("self_ty") for y in calls(cf["body"]) if callee(y) == "savefile::WithSchema::schema"]
                            inner = tys[0] if tys else None
                out.append(("guard", x, guard, inner, f))
            else:
                t = (x.get("res") or {}).get("fn") or x.get("fn")
                h = facts.fns.get(t)
                if h is not None and h["crate"] == "savefile" and not (h.get("impl") or {}).get("trait") and h.get("body") and h is not f \
                        and any("WithSchemaContext" in (p.get("ty") or "") for p in h.get("params", [])):
                    out.append(("call", h))
        return out

    def expand(f, depth=0, seen=()):
        res = []
        for it in guards_of(f):
            if it[0] == "guard":
                res.append(it)
            elif depth < 4 and it[1]["id"] not in seen:
                res.extend(expand(it[1], depth + 1, seen + (it[1]["id"],)))
        return res

    # obligations are keyed by the WithSchema impl that reaches the guard (its own, or one in a helper it calls): extracting or
    # sharing a helper does not rename a finding
    reached = set()
    todo = []
    for f in sorted(facts.fns_of_crate("savefile"), key=lambda g: g["id"]):
        im = f.get("impl") or {}
        if im.get("trait") == WS and f.get("name") == "schema":
            items = expand(f)
            for it in items:
                reached.add(id(it[1]))
            todo.append((im.get("self_ty", f["id"]), items))
    for f in sorted(facts.fns_of_crate("savefile"), key=lambda g: g["id"]):
        own = [it for it in guards_of(f) if it[0] == "guard" and id(it[1]) not in reached]
        if own:
            todo.append(((f.get("impl") or {}).get("self_ty", f["id"]), own))
    seen = {}
    for owner, items in todo:
        for _, x, guard, inner, f in items:
            n = seen.get(owner, 0) + 1
            seen[owner] = n
            key = f"{owner}#{n}"
            if inner is None:
                yield ob(["C12"], "W10", key, "undecided", where(f, x), "closure does not compute a schema directly")
            elif inner == guard:
                yield ob(["C12"], "W10", key, "pass", where(f, x), f"recursion guard for {guard} wraps the schema of {inner}")
            else:
                yield ob(["C12"], "W10", key, "violation", where(f, x),
                         f"{f['id']} (reached from the schema of {owner}): the schema of `{inner}` is computed under the recursion guard of `{guard}`: a map whose value type "
                         f"contains its key type (e.g. HashMap<String, Vec<String>>) is reported as recursive although it is not")


def schema_fns(facts, crate):
    out = {}
    for f in facts.fns.values():
        im = f.get("impl")
        if im and im.get("trait") == WS and f.get("name") == "schema" and f["crate"] == crate and "~" not in f["id"]:
            ts = wire.canon_generics(im["self_ty"], im["generics"])
            out[wire.subst_ty(im["self_ty"], ts)] = (f, ts)
    return out


def check_schema_vs_writer(facts, W, ty, sf, sts, wf, wts, versions, guards_list):
    """returns (status, detail)"""
    worst = None
    n = 0
    for v in versions:
        an = Analyzer(facts, wire.wire_classifier)
        sr = SchemaReader(facts, an, sts, v)
        try:
            ls = sr.lang(sf["body"], {})
        except Undecided as e:
            return "undecided", f"schema constructor tree not readable: {e}", 0
        ls = wire.canon(ls)
        for g in guards_list:
            if any(val for k, val in g.items() if k[0] == "Packed"):
                continue   # the raw path is byte-identical by P2; the schema describes the field-wise encoding
            lw, _, _, _ = W.lang(wf, v, g, wts)
            lw = wire.expand_regions(lw, facts)
            ok, word, a, b = W.contains_modulo_expansion(lw, ls, v, g)
            n += 1
            if ok is not True and worst is None:
                worst = (ok, v, word, a, b)
    if worst is None:
        return "pass", f"writer ⊆ language of the schema in {n} environment(s)", n
    ok, v, word, a, b = worst
    if word and any(isinstance(x, tuple) and x[0] in ("BULK", "RAW1") for x in word) and \
            any(isinstance(x, tuple) and x[0] == "BYTES" for x in rx.symbols(b)):
        ok = None
    return ("violation" if ok is False else "undecided"), (f"at version {v} the writer emits [{rx.show_word(word)}] which a reader driven "
            f"by the schema cannot parse; writer: {rx.show(a)[:260]} ; schema describes: {rx.show(b)[:260]}"), n


@rule("W7", ["C12"], floor=60, doc="for every library type with a literal schema constructor tree: the language its writer emits is "
      "contained in the language a schema-driven reader parses from its schema (enum = tag of discriminant_size bytes with value "
      "discriminant, then fields; vector = u64 length + items; ...)")
def w7(facts, tier):
    W = wire.WireAnalysis(facts)
    sers, _ = impl_pairs(facts)
    schemas = schema_fns(facts, "savefile")
    for (ty, fid), (wf, wts) in sorted(sers.items()):
        if "~" in fid:
            continue
        hit = schemas.get(ty)
        if hit is None:
            continue
        sf, sts = hit
        lits, guards = W.probe([wf], [wts])
        versions = W.version_classes(lits)
        if ty in SCHEMA_TYPES:
            versions = [v for v in versions if v >= 1] or [1]
        st, detail, n = check_schema_vs_writer(facts, W, ty, sf, sts, wf, wts, versions, W.guard_assignments(guards))
        yield ob(["C12"], "W7", ty, st, where(sf), f"{ty}: {detail}", nontrivial=(st != "undecided"))


@rule("W7d", ["C12", "C05"], floor=250, doc="derived schemas: for every corpus definition and version, the language the derived (field-wise) writer emits is "
      "contained in the language a schema-driven reader parses from the derived schema (fields in order with the right types, variant "
      "discriminants and discriminant width, version ranges)")
def w7d(facts, tier):
    from ..rules.derive_rules import corpus_types, impl_fn
    W = wire.WireAnalysis(facts)
    from .. import packed as _packed
    pe = _packed.PackedEval(facts)
    agg = {}
    for m in corpus_types(facts):
        ty = m["id"]
        sf = impl_fn(facts, ty, WS, "schema")
        wf = impl_fn(facts, ty, "savefile::Serialize", "serialize")
        if sf is None or wf is None:
            continue
        cur = m.get("cur_version", 0)
        worst = None
        n = 0
        und = None
        for v in range(0, cur + 2):
            an = Analyzer(facts, wire.wire_classifier)
            sr = SchemaReader(facts, an, {}, v)
            for p in sf["params"][:1]:
                if p.get("pat") and p["pat"].get("k") == "Bind":
                    sr.verenv[p["pat"]["v"]] = ("ver",)
            try:
                ls = wire.canon(sr.lang(sf["body"], {}))
            except Undecided as e:
                und = str(e)
                continue
            for pk in (False, True):
                if pk and pe.decide(ty, v) is not True:
                    continue   # the raw path is only taken where the decision says yes
                lw, _, _, _ = W.lang(wf, v, {("Packed", ty): pk}, {})
                if lw == rx.VOID:
                    continue   # a plain Removed field would have to be written: the writer diverges at this version
                ok, word, a, b = W.contains_modulo_expansion(lw, ls, v, {})
                n += 1
                if ok is not True and worst is None:
                    worst = (ok, v, word, a, b)
        if worst is not None:
            ok, v, word, a, b = worst
            cause = None
            if m["kind"] == "struct" and any(f.get("conv") and f["conv"]["from"] <= v <= f["conv"]["to"] for f in m["fields"]):
                cause = "retyped-field-written-at-older-version"
            if m["kind"] == "enum" and len(m["variants"]) > 256:
                cause = "enum-discriminant-wider-than-u8"
            if cause and ok is False:
                agg.setdefault(cause, []).append((ty, v, rx.show_word(word), sf))
                continue
            yield ob(["C12", "C05"], "W7d", ty, "violation" if ok is False else "undecided", where(sf),
                     f"{ty} at version {v}: the derived writer emits [{rx.show_word(word)}] which a reader driven by the derived schema cannot "
                     f"parse; writer: {rx.show(a)[:240]} ; schema describes: {rx.show(b)[:240]}", program=ty, version=v)
        elif und and n == 0:
            yield ob(["C12", "C05"], "W7d", ty, "undecided", where(sf), f"derived schema builder not readable: {und}", program=ty)
        else:
            yield ob(["C12", "C05"], "W7d", ty, "pass", where(sf), f"writer ⊆ schema language at {n} version(s)", program=ty)
    MSG = {"retyped-field-written-at-older-version": "a field whose type was changed with savefile_versions_as is simply omitted when the value is "
           "written at a version inside the conversion range, while schema(v) still describes the old type there",
           "enum-discriminant-wider-than-u8": "Variant.discriminant is a u8: for enums with more than 256 variants the schema's discriminants alias "
           "(variant 256 is recorded as 0) although the writer emits 2-byte discriminants"}
    for cause, ws in sorted(agg.items()):
        yield ob(["C12", "C05"], "W7d", cause, "violation", where(ws[0][3]), f"{MSG[cause]}; {len(ws)} corpus definition(s), e.g. {ws[0][0]} at version "
                 f"{ws[0][1]}: writer emits [{ws[0][2]}]", witnesses=[w[0] for w in ws[:20]])


# ---------------------------------------------------------------------------------------------
# W10b: recursion-guard levels are part of the stored schema format

GUARD_SPEC = os.path.join(os.path.dirname(os.path.dirname(os.path.dirname(os.path.abspath(__file__)))), "spec", "recursion_guards.json")


def guard_levels(facts):
    """per library WithSchema impl: the sorted list of guard depths (number of enclosing possible_recursion closures, through local
    helper functions) under which it asks for an inner type's schema"""
    def depths(f, base, seen):
        out = []

        def visit(x, d):
            if not isinstance(x, dict):
                return
            if x.get("k") == "Call":
                c = callee(x) or ""
                if c.endswith("WithSchemaContext::possible_recursion"):
                    for a in x.get("args", []):
                        cl = peel(a)
                        if cl.get("k") == "Closure" and facts.fns.get(cl["id"]):
                            visit(facts.fns[cl["id"]]["body"], d + 1)
                        else:
                            visit(a, d)
                    return
                if c == "savefile::WithSchema::schema":
                    out.append(d)
                else:
                    t = (x.get("res") or {}).get("fn") or x.get("fn")
                    h = facts.fns.get(t)
                    if h is not None and h["crate"] == "savefile" and not (h.get("impl") or {}).get("trait") and h["id"] not in seen \
                            and h.get("body") and any("WithSchemaContext" in (p.get("ty") or "") for p in h.get("params", [])):
                        out.extend(depths(h, d, seen | {h["id"]}))
            if x.get("k") == "Closure" and facts.fns.get(x["id"]):
                visit(facts.fns[x["id"]]["body"], d)
                return
            for y in children(x):
                visit(y, d)
        visit(f["body"], base)
        return out
    res = {}
    for ty, (f, ts) in schema_fns(facts, "savefile").items():
        res[ty] = sorted(depths(f, 0, {f["id"]}))
    return res


@rule("W10b", ["C03", "C12"], floor=60, doc="recursion-guard levels are part of the stored schema format (Schema::Recursion(n) counts guarded levels): every "
      "library WithSchema impl asks for its inner types' schemas under exactly the number of possible_recursion levels frozen in "
      "spec/recursion_guards.json - one level more or less renumbers the markers of recursive types, and schemas stored by other builds no longer match")
def w10b(facts, tier):
    if not os.path.exists(GUARD_SPEC):
        yield ob(["C03", "C12"], "W10b", "spec", "violation", "", "spec/recursion_guards.json missing")
        return
    spec = json.load(open(GUARD_SPEC))
    cur = guard_levels(facts)
    fns = schema_fns(facts, "savefile")
    for ty in sorted(set(spec) | set(cur)):
        w = where(fns[ty][0]) if ty in fns else ""
        if ty not in cur:
            yield ob(["C03", "C12"], "W10b", ty, "violation", w, f"{ty}: WithSchema impl frozen in the spec is gone")
        elif ty not in spec:
            yield ob(["C03", "C12"], "W10b", ty, "undecided", w, f"{ty}: WithSchema impl not in the frozen spec (new type): guard levels {cur[ty]} not judged")
        elif [d for d in spec[ty] if d > 0] != [d for d in cur[ty] if d > 0]:
            # (inner schemas asked for outside any guard add no level: forwarding to another type's schema is not a format change)
            yield ob(["C03", "C12"], "W10b", ty, "violation", w,
                     f"{ty}: inner schemas are computed under guard levels {cur[ty]}, the format has {spec[ty]}: Schema::Recursion depths of recursive "
                     f"types containing this type change, so a schema stored by another build of the library (an older file) no longer "
                     f"matches the one computed in memory")
        else:
            yield ob(["C03", "C12"], "W10b", ty, "pass", w, f"guard levels {cur[ty]} as frozen", nontrivial=bool(cur[ty]))


# ---------------------------------------------------------------------------------------------
# M9 (C11): who may claim a known Vec / String memory layout

LAYOUT_PROBES = {
    "savefile::calculate_string_memory_layout": {"alloc::string::String", "&str"},
    "savefile::calculate_vec_memory_layout": {"alloc::vec::Vec<$0>"},
    "savefile::calculate_slice_memory_layout": {"&[$0]"},
}


@rule("M9", ["C11"], floor=60, doc="a known Vec/String memory layout (anything but VecOrStringLayout::Unknown) is claimed only by the type whose memory the "
      "probe inspects: no other library WithSchema impl calls a layout probe or returns String's / Vec's schema as its own - such a type would be "
      "passed by reference across the ABI as if it were a String / Vec")
def m9(facts, tier):
    from ..ir import peel_block
    for ty, (f, ts) in sorted(schema_fns(facts, "savefile").items()):
        bad = []
        for x in calls(f["body"]):
            c = callee(x) or ""
            if c in LAYOUT_PROBES and ty not in LAYOUT_PROBES[c]:
                bad.append(f"calls {c.rsplit('::', 1)[-1]}")
        tail = peel_block(peel(f["body"]))
        while isinstance(tail, dict) and tail.get("k") == "Block" and tail.get("e") is not None and not tail.get("stmts"):
            tail = peel_block(peel(tail["e"]))
        if isinstance(tail, dict) and tail.get("k") == "Call" and callee(tail) == "savefile::WithSchema::schema":
            st = tail.get("self_ty") or ""
            if (st == "alloc::string::String" or st.startswith("alloc::vec::Vec<")) and ty not in ("alloc::string::String", "alloc::vec::Vec<$0>"):
                bad.append(f"returns the schema of {st} as its own")
        yield ob(["C11"], "M9", ty, "violation" if bad else "pass", where(f),
                 f"{ty}: {'; '.join(bad)}: the schema claims the probed memory layout of a String / Vec for a type that is not one; two sides "
                 f"that both make the claim pass the value by pointer and read it through the wrong type" if bad
                 else "no Vec/String layout claim for a foreign type")
