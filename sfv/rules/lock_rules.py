"""C16: L1 lock-order graph, L2 nothing that can re-enter the caches runs while a cache guard is live,
L3 all shared mutable state is a Mutex or an atomic."""
from ..core import ob, rule, where
from ..ir import callee, children, peel, walk

PROTO = "savefile_abi::AbiProtocol"


def mutex_statics(facts):
    return {s["id"]: s for s in facts.statics if "Mutex<" in s["ty"] or "RwLock<" in s["ty"]}


def static_arg(call, statics):
    for a in call.get("args", []):
        p = peel(a)
        if isinstance(p, dict) and p.get("k") == "Static" and p["id"] in statics:
            return p["id"]
    return None


def target_of(call):
    return (call.get("res") or {}).get("fn") or call.get("fn")


class LockModel:
    def __init__(self, facts):
        self.facts = facts
        self.statics = mutex_statics(facts)
        self.local = {fid: f for fid, f in facts.fns.items() if f["crate"] in ("savefile_abi", "savefile", "sfcorpus")}
        # functions that lock a mutex handed to them
        self.lockers = set()
        for fid, f in self.local.items():
            for x in walk(f["body"]):
                if x.get("k") == "Call" and (callee(x) or "").endswith(("Mutex::lock", "Mutex::try_lock", "RwLock::write", "RwLock::read")):
                    self.lockers.add(fid)
        self.direct = {}
        self.calls = {}
        for fid, f in self.local.items():
            acq, outs = set(), set()
            for x in walk(f["body"]):
                k = x.get("k")
                if k == "Call":
                    s = self.acquisition(x)
                    if s:
                        acq.add(s)
                    t = target_of(x)
                    if t in self.local:
                        outs.add(t)
                    for a in x.get("args", []):
                        p = peel(a)
                        if isinstance(p, dict) and p.get("k") == "Zst" and p.get("fn") in self.local:
                            outs.add(p["fn"])
                elif k == "Closure" and x["id"] in self.local:
                    outs.add(x["id"])
            self.direct[fid] = acq
            self.calls[fid] = outs
        self.trans = {}

    def acquisition(self, call):
        """the static mutex this call locks, if any"""
        c = callee(call) or ""
        s = static_arg(call, self.statics)
        if s is None:
            return None
        if c.endswith(("Mutex::lock", "Mutex::try_lock", "RwLock::write", "RwLock::read")):
            return s
        if target_of(call) in self.lockers:
            return s
        return None

    def acquires(self, fid, seen=None):
        if fid in self.trans:
            return self.trans[fid]
        seen = seen or set()
        if fid in seen:
            return set()
        seen.add(fid)
        out = set(self.direct.get(fid, ()))
        for g in self.calls.get(fid, ()):
            out |= self.acquires(g, seen)
        self.trans[fid] = out
        return out

    def held_regions(self, f):
        """[(lock, acquiring node, [nodes executed while the guard is live])]"""
        out = []

        def visit_block(b):
            stmts = b.get("stmts", [])
            for i, s in enumerate(stmts):
                node = s.get("init") if s["k"] == "LetS" else s.get("e")
                if node is None:
                    continue
                for x in walk(node):
                    if x.get("k") == "Call":
                        lk = self.acquisition(x)
                        if lk:
                            if s["k"] == "LetS" and s["pat"].get("k") == "Bind":
                                rest = [t for t in stmts[i + 1:]]
                                if b.get("e"):
                                    rest.append(b["e"])
                                out.append((lk, x, rest, s["pat"]["v"]))
                            else:
                                out.append((lk, x, [node], None))
            tail = b.get("e")
            if tail is not None:
                for x in walk(tail):
                    if x.get("k") == "Call":
                        lk = self.acquisition(x)
                        if lk:
                            out.append((lk, x, [tail], None))

        for x in walk(f["body"]):
            if x.get("k") == "Block":
                visit_block(x)
        return out


def proto_variant(call):
    for a in call.get("args", []):
        p = peel(a)
        if isinstance(p, dict) and p.get("k") == "Adt" and p.get("adt") == PROTO:
            return p["variant"]
    return None


@rule("L3", ["C16"], floor=3, doc="every static with interior mutability in savefile / savefile-abi is a Mutex or an atomic; no `static mut`")
def l3(facts, tier):
    for s in facts.statics:
        if s["crate"] not in ("savefile", "savefile_abi"):
            continue
        t = s["ty"]
        ok = (not s["mut"]) and ("UnsafeCell" not in t and "Cell<" not in t.replace("OnceCell", "") or "Mutex<" in t)
        kind = "Mutex" if "Mutex<" in t else ("atomic" if "atomic::" in t else "immutable")
        yield ob(["C16"], "L3", s["id"], "pass" if ok else "violation", f"{s['file']}:{s['line']}",
                 f"static {s['id']}: {kind}" if ok else f"static {s['id']} of type {t} is unsynchronised shared mutable state")


@rule("L1", ["C16"], floor=3, doc="the lock-order graph over the process-wide caches (edges: a lock acquired, directly or through "
      "local callees, while another guard is live) is acyclic and has no self edge (std Mutex is not re-entrant)")
def l1(facts, tier):
    lm = LockModel(facts)
    edges = {}
    sites = 0
    for fid, f in lm.local.items():
        if f["crate"] != "savefile_abi":
            continue
        for lk, node, region, var in lm.held_regions(f):
            sites += 1
            yield ob(["C16"], "L1", f"site:{fid}:{lk.split('::')[-1]}", "pass", where(f, node), f"{fid} acquires {lk}", nontrivial=False)
            for r in region:
                for x in walk(r):
                    if x is node or x.get("k") != "Call":
                        continue
                    inner = lm.acquisition(x)
                    if inner:
                        edges.setdefault((lk, inner), []).append((f, x, "directly"))
                    t = target_of(x)
                    if t in lm.local:
                        for l2_ in lm.acquires(t):
                            edges.setdefault((lk, l2_), []).append((f, x, f"via {t}"))
    # cycles
    graph = {}
    for (a, b) in edges:
        graph.setdefault(a, set()).add(b)

    def reach(a, b, seen=()):
        return any(n == b or (n not in seen and reach(n, b, seen + (n,))) for n in graph.get(a, ()))
    for (a, b), ws in sorted(edges.items()):
        f, x, how = ws[0]
        bad = (a == b) or reach(b, a)
        yield ob(["C16"], "L1", f"edge:{a.split('::')[-1]}->{b.split('::')[-1]}", "violation" if bad else "pass", where(f, x),
                 f"{b} is acquired {how} while {a} is held in {f['id']}" + (": self-deadlock / lock-order cycle" if bad else " (order consistent)"))


ALLOWED_UNDER_LOCK = {"InterrogateVersion", "InterrogateMethods", "CreateInstance"}


@rule("L2", ["C16"], floor=4, doc="while a cache guard is live the only calls that leave the image are the negotiation messages "
      "(InterrogateVersion / InterrogateMethods / CreateInstance), the callbacks handed out with them and the in-image handlers of "
      "those messages acquire no cache lock, and no RegularCall (user code) is issued under a lock")
def l2(facts, tier):
    lm = LockModel(facts)
    for fid, f in lm.local.items():
        if f["crate"] != "savefile_abi":
            continue
        for lk, node, region, var in lm.held_regions(f):
            for r in region:
                for x in walk(r):
                    if x.get("k") != "Call" or x is node:
                        continue
                    if isinstance(x.get("fun"), dict):
                        pv = proto_variant(x)
                        key = f"foreign:{fid}:{lk.split('::')[-1]}:{pv}"
                        if pv is None:
                            yield ob(["C16"], "L2", key, "undecided", where(f, x), f"indirect call under {lk} with an unrecognised message")
                        elif pv in ALLOWED_UNDER_LOCK:
                            # callbacks handed to the other side
                            cbs = []
                            for a in x["args"]:
                                for y in walk(a):
                                    if y.get("k") == "Zst" and y.get("fn") in lm.local:
                                        cbs.append(y["fn"])
                            bad = [c for c in cbs if lm.acquires(c)]
                            yield ob(["C16"], "L2", key, "violation" if bad else "pass", where(f, x),
                                     f"{pv} sent while {lk} is held; callbacks {cbs or '-'} " +
                                     (f"acquire {sorted(lm.acquires(bad[0]))}: deadlock when invoked" if bad else "acquire no lock"))
                        else:
                            yield ob(["C16"], "L2", key, "violation", where(f, x),
                                     f"{pv} (runs arbitrary implementation code, which may create connections) is issued while {lk} is held: "
                                     f"re-entrant acquisition deadlocks")
    # in-image handlers of the negotiation messages
    for hid in ("savefile_abi::abi_entry_light", "savefile_abi::abi_entry"):
        h = facts.fns.get(hid)
        if h is None:
            continue
        for x in walk(h["body"]):
            if x.get("k") == "Match" and x["arms"] and all(a["pat"].get("k") == "Variant" and a["pat"].get("adt") == PROTO for a in x["arms"]):
                for a in x["arms"]:
                    vn = a["pat"]["variant"]
                    if vn not in ALLOWED_UNDER_LOCK:
                        continue
                    acq = set()
                    for y in walk(a["body"]):
                        if y.get("k") == "Call":
                            s = lm.acquisition(y)
                            if s:
                                acq.add(s)
                            t = target_of(y)
                            if t in lm.local:
                                acq |= lm.acquires(t)
                        elif y.get("k") == "Closure" and y["id"] in lm.local:
                            acq |= lm.acquires(y["id"])
                    yield ob(["C16"], "L2", f"handler:{hid.split('::')[-1]}:{vn}", "violation" if acq else "pass", where(h, a["body"]),
                             f"handler of {vn} in {hid} " + (f"acquires {sorted(acq)} (the peer holds a cache lock while it runs)" if acq
                                                              else "acquires no cache lock (library code; user constructors run in the plugin image)"))
                break
