"""C16: L1 lock-order graph, L2 nothing that can re-enter the caches runs while a cache guard is live,
L3 all shared mutable state is a Mutex or an atomic."""
from ..core import ob, rule, where
from ..ir import callee, children, peel, walk

PROTO = "savefile_abi::AbiProtocol"


def mutex_statics(facts):
    return {s["id"]: s for s in facts.statics if "Mutex<" in s["ty"] or "RwLock<" in s["ty"]}


def static_arg(call, statics):
    for a in call.get("args", []):
        p = peel(a)
        if isinstance(p, dict) and p.get("k") == "Static" and p["id"] in statics:
            return p["id"]
    return None


def target_of(call):
    return (call.get("res") or {}).get("fn") or call.get("fn")


class LockModel:
    def __init__(self, facts):
        self.facts = facts
        self.statics = mutex_statics(facts)
        self.local = {fid: f for fid, f in facts.fns.items() if f["crate"] in ("savefile_abi", "savefile", "sfcorpus")}
        # functions that lock a mutex handed to them
        self.lockers = set()
        for fid, f in self.local.items():
            for x in walk(f["body"]):
                if x.get("k") == "Call" and (callee(x) or "").endswith(("Mutex::lock", "Mutex::try_lock", "RwLock::write", "RwLock::read")):
                    self.lockers.add(fid)
        self.direct = {}
        self.calls = {}
        for fid, f in self.local.items():
            acq, outs = set(), set()
            for x in walk(f["body"]):
                k = x.get("k")
                if k == "Call":
                    s = self.acquisition(x)
                    if s:
                        acq.add(s)
                    t = target_of(x)
                    if t in self.local:
                        outs.add(t)
                    for a in x.get("args", []):
                        p = peel(a)
                        if isinstance(p, dict) and p.get("k") == "Zst" and p.get("fn") in self.local:
                            outs.add(p["fn"])
                elif k == "Closure" and x["id"] in self.local:
                    outs.add(x["id"])
            self.direct[fid] = acq
            self.calls[fid] = outs
        self.trans = {}

    def acquisition(self, call):
        """the static mutex this call locks, if any"""
        c = callee(call) or ""
        s = static_arg(call, self.statics)
        if s is None:
            return None
        if c.endswith(("Mutex::lock", "Mutex::try_lock", "RwLock::write", "RwLock::read")):
            return s
        if target_of(call) in self.lockers:
            return s
        return None

    def acquires(self, fid, seen=None):
        if fid in self.trans:
            return self.trans[fid]
        seen = seen or set()
        if fid in seen:
            return set()
        seen.add(fid)
        out = set(self.direct.get(fid, ()))
        for g in self.calls.get(fid, ()):
            out |= self.acquires(g, seen)
        self.trans[fid] = out
        return out

    def held_regions(self, f):
        """[(lock, acquiring node, [nodes executed while the guard is live], guard variable)]
        A guard bound by `let` lives to the end of the block that binds it, or to an explicit `drop(guard)` at that level;
        an acquisition inside a nested block / closure of an initialiser belongs to that nested block."""
        out = []

        def shallow(n):
            """the calls evaluated as part of n itself: not those inside closures or in the statements of nested blocks (a nested
            block's tail expression is part of the value: its temporaries live to the end of the enclosing statement)"""
            stack = [n]
            while stack:
                x = stack.pop()
                if x.get("k") == "Closure":
                    continue
                if x.get("k") == "Block" and (x["stmts"] or x.get("labelled")):
                    if x.get("e") is not None:
                        stack.append(x["e"])
                    continue
                yield x
                stack.extend(children(x))

        def dropped_at(stmts, var):
            for j, t in enumerate(stmts):
                node = t.get("init") if t.get("k") == "LetS" else t.get("e", t)
                if node is None:
                    continue
                for y in shallow(node):
                    if y.get("k") == "Call" and (callee(y) or "").endswith(("mem::drop", "::drop")) and y.get("args"):
                        a = peel(y["args"][0])
                        if a.get("k") == "Var" and a["v"] == var:
                            return j
            return None

        def visit_block(b):
            stmts = b.get("stmts", [])
            for i, s in enumerate(stmts):
                node = s.get("init") if s["k"] == "LetS" else s.get("e")
                if node is None:
                    continue
                for x in shallow(node):
                    if x.get("k") == "Call":
                        lk = self.acquisition(x)
                        if lk:
                            if s["k"] == "LetS" and s["pat"].get("k") == "Bind":
                                rest = [t for t in stmts[i + 1:]]
                                j = dropped_at(rest, s["pat"]["v"])
                                if j is not None:
                                    rest = rest[:j]
                                elif b.get("e"):
                                    rest.append(b["e"])
                                out.append((lk, x, rest, s["pat"]["v"]))
                            else:
                                out.append((lk, x, [node], None))
            tail = b.get("e")
            if tail is not None:
                for x in shallow(tail):
                    if x.get("k") == "Call":
                        lk = self.acquisition(x)
                        if lk:
                            out.append((lk, x, [tail], None))

        for x in walk(f["body"]):
            if x.get("k") == "Block":
                visit_block(x)
        return out


def proto_variant(call):
    for a in call.get("args", []):
        p = peel(a)
        if isinstance(p, dict) and p.get("k") == "Adt" and p.get("adt") == PROTO:
            return p["variant"]
    return None


@rule("L3", ["C16"], floor=3, doc="every static with interior mutability in savefile / savefile-abi is a Mutex or an atomic; no `static mut`")
def l3(facts, tier):
    for s in facts.statics:
        if s["crate"] not in ("savefile", "savefile_abi"):
            continue
        t = s["ty"]
        if "thread::local::LocalKey<" in t or "thread_local" in t or "__RUST_STD_INTERNAL" in s["id"]:
            yield ob(["C16"], "L3", s["id"], "pass", f"{s['file']}:{s['line']}", f"static {s['id']}: thread-local (not shared between threads)",
                     nontrivial=False)
            continue
        ok = (not s["mut"]) and ("UnsafeCell" not in t and "Cell<" not in t.replace("OnceCell", "") or "Mutex<" in t)
        kind = "Mutex" if "Mutex<" in t else ("atomic" if "atomic::" in t else "immutable")
        yield ob(["C16"], "L3", s["id"], "pass" if ok else "violation", f"{s['file']}:{s['line']}",
                 f"static {s['id']}: {kind}" if ok else f"static {s['id']} of type {t} is unsynchronised shared mutable state")


@rule("L1", ["C16"], floor=3, doc="the lock-order graph over the process-wide caches (edges: a lock acquired, directly or through "
      "local callees, while another guard is live) is acyclic and has no self edge (std Mutex is not re-entrant)")
def l1(facts, tier):
    lm = LockModel(facts)
    edges = {}
    sites = 0
    for fid, f in lm.local.items():
        if f["crate"] != "savefile_abi":
            continue
        for lk, node, region, var in lm.held_regions(f):
            sites += 1
            yield ob(["C16"], "L1", f"site:{fid}:{lk.split('::')[-1]}", "pass", where(f, node), f"{fid} acquires {lk}", nontrivial=False)
            for r in region:
                for x in walk(r):
                    if x is node or x.get("k") != "Call":
                        continue
                    inner = lm.acquisition(x)
                    if inner:
                        edges.setdefault((lk, inner), []).append((f, x, "directly"))
                    t = target_of(x)
                    if t in lm.local:
                        for l2_ in lm.acquires(t):
                            edges.setdefault((lk, l2_), []).append((f, x, f"via {t}"))
    # cycles
    graph = {}
    for (a, b) in edges:
        graph.setdefault(a, set()).add(b)

    def reach(a, b, seen=()):
        return any(n == b or (n not in seen and reach(n, b, seen + (n,))) for n in graph.get(a, ()))
    for (a, b), ws in sorted(edges.items()):
        f, x, how = ws[0]
        bad = (a == b) or reach(b, a)
        yield ob(["C16"], "L1", f"edge:{a.split('::')[-1]}->{b.split('::')[-1]}", "violation" if bad else "pass", where(f, x),
                 f"{b} is acquired {how} while {a} is held in {f['id']}" + (": self-deadlock / lock-order cycle" if bad else " (order consistent)"))


ALLOWED_UNDER_LOCK = {"InterrogateVersion", "InterrogateMethods", "CreateInstance"}


@rule("L2", ["C16"], floor=4, doc="while a cache guard is live the only calls that leave the image are the negotiation messages "
      "(InterrogateVersion / InterrogateMethods / CreateInstance), the callbacks handed out with them and the in-image handlers of "
      "those messages acquire no cache lock, and no RegularCall (user code) is issued under a lock")
def l2(facts, tier):
    lm = LockModel(facts)
    for fid, f in lm.local.items():
        if f["crate"] != "savefile_abi":
            continue
        for lk, node, region, var in lm.held_regions(f):
            for r in region:
                for x in walk(r):
                    if x.get("k") != "Call" or x is node:
                        continue
                    if isinstance(x.get("fun"), dict):
                        pv = proto_variant(x)
                        key = f"foreign:{fid}:{lk.split('::')[-1]}:{pv}"
                        if pv is None:
                            yield ob(["C16"], "L2", key, "undecided", where(f, x), f"indirect call under {lk} with an unrecognised message")
                        elif pv in ALLOWED_UNDER_LOCK:
                            # callbacks handed to the other side
                            cbs = []
                            for a in x["args"]:
                                for y in walk(a):
                                    if y.get("k") == "Zst" and y.get("fn") in lm.local:
                                        cbs.append(y["fn"])
                            bad = [c for c in cbs if lm.acquires(c)]
                            yield ob(["C16"], "L2", key, "violation" if bad else "pass", where(f, x),
                                     f"{pv} sent while {lk} is held; callbacks {cbs or '-'} " +
                                     (f"acquire {sorted(lm.acquires(bad[0]))}: deadlock when invoked" if bad else "acquire no lock"))
                        else:
                            yield ob(["C16"], "L2", key, "violation", where(f, x),
                                     f"{pv} (runs arbitrary implementation code, which may create connections) is issued while {lk} is held: "
                                     f"re-entrant acquisition deadlocks")
    # destructors of locals declared while a cache guard is live run before that guard is released (reverse declaration order),
    # on every exit of the scope including `?`
    drop_impls = {}
    for g in lm.local.values():
        im = g.get("impl") or {}
        if im.get("trait") in ("core::ops::drop::Drop", "std::ops::Drop") and g["crate"] == "savefile_abi":
            drop_impls[im.get("self_ty", "").split("<")[0]] = g
    for fid, f in sorted(lm.local.items()):
        if f["crate"] != "savefile_abi":
            continue
        for lk, node, region, var in lm.held_regions(f):
            if var is None:
                continue
            for r in region:
                if r.get("k") != "LetS" or r["pat"].get("k") != "Bind":
                    continue
                ty = (r["pat"].get("ty") or (r.get("init") or {}).get("ty") or "").split("<")[0]
                d = drop_impls.get(ty)
                if d is None:
                    continue
                msgs = []
                todo, seen_ = [d], set()
                while todo:
                    g = todo.pop()
                    if g["id"] in seen_:
                        continue
                    seen_.add(g["id"])
                    for y in walk(g["body"]):
                        if y.get("k") == "Call":
                            if isinstance(y.get("fun"), dict):
                                msgs.append(proto_variant(y) or "an indirect call")
                            t = target_of(y)
                            if t in lm.local:
                                todo.append(lm.local[t])
                acq = lm.acquires(d["id"])
                bad = [m for m in msgs if m not in ALLOWED_UNDER_LOCK] or sorted(acq)
                key = f"drop-under-lock:{fid}:{lk.split('::')[-1]}:{ty.split('::')[-1]}"
                yield ob(["C16"], "L2", key, "violation" if bad else "pass", where(f, r),
                         f"`{r['pat']['v'].split('#')[0]}: {ty.split('::')[-1]}` is declared while {lk} is held and its destructor is harmless" if not bad else
                         f"`{r['pat']['v'].split('#')[0]}: {ty.split('::')[-1]}` is declared after the guard of {lk}, so on every exit of the scope its "
                         f"destructor runs while the lock is still held, and that destructor issues {bad[0]} (implementation code, which may "
                         f"create connections or take application locks): deadlock")
    # negotiation / instantiation messages sent with no cache guard live (nothing to deadlock on)
    under = set()
    for fid, f in lm.local.items():
        if f["crate"] != "savefile_abi":
            continue
        for lk, node, region, var in lm.held_regions(f):
            for r in region:
                for x in walk(r):
                    under.add(id(x))
    for fid, f in sorted(lm.local.items()):
        if f["crate"] != "savefile_abi":
            continue
        for x in walk(f["body"]):
            if x.get("k") == "Call" and isinstance(x.get("fun"), dict) and id(x) not in under:
                pv = proto_variant(x)
                if pv in ALLOWED_UNDER_LOCK:
                    yield ob(["C16"], "L2", f"foreign:{fid}:unlocked:{pv}", "pass", where(f, x),
                             f"{pv} is sent from {fid} while no cache guard is live", nontrivial=False)
    # in-image handlers of the negotiation messages
    for hid in ("savefile_abi::abi_entry_light", "savefile_abi::abi_entry"):
        h = facts.fns.get(hid)
        if h is None:
            continue
        for x in walk(h["body"]):
            if x.get("k") == "Match" and x["arms"] and all(a["pat"].get("k") == "Variant" and a["pat"].get("adt") == PROTO for a in x["arms"]):
                for a in x["arms"]:
                    vn = a["pat"]["variant"]
                    if vn not in ALLOWED_UNDER_LOCK:
                        continue
                    acq = set()
                    for y in walk(a["body"]):
                        if y.get("k") == "Call":
                            s = lm.acquisition(y)
                            if s:
                                acq.add(s)
                            t = target_of(y)
                            if t in lm.local:
                                acq |= lm.acquires(t)
                        elif y.get("k") == "Closure" and y["id"] in lm.local:
                            acq |= lm.acquires(y["id"])
                    yield ob(["C16"], "L2", f"handler:{hid.split('::')[-1]}:{vn}", "violation" if acq else "pass", where(h, a["body"]),
                             f"handler of {vn} in {hid} " + (f"acquires {sorted(acq)} (the peer holds a cache lock while it runs)" if acq
                                                              else "acquires no cache lock (library code; user constructors run in the plugin image)"))
                break


# ---------------------------------------------------------------------------------------------
# L4: no lost wake-up: whoever changes the state a thread may be waiting on signals the condition variable

MUTATORS = ("insert", "remove", "clear", "retain", "entry", "get_mut", "push", "pop", "take", "replace", "extend", "drain",
            "remove_entry", "swap_remove", "truncate")


def _variants_in_pat(p, acc):
    if not isinstance(p, dict):
        return
    if p.get("k") == "Variant" and p.get("adt") not in ("core::option::Option", "core::result::Result"):
        acc.add(p.get("variant"))
    for key in ("subs", "pats"):
        for q in p.get(key, []) or []:
            _variants_in_pat(q.get("p", q) if isinstance(q, dict) else q, acc)
    for key in ("sub", "p"):
        if isinstance(p.get(key), dict):
            _variants_in_pat(p[key], acc)


@rule("L4", ["C16"], floor=0, doc="condition variables: every function that, holding the mutex a waiter sleeps on, changes the protected state to "
      "something other than the waited-for marker, signals the condition variable before it leaves (no lost wake-up)")
def l4(facts, tier):
    from ..flow import parent_map
    lm = LockModel(facts)
    cvs = {s["id"]: s for s in facts.statics if "Condvar" in s["ty"] and s["crate"] in ("savefile", "savefile_abi")}
    if not cvs:
        yield ob(["C16"], "L4", "no-condvar", "pass", "", "no condition variable exists in savefile / savefile-abi: threads only ever block on "
                 "the cache mutexes themselves (rules L1, L2)", nontrivial=False)
        return
    # helpers that wait on a condvar handed to them
    wait_helpers = set()
    for fid, f in lm.local.items():
        for x in walk(f["body"]):
            if x.get("k") == "Call" and "Condvar::wait" in (callee(x) or ""):
                if not any(peel(a).get("k") == "Static" for a in x.get("args", [])):
                    wait_helpers.add(fid)

    def cv_of(x):
        for a in x.get("args", []):
            p = peel(a)
            if p.get("k") == "Static" and p["id"] in cvs:
                return p["id"]
        return None

    waits = []   # (fn, call, condvar, mutex, wait-state variants)
    for fid, f in lm.local.items():
        pm = None
        regions = None
        for x in walk(f["body"]):
            if x.get("k") != "Call":
                continue
            c = callee(x) or ""
            if not ("Condvar::wait" in c or target_of(x) in wait_helpers):
                continue
            cv = cv_of(x)
            if cv is None:
                continue
            pm = pm or parent_map(f["body"])
            regions = regions if regions is not None else lm.held_regions(f)
            mtx = None
            for lk, node, region, var in regions:
                if any(x is y for r in region for y in walk(r)):
                    mtx = lk
            wv = set()
            p = pm.get(id(x))
            child = x
            while p is not None:
                if p.get("k") == "Match":
                    for a in p["arms"]:
                        if any(child is y for y in walk(a["body"])):
                            _variants_in_pat(a["pat"], wv)
                if p.get("k") == "If" and peel(p["c"]).get("k") == "Let" and any(child is y for y in walk(p["t"])):
                    _variants_in_pat(peel(p["c"])["pat"], wv)
                child = p
                p = pm.get(id(p))
            waits.append((f, x, cv, mtx, wv))
    for f, x, cv, mtx, wv in waits:
        yield ob(["C16"], "L4", f"wait:{f['id']}:{cv.split('::')[-1]}", "pass" if mtx else "undecided", where(f, x),
                 f"{f['id']} waits on {cv} under {mtx} while the entry is {sorted(wv) or '?'}" if mtx else
                 f"{f['id']} waits on {cv}: the mutex it sleeps on was not identified")
    for cv in sorted({w[2] for w in waits}):
        mtxs = {w[3] for w in waits if w[2] == cv and w[3]}
        wstate = set().union(*[w[4] for w in waits if w[2] == cv])
        n = 0
        for fid, f in sorted(lm.local.items()):
            if f["crate"] not in ("savefile", "savefile_abi"):
                continue
            pm = None
            for lk, node, region, var in lm.held_regions(f):
                if lk not in mtxs or var is None:
                    continue
                for r in region:
                    for m in walk(r):
                        if m.get("k") != "Call" or not m.get("args"):
                            continue
                        name = (callee(m) or "").rsplit("::", 1)[-1]
                        recv = m["args"][0]
                        if name not in MUTATORS or not any(y.get("k") == "Var" and y["v"] == var for y in walk(recv)):
                            continue
                        # exempt: putting the waited-for marker in place
                        vals = {y.get("variant") for a in m["args"][1:] for y in walk(a) if y.get("k") == "Adt"}
                        if name == "insert" and vals & wstate:
                            continue
                        n += 1
                        pm = pm or parent_map(f["body"])
                        # a notify in the straight-line code around the mutation, before the function is left
                        notified = False
                        node_ = m
                        p = pm.get(id(node_))
                        innermost = True
                        while p is not None and not notified:
                            if p.get("k") == "Block":
                                items = list(p["stmts"]) + ([p["e"]] if p.get("e") is not None else [])
                                # the statement of this block that contains the mutation: in the innermost block every statement
                                # counts (the lock is held throughout), further out only what follows it (not sibling branches)
                                at = next((i_ for i_, it in enumerate(items) if it is node_ or any(y is node_ for y in walk(it))), None)
                                cand = items if innermost else (items[at + 1:] if at is not None else [])
                                if innermost and at is not None:
                                    cand = [it for i_, it in enumerate(items) if i_ != at] + [items[at]]
                                innermost = False
                                for it in cand:
                                    for y in walk(it):
                                        if y.get("k") == "Call" and "Condvar::notify" in (callee(y) or "") and cv_of(y) == cv:
                                            notified = True
                                # does this block leave the function before control can reach the enclosing one?
                                last = items[-1] if items else None
                                if last is not None and any(y.get("k") == "Return" for y in walk(last)) and not notified:
                                    break
                            if p is r:
                                pass
                            node_ = p
                            p = pm.get(id(p))
                        key = f"notify:{fid}:{name}#{n}"
                        yield ob(["C16"], "L4", key, "pass" if notified else "violation", where(f, m),
                                 f"{fid}: `{name}` on the state guarded by {lk} is followed by a notify on {cv}" if notified else
                                 f"{fid}: `{name}` changes the state guarded by {lk} and the function returns without signalling {cv}: a thread "
                                 f"sleeping in a wait on it (entry {sorted(wstate)}) is never woken — concurrent connection attempts hang")


# ---------------------------------------------------------------------------------------------
# L5: check-then-act across two critical sections of the same lock

@rule("L5", ["C16"], floor=0, doc="no check-then-act across two critical sections: when a function decides on a value read under a lock and then, on "
      "that decision, reads the same locked state again in a SECOND critical section, the second access receives the data the decision was "
      "about (so that it can re-validate under the lock); otherwise another thread may replace the state in between and the caller "
      "combines two unrelated snapshots")
def l5(facts, tier):
    from ..flow import parent_map
    lm = LockModel(facts)
    n = 0
    for fid, f in sorted(lm.local.items()):
        if f["crate"] != "savefile_abi" or not f.get("body"):
            continue
        sites = []     # (call node, lock)
        for x in walk(f["body"]):
            if x.get("k") != "Call":
                continue
            t = target_of(x)
            lk = lm.acquisition(x)
            locks = {lk} if lk else (set(lm.acquires(t)) if t in lm.local and t != fid else set())
            for l_ in locks:
                sites.append((x, l_))
        if len(sites) < 2:
            continue
        # sites that are nested in a region where this function already holds the lock are one section
        held = []
        for lk, node, region, var in lm.held_regions(f):
            for r in region:
                for y in walk(r):
                    held.append((id(y), lk))
        order = {id(y): i for i, y in enumerate(walk(f["body"]))}
        pm = parent_map(f["body"])
        for i, (x1, l1) in enumerate(sites):
            for x2, l2 in sites[i + 1:]:
                if l1 != l2 or x1 is x2 or order[id(x2)] < order[id(x1)]:
                    continue
                if (id(x2), l1) in held and (id(x1), l1) in held:
                    continue
                # is x2 control-dependent on x1's result?
                cond = None
                p, child = pm.get(id(x2)), x2
                while p is not None:
                    if p.get("k") == "If" and any(child is y for y in walk(p["t"])):
                        if any(y is x1 for y in walk(p["c"])):
                            cond = p["c"]
                        else:
                            vs = {y["v"] for y in walk(p["c"]) if y.get("k") == "Var"}
                            for z in walk(f["body"]):
                                if z.get("k") == "LetS" and z["pat"].get("k") == "Bind" and z["pat"]["v"] in vs and z.get("init") is not None \
                                        and any(y is x1 for y in walk(z["init"])):
                                    cond = p["c"]
                    child, p = p, pm.get(id(p))
                if cond is None:
                    continue
                n += 1
                cond_vars = {y["v"] for y in walk(cond) if y.get("k") == "Var"}
                cond_vars |= {y["v"] for a in x1.get("args", []) for y in walk(a) if y.get("k") == "Var"}
                passes = any(y.get("k") == "Var" and y["v"] in cond_vars for a in x2.get("args", []) for y in walk(a))
                # a guard-based second section: what is done under the guard counts
                for lk_, node_, region_, var_ in lm.held_regions(f):
                    if node_ is x2:
                        passes = passes or any(y.get("k") == "Var" and y["v"] in cond_vars for r_ in region_ for y in walk(r_))
                    if node_ is x1:
                        cond_vars |= {y["v"] for r_ in region_ for y in walk(r_) if y.get("k") == "Var"}
                key = f"{fid}:{l1.split('::')[-1]}#{n}"
                yield ob(["C16"], "L5", key, "pass" if passes else "violation", where(f, x2),
                         f"{fid}: the second critical section of {l1} receives the data the decision was made on" if passes else
                         f"{fid}: decides on a value read under {l1} and then reads that state again in a second critical section without handing "
                         f"over what it decided on: between the two sections another thread can replace the state, so the value returned belongs "
                         f"to a different key than the one that was checked (a connection gets another interface's template)")
    if n == 0:
        yield ob(["C16"], "L5", "no-check-then-act", "pass", "", "no function reads the same locked state in two critical sections with the second "
                 "depending on the first", nontrivial=False)


# ---------------------------------------------------------------------------------------------
# L6: a cached value and the key it is valid for are read in ONE critical section

_LOCK_TAKE = ("RwLock::read", "RwLock::write", "RwLock::try_read", "RwLock::try_write", "Mutex::lock", "Mutex::try_lock")


_L_CRATE = ["savefile_abi"]


def _static_in(n):
    for y in walk(n):
        if y.get("k") == "Static" and str(y.get("id", "")).startswith(_L_CRATE[0] + "::"):
            return y["id"]
    return None


@rule("L6", ["C16"], floor=3, doc="a cached value and the key it is valid for are read in one critical section: when a function compares a parameter with "
      "the content of an atomic static and, on a match, takes data out of a DIFFERENT lock-protected static, the parameter is compared "
      "again with data stored under that lock; otherwise a writer that updates the pair between the two reads makes the function return "
      "the value that belongs to another key")
def l6(facts, tier):
    yield from _l6_scan(facts, "savefile_abi")
    # positive examples (the expected count on the library is zero): a split key that is not re-checked must be reported, one that is
    # re-checked under the lock must pass
    got = {}
    for o in _l6_scan(facts, "sfcorpus", only="selftest_locks"):
        got[o["key"].split("selftest_locks::")[-1].split(":")[0]] = o
    for name, want in (("lookup_split_key", "violation"), ("lookup_rechecked", "pass")):
        o = got.get(name)
        ok = o is not None and o["status"] == want
        yield ob(["C16"], "L6", f"selftest:{name}", "pass" if ok else "violation", o["where"] if o else "",
                 f"positive example {name} is classified `{want}`" if ok else
                 f"rule L6 no longer classifies its built-in example sfcorpus::selftest_locks::{name} as `{want}` (got {o['status'] if o else 'nothing'}): the rule is blind")


def _l6_scan(facts, crate, only=None):
    from ..flow import parent_map
    _L_CRATE[0] = crate
    n = 0
    for fid, f in sorted(facts.fns.items()):
        if f["crate"] != crate or not f.get("body") or f.get("kind") == "Closure" or (only is not None and only not in fid):
            continue
        params = {p["pat"]["v"] for p in f.get("params", []) if (p.get("pat") or {}).get("k") == "Bind"}
        for x in walk(f["body"]):
            if x.get("k") != "If":
                continue
            loads = [y for y in walk(x["c"]) if y.get("k") == "Call" and (callee(y) or "").rsplit("::", 1)[-1] == "load" and _static_in(y)]
            if not loads:
                continue
            cmp_params = {y["v"] for y in walk(x["c"]) if y.get("k") == "Var" and y["v"] in params}
            if not cmp_params:
                continue
            a_static = _static_in(loads[0])
            takes = [y for y in walk(x["t"]) if y.get("k") == "Call" and (callee(y) or "").endswith(_LOCK_TAKE) and _static_in(y)
                     and _static_in(y) != a_static]
            for t in takes:
                n += 1
                b_static = _static_in(t)
                # comparisons inside the branch that mention the parameter again
                again = False
                for y in walk(x["t"]):
                    if (y.get("k") == "Bin" and y.get("op") in ("Eq", "Ne")) or (y.get("k") == "Call" and (callee(y) or "").endswith(("PartialEq::eq", "PartialEq::ne"))):
                        if any(z.get("k") == "Var" and z["v"] in cmp_params for z in walk(y)) and not _static_in(y) == a_static:
                            again = True
                key = f"{fid}:{a_static.split('::')[-1]}->{b_static.split('::')[-1]}"
                yield ob(["C16"], "L6", key, "pass" if again else "violation", where(f, t),
                         f"{fid}: the parameter compared with {a_static} is compared again with data held under {b_static}" if again else
                         f"{fid}: `{sorted(cmp_params)[0].split('#')[0]}` is compared with the atomic {a_static} outside any lock, and on a match a value is taken out "
                         f"of {b_static} without comparing it again under that lock: a thread that replaces the cached pair between the two reads "
                         f"makes this call return the value cached for a different {sorted(cmp_params)[0].split('#')[0]} (a connection built from another "
                         f"implementation's template)")
    _L_CRATE[0] = "savefile_abi"
    if n == 0 and only is None:
        yield ob(["C16"], "L6", "no-split-key", "pass", "", "no function matches a parameter against an atomic static and then takes data from another "
                 "lock-protected static", nontrivial=False)


# ---------------------------------------------------------------------------------------------
# L7: cells that are read together are written together

_CELL_WRITE = ("store", "set", "swap", "fetch_add", "fetch_sub", "fetch_or", "fetch_and", "compare_exchange", "get_or_init", "replace", "take")
_CELL_READ = ("load", "get", "get_or_init")


@rule("L7", ["C16"], floor=0, doc="cells that are read together are written together: when a function of savefile_abi writes two different interior-mutable "
      "fields of one shared object with two separate operations (an atomic store and a OnceLock::set, two atomics ...) and a function "
      "decides on one of these fields and then uses the other, no lock makes the pair change as one: two threads interleave the four "
      "operations and leave a pair that belongs to neither (a cached template next to another caller's entry point)")
def l7(facts, tier):
    n = 0

    def cell_ops(f, names):
        """(object variable, field, operation name, node) for calls `obj.field.op(..)` on a shared reference parameter / static"""
        out = []
        for x in walk(f["body"]):
            if x.get("k") != "Call" or not x.get("args"):
                continue
            op = (callee(x) or "").rsplit("::", 1)[-1]
            if op not in names:
                continue
            r = peel(x["args"][0])
            while r.get("k") in ("Ref", "Deref", "Coerce"):
                r = peel(r["e"])
            if r.get("k") == "Field":
                b = peel(r["e"])
                while b.get("k") in ("Ref", "Deref", "Coerce"):
                    b = peel(b["e"])
                if b.get("k") in ("Var", "Static"):
                    out.append((b.get("v") or b.get("id"), r["f"], op, x))
        return out

    fns = [f for f in facts.fns.values() if f["crate"] == "savefile_abi" and f.get("body") and f.get("kind") != "Closure"]
    for f in sorted(fns, key=lambda g: g["id"]):
        shared = {p["pat"]["v"] for p in f.get("params", []) if (p.get("pat") or {}).get("k") == "Bind" and (p.get("ty") or "").startswith("&")
                  and not (p.get("ty") or "").startswith("&mut")}
        ws = [w for w in cell_ops(f, _CELL_WRITE) if (w[0] in shared or str(w[0]).startswith("savefile_abi::")) and w[2] not in ("get",)]
        by_obj = {}
        for o, fld, op, x in ws:
            by_obj.setdefault(o, {}).setdefault(fld, []).append((op, x))
        for o, flds in by_obj.items():
            if len(flds) < 2:
                continue
            # are two of these fields read together somewhere (here or in another function of the crate)?
            together = False
            for g in fns:
                rd = {fld for o2, fld, op, x in cell_ops(g, _CELL_READ) if fld in flds}
                if len(rd) >= 2:
                    together = True
            if not together:
                continue
            n += 1
            names = sorted(flds)
            node = flds[names[1]][0][1]
            yield ob(["C16"], "L7", f"{f['id']}:{'+'.join(names)}", "violation", where(f, node),
                     f"{f['id']} writes the fields {names} of one shared object with separate operations ({', '.join(flds[k][0][0] for k in names)}) and they are "
                     f"read together to take a decision: two threads that arrive with different keys interleave the writes and leave a value next "
                     f"to the other thread's key, which every later call then trusts")
    if n == 0:
        yield ob(["C16"], "L7", "no-split-pair", "pass", "", "no function writes two interior-mutable fields of one shared object that are read together",
                 nontrivial=False)
