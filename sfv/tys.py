"""A small parser / unifier for rustc-printed type strings."""
import re


def split_top(s, sep=","):
    out, depth, cur = [], 0, []
    i = 0
    while i < len(s):
        ch = s[i]
        if ch in "<([{":
            depth += 1
        elif ch in ">)]}":
            if ch == ">" and i > 0 and s[i - 1] == "-":
                pass
            else:
                depth -= 1
        if ch == sep and depth == 0:
            out.append("".join(cur).strip())
            cur = []
        else:
            cur.append(ch)
        i += 1
    last = "".join(cur).strip()
    if last:
        out.append(last)
    return out


def parse(s):
    s = s.strip()
    if s.startswith("&"):
        m = re.match(r"^&\s*('[A-Za-z_0-9]+\s+)?(mut\s+)?(.*)$", s)
        return ("ref", bool(m.group(2)), parse(m.group(3)))
    if s.startswith("*const ") or s.startswith("*mut "):
        mut = s.startswith("*mut ")
        return ("ptr", mut, parse(s[5 if mut else 7:]))
    if s.startswith("[") and s.endswith("]"):
        inner = s[1:-1]
        parts = split_top(inner, ";")
        if len(parts) == 2:
            return ("array", parse(parts[0]), parts[1].strip())
        return ("slice", parse(inner))
    if s.startswith("(") and s.endswith(")"):
        inner = s[1:-1].strip()
        if inner.endswith(","):
            inner = inner[:-1]
        return ("tuple", tuple(parse(p) for p in split_top(inner)) if inner else ())
    if s.startswith("dyn ") or s.startswith("impl ") or s.startswith("<") or s.startswith("fn(") or s.startswith("for<") \
            or s.startswith("unsafe ") or s.startswith("extern "):
        return ("atom", s)
    # path with optional generic args at the end:  a::b::C<X, Y>
    if s.endswith(">"):
        depth = 0
        for i in range(len(s) - 1, -1, -1):
            if s[i] == ">":
                depth += 1
            elif s[i] == "<":
                depth -= 1
                if depth == 0:
                    head = s[:i]
                    args = [a for a in split_top(s[i + 1:-1]) if not a.startswith("'")]
                    if "<" in head:
                        return ("atom", s)
                    return ("path", head, tuple(parse(a) for a in args))
        return ("atom", s)
    return ("path", s, ())


def show(t):
    k = t[0]
    if k == "ref":
        return "&" + ("mut " if t[1] else "") + show(t[2])
    if k == "ptr":
        return ("*mut " if t[1] else "*const ") + show(t[2])
    if k == "array":
        return f"[{show(t[1])}; {t[2]}]"
    if k == "slice":
        return f"[{show(t[1])}]"
    if k == "tuple":
        if len(t[1]) == 1:
            return "(" + show(t[1][0]) + ",)"
        return "(" + ", ".join(show(x) for x in t[1]) + ")"
    if k == "atom":
        return t[1]
    if k == "path":
        if t[2]:
            return t[1] + "<" + ", ".join(show(x) for x in t[2]) + ">"
        return t[1]
    return "?"


def unify(pat, conc, generics, b=None):
    """binds the generic parameter names occurring in `pat` so that it equals `conc`; returns dict or None"""
    if b is None:
        b = {}
    if pat[0] == "path" and not pat[2] and pat[1] in generics:
        if pat[1] in b:
            return b if b[pat[1]] == conc else None
        b[pat[1]] = conc
        return b
    if pat[0] != conc[0]:
        return None
    k = pat[0]
    if k in ("ref", "ptr"):
        if pat[1] != conc[1]:
            return None
        return unify(pat[2], conc[2], generics, b)
    if k == "slice":
        return unify(pat[1], conc[1], generics, b)
    if k == "array":
        if pat[2] in generics:
            if pat[2] in b and b[pat[2]] != ("path", conc[2], ()):
                return None
            b[pat[2]] = ("path", conc[2], ())
        elif pat[2] != conc[2]:
            return None
        return unify(pat[1], conc[1], generics, b)
    if k == "tuple":
        if len(pat[1]) != len(conc[1]):
            return None
        for x, y in zip(pat[1], conc[1]):
            if unify(x, y, generics, b) is None:
                return None
        return b
    if k == "atom":
        return b if pat[1] == conc[1] else None
    if k == "path":
        if pat[1] != conc[1]:
            return None
        pa, ca = pat[2], conc[2]
        # defaulted trailing parameters may be printed on one side only (allocator, hasher)
        n = min(len(pa), len(ca))
        for x, y in zip(pa[:n], ca[:n]):
            if unify(x, y, generics, b) is None:
                return None
        return b
    return None


def path_head(s):
    t = parse(s)
    while t[0] in ("ref",):
        t = t[2]
    if t[0] == "path":
        return t[1]
    return None
