"""constant folding of the pure, integer-valued parts of a Packed decision function for CONCRETE type arguments (tuple impls and the
local helpers they call): sizes and offsets come from rustc's layout tables, everything else is ordinary integer / tuple / Option
arithmetic. Anything outside this fragment raises Unknown (the decision is then 'undecided', never guessed)."""
from .ir import callee, peel, peel_block
from .shape import subst_ty


class Unknown(Exception):
    pass


class _Return(Exception):
    def __init__(self, v):
        self.v = v


class _Break(Exception):
    pass


class _Continue(Exception):
    pass


NONE = ("none",)
UNK = ("unk",)        # may mode: an opaque run-time value (a foreign value, an address)
UNKB = ("unkbool",)   # may mode: a condition on opaque values - both outcomes are explored


def _is_scalar_ty(t):
    return t in ("bool", "u8", "u16", "u32", "u64", "u128", "usize", "i8", "i16", "i32", "i64", "i128", "isize") or t.startswith("savefile::IsPacked")


class ConcreteInterp:
    def __init__(self, facts, tsub, decide, size_of, depth=0, may=False):
        """may=True: conditions that compare opaque run-time values (addresses of a probe value) are explored both ways and the
        answer is 'yes' if SOME outcome answers yes - the reading P2 needs ("whenever the decision CAN answer yes")"""
        self.may = may
        self.facts = facts
        self.tsub = tsub
        self.decide = decide       # (type string) -> True / False / None
        self.size_of = size_of
        self.depth = depth
        self.steps = 0

    def run_fn(self, f, args):
        env = {}
        ps = [p for p in f["params"] if p.get("pat")]
        for p, a in zip(ps, args):
            self.bind(p["pat"], a, env)
        try:
            return self.ev(f["body"], env)
        except _Return as r:
            return r.v

    def bind(self, pat, v, env):
        k = pat.get("k")
        if k == "Bind":
            env[pat["v"]] = v
            if "sub" in pat:
                self.bind(pat["sub"], v, env)
        elif k in ("Leaf", "Tuple") and isinstance(v, tuple) and v and v[0] == "tup":
            for i, s in enumerate(pat.get("subs", [])):
                idx = int(s.get("f", i)) if isinstance(s, dict) and str(s.get("f", i)).isdigit() else i
                q = s.get("p", s) if isinstance(s, dict) else s
                self.bind(q, v[1][idx], env)
        elif k == "Wild" or k is None:
            return
        elif k == "Deref" and pat.get("sub"):
            self.bind(pat["sub"], v, env)
        else:
            raise Unknown(f"pattern {k}")

    def ev(self, n, env):
        self.steps += 1
        if self.steps > 20000:
            raise Unknown("too many steps")
        n = peel(n) if n.get("k") in ("Ref", "Deref", "Coerce", "RawRef") else n
        k = n.get("k")
        if k in ("Ref", "Deref", "Coerce", "RawRef", "Cast"):
            return self.ev(n["e"], env)
        if k == "Lit":
            if "int" in n:
                return bool(n["int"]) if n.get("ty") == "bool" else n["int"]
            raise Unknown("literal")
        if k == "Var":
            if n["v"] in env:
                return env[n["v"]]
            raise Unknown("unbound " + n["v"])
        if k == "Block":
            e2 = env
            for s in n["stmts"]:
                self.stmt(s, e2)
            return self.ev(n["e"], e2) if n.get("e") is not None else ("tup", [])
        if k == "If":
            c = self.ev(n["c"], env)
            if c == UNKB and self.may:
                a = self.ev(n["t"], dict(env))
                b = self.ev(n["f"], dict(env)) if n.get("f") is not None else ("tup", [])
                if a == b:
                    return a
                if all(isinstance(x, tuple) and x and x[0] == "packed" for x in (a, b)):
                    return ("packed", True) if (a[1] is True or b[1] is True) else ("packed", None if None in (a[1], b[1]) else False)
                return UNK
            if not isinstance(c, bool):
                raise Unknown("condition")
            if c:
                return self.ev(n["t"], env)
            return self.ev(n["f"], env) if n.get("f") is not None else ("tup", [])
        if k == "Logic":
            a = self.ev(n["l"], env)
            if a == UNKB:
                b = self.ev(n["r"], env)
                if n["op"] == "And":
                    return False if b is False else UNKB
                return True if b is True else UNKB
            if n["op"] == "And":
                return a and self.ev(n["r"], env)
            return a or self.ev(n["r"], env)
        if k == "Un" and n.get("op") == "Not":
            v = self.ev(n["e"], env)
            if isinstance(v, bool):
                return not v
            if v == UNKB:
                return UNKB
            raise Unknown("not")
        if k == "Bin":
            a, b = self.ev(n["l"], env), self.ev(n["r"], env)
            op = n["op"]
            if UNK in (a, b):
                return UNKB if op in ("Eq", "Ne", "Lt", "Le", "Gt", "Ge") else UNK
            if op in ("Eq", "Ne"):
                return (a == b) == (op == "Eq")
            if isinstance(a, int) and isinstance(b, int) and not isinstance(a, bool):
                r = {"Add": a + b, "Sub": a - b, "Mul": a * b, "Lt": a < b, "Le": a <= b, "Gt": a > b, "Ge": a >= b,
                     "Div": a // b if b else None, "Rem": a % b if b else None, "BitAnd": a & b, "BitOr": a | b}.get(op)
                if r is None or (isinstance(r, int) and not isinstance(r, bool) and r < 0):
                    raise Unknown("arith")
                return r
            raise Unknown("binop " + op)
        if k == "Tuple":
            return ("tup", [self.ev(e, env) for e in n["es"]])
        if k == "Array":
            return ("arr", [self.ev(e, env) for e in n["es"]])
        if k == "Adt":
            if n.get("adt") == "core::option::Option":
                return NONE if n.get("variant") == "None" else ("some", self.ev(n["fields"][0]["e"], env))
            raise Unknown("adt")
        if k in ("Const", "ConstBlock"):
            if n.get("val") is not None:
                return bool(n["val"]) if n.get("ty") == "bool" else n["val"]
            g = self.facts.fns.get(n.get("id"))
            if g is not None and g.get("body"):
                return self.ev(g["body"], {})
            raise Unknown("const")
        if k == "Return":
            raise _Return(self.ev(n["e"], env) if n.get("e") is not None else ("tup", []))
        if k == "Break":
            raise _Break()
        if k == "Continue":
            raise _Continue()
        if k == "Field":
            b = self.ev(n["e"], env)
            if isinstance(b, tuple) and b and b[0] == "tup" and str(n["f"]).isdigit():
                return b[1][int(n["f"])]
            if b == UNK:
                return UNK
            raise Unknown("field")
        if k == "Index":
            b, i = self.ev(n["e"], env), self.ev(n["i"], env)
            if isinstance(b, tuple) and b[0] == "arr" and isinstance(i, int) and 0 <= i < len(b[1]):
                return b[1][i]
            raise Unknown("index")
        if k == "For":
            it = self.ev(n["iter"], env)
            if not (isinstance(it, tuple) and it[0] in ("arr", "iter")):
                raise Unknown("for")
            for item in it[1]:
                e2 = env
                self.bind(n["pat"], item, e2)
                try:
                    self.ev(n["body"], e2)
                except _Break:
                    break
                except _Continue:
                    continue
            return ("tup", [])
        if k == "Call":
            return self.call(n, env)
        if k == "ExprS":
            return self.ev(n["e"], env)
        raise Unknown("node " + str(k))

    def stmt(self, s, env):
        k = s.get("k")
        if k == "LetS":
            if s.get("init") is not None:
                try:
                    v = self.ev(s["init"], env)
                except Unknown:
                    # may mode: a probe value of a foreign type (`let d = Point3::new(..)`) is opaque, not fatal
                    if not (self.may and s["pat"].get("k") == "Bind" and not _is_scalar_ty(s["pat"].get("ty") or "")):
                        raise
                    v = UNK
                self.bind(s["pat"], v, env)
            elif s["pat"].get("k") == "Bind":
                env[s["pat"]["v"]] = None
        elif k == "ExprS":
            self.stmt(s["e"], env)
        elif k == "Assign":
            l = peel(s["l"])
            if l.get("k") != "Var":
                raise Unknown("assign")
            env[l["v"]] = self.ev(s["r"], env)
        elif k == "AssignOp":
            l = peel(s["l"])
            if l.get("k") != "Var":
                raise Unknown("assignop")
            a, b = env.get(l["v"]), self.ev(s["r"], env)
            op = s["op"].replace("Assign", "")
            if not (isinstance(a, int) and isinstance(b, int)):
                raise Unknown("assignop")
            env[l["v"]] = {"Add": a + b, "Sub": a - b, "Mul": a * b}.get(op)
            if env[l["v"]] is None or env[l["v"]] < 0:
                raise Unknown("assignop")
        else:
            self.ev(s, env)

    def call(self, n, env):
        c = callee(n) or ""
        name = c.rsplit("::", 1)[-1]
        args = n.get("args", [])
        if c in ("core::mem::size_of", "std::mem::size_of"):
            sz = self.size_of(subst_ty(n["targs"][0], self.tsub))
            if sz is None:
                raise Unknown("size_of")
            return sz
        if c in ("core::mem::align_of", "std::mem::align_of"):
            t = subst_ty(n["targs"][0], self.tsub)
            from .packed import PRIM_SIZES
            if t in PRIM_SIZES:
                return min(PRIM_SIZES[t], 16) if t not in ("u128", "i128") else (self.facts.layouts.get(t) or {}).get("align", 16)
            if t == "bool":
                return 1
            if t == "char":
                return 4
            lay = self.facts.layouts.get(t)
            if not lay or lay.get("align") is None:
                raise Unknown("align_of")
            return lay["align"]
        if c == "core::intrinsics::offset_of":
            lay = self.facts.layouts.get(subst_ty(n["targs"][0], self.tsub))
            fi = self.ev(args[1], env)
            if lay and lay.get("fields") and isinstance(fi, int) and fi < len(lay["fields"]):
                return lay["fields"][fi]["offset"]
            raise Unknown("offset_of")
        if c == "savefile::IsPacked::yes":
            return ("packed", True)
        if c == "savefile::IsPacked::no":
            return ("packed", False)
        if c == "savefile::Packed::repr_c_optimization_safe":
            r = self.decide(subst_ty(n.get("self_ty"), self.tsub))
            return ("packed", r)
        if c == "core::ops::bit::BitAnd::bitand" and n.get("self_ty") == "savefile::IsPacked":
            a, b = self.ev(args[0], env), self.ev(args[1], env)
            if a[1] is False or b[1] is False:
                return ("packed", False)
            return ("packed", True if (a[1] is True and b[1] is True) else None)
        if c in ("core::option::Option::is_some", "core::option::Option::is_none"):
            v = self.ev(args[0], env)
            if v == NONE or (isinstance(v, tuple) and v[0] == "some"):
                return (v != NONE) == c.endswith("is_some")
            raise Unknown("option")
        if c in ("core::cmp::PartialEq::eq", "core::cmp::PartialEq::ne"):
            return (self.ev(args[0], env) == self.ev(args[1], env)) == c.endswith("eq")
        if name in ("iter", "into_iter", "copied", "cloned", "as_slice") and args:
            v = self.ev(args[0], env)
            if isinstance(v, tuple) and v[0] in ("arr", "iter"):
                return ("iter", list(v[1]))
            raise Unknown("iter")
        if name == "enumerate" and args:
            v = self.ev(args[0], env)
            return ("iter", [("tup", [i, x]) for i, x in enumerate(v[1])])
        if name == "len" and args:
            v = self.ev(args[0], env)
            if isinstance(v, tuple) and v[0] in ("arr", "iter"):
                return len(v[1])
        if name in ("min", "max") and len(args) == 2:
            a, b = self.ev(args[0], env), self.ev(args[1], env)
            return min(a, b) if name == "min" else max(a, b)
        target = (n.get("res") or {}).get("fn") or n.get("fn")
        g = self.facts.fns.get(target)
        if g is not None and g.get("body") and g["crate"] == "savefile" and self.depth < 6:
            sub = ConcreteInterp(self.facts, self.tsub, self.decide, self.size_of, self.depth + 1, self.may)
            return sub.run_fn(g, [self.ev(a, env) for a in args])
        if self.may and (n.get("ty") or "").startswith(("*const", "*mut")):
            return UNK     # address arithmetic on a probe value
        raise Unknown("call " + c)
