#!/bin/bash
# usage: reftest_wt.sh <worktree> <outdir>   applies each behaviour-preserving refactoring <outdir>/refN.diff in the scratch worktree
# and runs EVERY property's check against it: any VIOLATION is a false alarm of the machinery
wt=$1; out=$2
for p in $out/ref*.diff; do
  n=$(basename $p .diff)
  git -C $wt checkout -q -- . && git -C $wt apply "$p" || { echo "$out $n: patch does not apply"; continue; }
  res=""
  for c in C01 C02 C03 C04 C05 C06 C07 C08 C09 C10 C11 C12 C13 C14 C15 C16 C17 C18; do
    o=$(cd /verif && SFV_REPO=$wt ./check $c 2>&1)
    v=$(echo "$o" | grep -c '^VIOLATION')
    if [ "$v" != "0" ]; then res="$res $c:$v"; echo "$o" | grep -A3 '^VIOLATION' | grep -v '^--' | head -8 | cut -c1-400 | sed "s#^#    [$n $c] #"; fi
  done
  echo "$(basename $out) $n: ${res:-silent}"
  git -C $wt checkout -q -- .
done
