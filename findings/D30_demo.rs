use savefile_derive::Savefile;
#[derive(Savefile, Debug, PartialEq, Clone, Copy)]
#[repr(u8)]
pub enum Cmd { Stop, Set(u8), Toggle(bool) }
#[derive(Savefile, Debug, PartialEq)]
#[repr(C)]
pub struct Holder { m: Cmd, tail: u8 }
fn main(){
    let h=Holder{m:Cmd::Stop, tail:0xEE};
    // make the padding byte of the unit variant something recognisable
    let mut h2=Holder{m:Cmd::Set(0x77), tail:0xEE};
    h2.m=Cmd::Stop; let _=&h2;
    for (name,x) in [("fresh",&h),("overwritten",&h2)] {
        let mut v=Vec::new();
        savefile::save_noschema(&mut v,0,x).unwrap();
        let mut rd=&v[..];
        let q:Result<Holder,_>=savefile::load_noschema(&mut rd,0);
        println!("{name}: saved {:?} bytes(after header)={:?} loaded {:?} unread={}",x,&v[v.len().saturating_sub(3)..],q,rd.len());
    }
    let v=vec![Cmd::Stop,Cmd::Set(1)];
    let mut b=Vec::new(); savefile::save_noschema(&mut b,0,&v).unwrap();
    println!("Vec<Cmd> of [Stop, Set(1)] payload bytes: {:?}", &b[b.len().saturating_sub(12)..]);
}
