// D31: a tuple whose elements have equal size and alignment but different types sits in the middle of a run of fields that the
// derive writes with one raw copy; rustc reorders the tuple ((u32, char, u32) is stored char first), the reader reads field by field.
use savefile_derive::Savefile;
#[derive(Savefile, Debug, PartialEq)]
#[repr(C)]
pub struct S { a: u32, b: (u32, char, u32), c: u32 }
#[derive(Savefile, Debug, PartialEq)]
#[repr(C)]
pub struct B { a: u8, b: (u8, bool, u8), c: u8 }
fn main(){
    let s=S{a:1,b:(2,'A',3),c:4};
    let mut v=Vec::new();
    savefile::save_noschema(&mut v,0,&s).unwrap();
    let q:Result<S,_>=savefile::load_noschema(&mut &v[..],0);
    println!("saved {:?}\nloaded {:?}", s, q);
    let s=B{a:1,b:(2,true,3),c:4};
    let mut v=Vec::new();
    savefile::save_noschema(&mut v,0,&s).unwrap();
    let q:Result<B,_>=savefile::load_noschema(&mut &v[..],0);
    println!("saved {:?}\nloaded {:?}", s, q);
}
