// D29: PathBuf is written through to_string_lossy(). Run as the main.rs of a crate depending on savefile (path = "/repo/savefile").
// Output on the pinned tree:  saved "f\xFFo" loaded "f\u{FFFD}o" equal=false
use std::ffi::OsString;
use std::os::unix::ffi::OsStringExt;
use std::path::PathBuf;
fn main(){
    let p=PathBuf::from(OsString::from_vec(vec![b'f',0xff,b'o']));
    let mut v=Vec::new();
    savefile::save(&mut v,0,&p).unwrap();
    let q:PathBuf=savefile::load(&mut &v[..],0).unwrap();
    println!("saved {:?} loaded {:?} equal={}",p,q,p==q);
}
