//! D32: the ledger does not see a changed return type of a nested interface (closure argument, async method).
use savefile_abi::verify_compatiblity;
use std::path::PathBuf;
use async_trait::async_trait;

fn fresh_dir(name: &str) -> String {
    let mut p = PathBuf::from(env!("CARGO_MANIFEST_DIR"));
    p.push(".."); p.push("target"); p.push("d32_demo"); p.push(name);
    let _ = std::fs::remove_dir_all(&p);
    std::fs::create_dir_all(&p).unwrap();
    p.to_str().unwrap().to_string()
}
mod clo_rev1 {
    #[savefile_abi_exportable(version = 0)]
    pub trait D32Closure { fn each(&self, f: &dyn Fn(u32) -> u32); }
}
mod clo_rev2 {
    #[savefile_abi_exportable(version = 0)]
    pub trait D32Closure { fn each(&self, f: &dyn Fn(u32) -> u64); }
}
#[test]
fn closure_return_type_change_is_reported() {
    let dir = fresh_dir("closure");
    verify_compatiblity::<dyn clo_rev1::D32Closure>(&dir).expect("first run");
    verify_compatiblity::<dyn clo_rev1::D32Closure>(&dir).expect("second run, unchanged");
    let outcome = verify_compatiblity::<dyn clo_rev2::D32Closure>(&dir);
    println!("closure: {:?}", outcome);
    assert!(outcome.is_err(), "closure return type changed u32 -> u64 but the ledger accepted it");
}
mod fut_rev1 {
    use super::*;
    #[async_trait]
    #[savefile_abi_exportable(version = 0)]
    pub trait D32Async { async fn get(&self, x: u32) -> u32; }
}
mod fut_rev2 {
    use super::*;
    #[async_trait]
    #[savefile_abi_exportable(version = 0)]
    pub trait D32Async { async fn get(&self, x: u32) -> u64; }
}
#[test]
fn async_return_type_change_is_reported() {
    let dir = fresh_dir("async");
    verify_compatiblity::<dyn fut_rev1::D32Async>(&dir).expect("first run");
    verify_compatiblity::<dyn fut_rev1::D32Async>(&dir).expect("second run, unchanged");
    let outcome = verify_compatiblity::<dyn fut_rev2::D32Async>(&dir);
    println!("async: {:?}", outcome);
    assert!(outcome.is_err(), "async method return type changed u32 -> u64 but the ledger accepted it");
}
